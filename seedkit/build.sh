#!/bin/sh
# Demonstration builder for seeded changes (NOT used by any registered check).
# usage: build.sh <repo-worktree> <outdir> <demo.c|demo.cc> [extra objects...]
# Compiles src/engine (C and C++) and src/user of the given worktree, generates abort()-stubs for the third-party
# symbols that are absent from the sandbox (libccd, qhull, lodepng, MC, tinyxml2-dependent XML API), links <demo>.
# Only files newer than their object are recompiled, so a second build after a one-file change takes seconds.
set -e
W=$(cd "$1" && pwd); OUT=$2; DEMO=$3
mkdir -p "$OUT"
STUBS=/verif/stubs
CF="-O0 -g -w -D_GNU_SOURCE -DCCD_STATIC_DEFINE -I$W/include -I$W/src -I$STUBS -I$W -mavx"
cd "$W"
for f in src/engine/*.c src/user/*.c; do
  [ -f "$f" ] || continue
  o="$OUT/$(echo $f | tr / _ ).o"
  if [ ! -f "$o" ] || [ "$f" -nt "$o" ] || [ -n "$(find include src -name '*.h' -newer "$o" -print -quit)" ]; then echo "clang -c -std=c11 $CF $f -o $o"; fi
done > "$OUT/cmds.txt"
for f in src/engine/*.cc src/user/*.cc; do
  o="$OUT/$(echo $f | tr / _ ).o"
  if [ ! -f "$o" ] || [ "$f" -nt "$o" ] || [ -n "$(find include src -name '*.h' -newer "$o" -print -quit)" ]; then echo "clang++ -c -std=c++20 -fexceptions $CF $f -o $o"; fi
done >> "$OUT/cmds.txt"
if [ -s "$OUT/cmds.txt" ]; then xargs -P16 -I{} sh -c '{}' < "$OUT/cmds.txt"; fi
case "$DEMO" in
  *.c) clang -c -std=c11 $CF "$DEMO" -o "$OUT/demo_main.o";;
  *) clang++ -c -std=c++20 -fexceptions $CF "$DEMO" -o "$OUT/demo_main.o";;
esac
ld -r -o "$OUT/all.o" "$OUT"/src_*.o "$OUT/demo_main.o"
# abort-stubs for symbols not available in the sandbox
nm -u "$OUT/all.o" | awk '{print $2}' | grep -E '^(ccd|qh_|lodepng|_ZN7lodepng|_Z[0-9]*lodepng|_ZN2MC|mj_saveXML|mj_saveLastXML|mj_parseXML|mj_loadXML|mj_parseXMLString|mj_freeLastXML|mj_printSchema|mju_writeResource)' | sort -u > "$OUT/missing.txt" || true
{
  echo ".text"
  while read s; do
    if [ "$s" = "ccd_vec3_origin" ]; then continue; fi
    echo ".globl $s"; echo "$s:"; echo "  call abort@PLT";
  done < "$OUT/missing.txt"
  echo ".data"; echo ".globl ccd_vec3_origin"; echo "ccd_vec3_origin: .quad 0";
  echo '.section .note.GNU-stack,"",@progbits'
} > "$OUT/stubs.s"
clang -c "$OUT/stubs.s" -o "$OUT/stubs.o"
clang++ -o "$OUT/demo" "$OUT/all.o" "$OUT/stubs.o" -lm -lpthread -ldl
echo "built $OUT/demo"
