// Minimal self-contained stand-in for tinyxml2 (the real library is not available in this sandbox).
// Implements the subset of the API used by MuJoCo's src/xml/*.cc with real behaviour:
// a small non-validating XML parser (elements, attributes, text, comments, declarations,
// <!...> unknowns, CDATA, entities, line numbers, depth limit), DOM editing and a printer.
#ifndef FAKE_TINYXML2_H_
#define FAKE_TINYXML2_H_

#include <cstddef>
#include <cstdint>
#include <cstdio>
#include <string>
#include <vector>

namespace tinyxml2 {

class XMLDocument;
class XMLElement;
class XMLAttribute;
class XMLComment;
class XMLText;
class XMLDeclaration;
class XMLUnknown;
class XMLPrinter;
class XMLNode;

enum XMLError {
  XML_SUCCESS = 0,
  XML_NO_ATTRIBUTE,
  XML_WRONG_ATTRIBUTE_TYPE,
  XML_ERROR_FILE_NOT_FOUND,
  XML_ERROR_FILE_COULD_NOT_BE_OPENED,
  XML_ERROR_FILE_READ_ERROR,
  XML_ERROR_PARSING_ELEMENT,
  XML_ERROR_PARSING_ATTRIBUTE,
  XML_ERROR_PARSING_TEXT,
  XML_ERROR_PARSING_CDATA,
  XML_ERROR_PARSING_COMMENT,
  XML_ERROR_PARSING_DECLARATION,
  XML_ERROR_PARSING_UNKNOWN,
  XML_ERROR_EMPTY_DOCUMENT,
  XML_ERROR_MISMATCHED_ELEMENT,
  XML_ERROR_PARSING,
  XML_CAN_NOT_CONVERT_TEXT,
  XML_NO_TEXT_NODE,
  XML_ELEMENT_DEPTH_EXCEEDED,
  XML_ERROR_COUNT
};

enum Whitespace { PRESERVE_WHITESPACE, COLLAPSE_WHITESPACE, PEDANTIC_WHITESPACE };

class XMLVisitor {
 public:
  virtual ~XMLVisitor() {}
  virtual bool VisitEnter(const XMLDocument&) { return true; }
  virtual bool VisitExit(const XMLDocument&) { return true; }
  virtual bool VisitEnter(const XMLElement&, const XMLAttribute*) { return true; }
  virtual bool VisitExit(const XMLElement&) { return true; }
  virtual bool Visit(const XMLDeclaration&) { return true; }
  virtual bool Visit(const XMLText&) { return true; }
  virtual bool Visit(const XMLComment&) { return true; }
  virtual bool Visit(const XMLUnknown&) { return true; }
};

class XMLAttribute {
  friend class XMLElement;
  friend class XMLDocument;
 public:
  const char* Name() const { return name_.c_str(); }
  const char* Value() const { return value_.c_str(); }
  int GetLineNum() const { return line_; }
  const XMLAttribute* Next() const { return next_; }
  int IntValue() const { int v = 0; QueryIntValue(&v); return v; }
  double DoubleValue() const { double v = 0; QueryDoubleValue(&v); return v; }
  float FloatValue() const { float v = 0; QueryFloatValue(&v); return v; }
  bool BoolValue() const { bool v = false; QueryBoolValue(&v); return v; }
  XMLError QueryIntValue(int* value) const;
  XMLError QueryDoubleValue(double* value) const;
  XMLError QueryFloatValue(float* value) const;
  XMLError QueryBoolValue(bool* value) const;
  void SetAttribute(const char* value) { value_ = value ? value : ""; }

 private:
  XMLAttribute() : line_(0), next_(nullptr) {}
  ~XMLAttribute() {}
  std::string name_, value_;
  int line_;
  XMLAttribute* next_;
};

class XMLNode {
  friend class XMLDocument;
  friend class XMLElement;
 public:
  const XMLDocument* GetDocument() const { return doc_; }
  XMLDocument* GetDocument() { return doc_; }

  virtual XMLElement* ToElement() { return nullptr; }
  virtual XMLText* ToText() { return nullptr; }
  virtual XMLComment* ToComment() { return nullptr; }
  virtual XMLDocument* ToDocument() { return nullptr; }
  virtual XMLDeclaration* ToDeclaration() { return nullptr; }
  virtual XMLUnknown* ToUnknown() { return nullptr; }
  virtual const XMLElement* ToElement() const { return nullptr; }
  virtual const XMLText* ToText() const { return nullptr; }
  virtual const XMLComment* ToComment() const { return nullptr; }
  virtual const XMLDocument* ToDocument() const { return nullptr; }
  virtual const XMLDeclaration* ToDeclaration() const { return nullptr; }
  virtual const XMLUnknown* ToUnknown() const { return nullptr; }

  const char* Value() const;
  void SetValue(const char* val, bool staticMem = false) { (void)staticMem; value_ = val ? val : ""; }
  int GetLineNum() const { return line_; }

  const XMLNode* Parent() const { return parent_; }
  XMLNode* Parent() { return parent_; }
  bool NoChildren() const { return !first_; }

  const XMLNode* FirstChild() const { return first_; }
  XMLNode* FirstChild() { return first_; }
  const XMLElement* FirstChildElement(const char* name = 0) const;
  XMLElement* FirstChildElement(const char* name = 0) {
    return const_cast<XMLElement*>(const_cast<const XMLNode*>(this)->FirstChildElement(name));
  }
  const XMLNode* LastChild() const { return last_; }
  XMLNode* LastChild() { return last_; }
  const XMLElement* LastChildElement(const char* name = 0) const;
  XMLElement* LastChildElement(const char* name = 0) {
    return const_cast<XMLElement*>(const_cast<const XMLNode*>(this)->LastChildElement(name));
  }
  const XMLNode* PreviousSibling() const { return prev_; }
  XMLNode* PreviousSibling() { return prev_; }
  const XMLElement* PreviousSiblingElement(const char* name = 0) const;
  XMLElement* PreviousSiblingElement(const char* name = 0) {
    return const_cast<XMLElement*>(const_cast<const XMLNode*>(this)->PreviousSiblingElement(name));
  }
  const XMLNode* NextSibling() const { return next_; }
  XMLNode* NextSibling() { return next_; }
  const XMLElement* NextSiblingElement(const char* name = 0) const;
  XMLElement* NextSiblingElement(const char* name = 0) {
    return const_cast<XMLElement*>(const_cast<const XMLNode*>(this)->NextSiblingElement(name));
  }

  XMLNode* InsertEndChild(XMLNode* addThis);
  XMLNode* LinkEndChild(XMLNode* addThis) { return InsertEndChild(addThis); }
  XMLNode* InsertFirstChild(XMLNode* addThis);
  XMLNode* InsertAfterChild(XMLNode* afterThis, XMLNode* addThis);
  void DeleteChildren();
  void DeleteChild(XMLNode* node);

  virtual XMLNode* ShallowClone(XMLDocument* document) const = 0;
  XMLNode* DeepClone(XMLDocument* target) const;
  virtual bool ShallowEqual(const XMLNode* compare) const = 0;
  virtual bool Accept(XMLVisitor* visitor) const = 0;

  void SetUserData(void* userData) { user_ = userData; }
  void* GetUserData() const { return user_; }

 protected:
  explicit XMLNode(XMLDocument* doc)
      : doc_(doc), parent_(nullptr), first_(nullptr), last_(nullptr), prev_(nullptr),
        next_(nullptr), line_(0), user_(nullptr) {}
  virtual ~XMLNode() {}
  void Unlink(XMLNode* child);

  XMLDocument* doc_;
  XMLNode *parent_, *first_, *last_, *prev_, *next_;
  std::string value_;
  int line_;
  void* user_;
};

class XMLText : public XMLNode {
  friend class XMLDocument;
 public:
  XMLText* ToText() override { return this; }
  const XMLText* ToText() const override { return this; }
  bool Accept(XMLVisitor* visitor) const override { return visitor->Visit(*this); }
  XMLNode* ShallowClone(XMLDocument* document) const override;
  bool ShallowEqual(const XMLNode* compare) const override;
  void SetCData(bool isCData) { cdata_ = isCData; }
  bool CData() const { return cdata_; }

 protected:
  explicit XMLText(XMLDocument* doc) : XMLNode(doc), cdata_(false) {}
  ~XMLText() override {}
  bool cdata_;
};

class XMLComment : public XMLNode {
  friend class XMLDocument;
 public:
  XMLComment* ToComment() override { return this; }
  const XMLComment* ToComment() const override { return this; }
  bool Accept(XMLVisitor* visitor) const override { return visitor->Visit(*this); }
  XMLNode* ShallowClone(XMLDocument* document) const override;
  bool ShallowEqual(const XMLNode* compare) const override;

 protected:
  explicit XMLComment(XMLDocument* doc) : XMLNode(doc) {}
  ~XMLComment() override {}
};

class XMLDeclaration : public XMLNode {
  friend class XMLDocument;
 public:
  XMLDeclaration* ToDeclaration() override { return this; }
  const XMLDeclaration* ToDeclaration() const override { return this; }
  bool Accept(XMLVisitor* visitor) const override { return visitor->Visit(*this); }
  XMLNode* ShallowClone(XMLDocument* document) const override;
  bool ShallowEqual(const XMLNode* compare) const override;

 protected:
  explicit XMLDeclaration(XMLDocument* doc) : XMLNode(doc) {}
  ~XMLDeclaration() override {}
};

class XMLUnknown : public XMLNode {
  friend class XMLDocument;
 public:
  XMLUnknown* ToUnknown() override { return this; }
  const XMLUnknown* ToUnknown() const override { return this; }
  bool Accept(XMLVisitor* visitor) const override { return visitor->Visit(*this); }
  XMLNode* ShallowClone(XMLDocument* document) const override;
  bool ShallowEqual(const XMLNode* compare) const override;

 protected:
  explicit XMLUnknown(XMLDocument* doc) : XMLNode(doc) {}
  ~XMLUnknown() override {}
};

class XMLElement : public XMLNode {
  friend class XMLDocument;
 public:
  const char* Name() const { return value_.c_str(); }
  void SetName(const char* str, bool staticMem = false) { SetValue(str, staticMem); }

  const char* Attribute(const char* name, const char* value = 0) const;
  int IntAttribute(const char* name, int defaultValue = 0) const;
  unsigned UnsignedAttribute(const char* name, unsigned defaultValue = 0) const;
  bool BoolAttribute(const char* name, bool defaultValue = false) const;
  double DoubleAttribute(const char* name, double defaultValue = 0) const;
  float FloatAttribute(const char* name, float defaultValue = 0) const;

  XMLError QueryIntAttribute(const char* name, int* value) const;
  XMLError QueryUnsignedAttribute(const char* name, unsigned int* value) const;
  XMLError QueryBoolAttribute(const char* name, bool* value) const;
  XMLError QueryDoubleAttribute(const char* name, double* value) const;
  XMLError QueryFloatAttribute(const char* name, float* value) const;
  XMLError QueryStringAttribute(const char* name, const char** value) const;

  void SetAttribute(const char* name, const char* value);
  void SetAttribute(const char* name, int value);
  void SetAttribute(const char* name, unsigned value);
  void SetAttribute(const char* name, int64_t value);
  void SetAttribute(const char* name, uint64_t value);
  void SetAttribute(const char* name, bool value);
  void SetAttribute(const char* name, double value);
  void SetAttribute(const char* name, float value);
  void DeleteAttribute(const char* name);

  const XMLAttribute* FirstAttribute() const { return attr_; }
  const XMLAttribute* FindAttribute(const char* name) const;

  const char* GetText() const;
  void SetText(const char* inText);
  void SetText(int value);
  void SetText(double value);

  XMLElement* InsertNewChildElement(const char* name);
  XMLComment* InsertNewComment(const char* comment);
  XMLText* InsertNewText(const char* text);

  XMLElement* ToElement() override { return this; }
  const XMLElement* ToElement() const override { return this; }
  bool Accept(XMLVisitor* visitor) const override;
  XMLNode* ShallowClone(XMLDocument* document) const override;
  bool ShallowEqual(const XMLNode* compare) const override;

 protected:
  explicit XMLElement(XMLDocument* doc) : XMLNode(doc), attr_(nullptr) {}
  ~XMLElement() override;
  XMLAttribute* FindOrCreate(const char* name);
  XMLAttribute* attr_;
};

class XMLDocument : public XMLNode {
 public:
  XMLDocument(bool processEntities = true, Whitespace whitespaceMode = PRESERVE_WHITESPACE);
  ~XMLDocument() override;

  XMLDocument* ToDocument() override { return this; }
  const XMLDocument* ToDocument() const override { return this; }

  XMLError Parse(const char* xml, size_t nBytes = static_cast<size_t>(-1));
  XMLError LoadFile(const char* filename);
  XMLError LoadFile(FILE*);
  XMLError SaveFile(const char* filename, bool compact = false);
  XMLError SaveFile(FILE* fp, bool compact = false);

  XMLElement* RootElement() { return FirstChildElement(); }
  const XMLElement* RootElement() const { return FirstChildElement(); }

  void Print(XMLPrinter* streamer = 0) const;
  bool Accept(XMLVisitor* visitor) const override;

  XMLElement* NewElement(const char* name);
  XMLComment* NewComment(const char* comment);
  XMLText* NewText(const char* text);
  XMLDeclaration* NewDeclaration(const char* text = 0);
  XMLUnknown* NewUnknown(const char* text);
  void DeleteNode(XMLNode* node);

  void ClearError() { err_ = XML_SUCCESS; errline_ = 0; errstr_.clear(); }
  bool Error() const { return err_ != XML_SUCCESS; }
  XMLError ErrorID() const { return err_; }
  const char* ErrorName() const { return ErrorIDToName(err_); }
  static const char* ErrorIDToName(XMLError errorID);
  const char* ErrorStr() const { return errstr_.c_str(); }
  void PrintError() const { if (Error()) fprintf(stderr, "%s\n", ErrorStr()); }
  int ErrorLineNum() const { return errline_; }
  void Clear();
  void DeepCopy(XMLDocument* target) const;

  XMLNode* ShallowClone(XMLDocument*) const override { return nullptr; }
  bool ShallowEqual(const XMLNode*) const override { return false; }

 private:
  friend class XMLNode;
  friend class XMLElement;
  template <class T> T* Track(T* n) { all_.push_back(n); return n; }
  void SetError(XMLError e, int line, const char* what);
  // parser
  struct P;
  bool ParseInto(P& p, XMLNode* parent, int depth, const std::string* closing);
  std::vector<XMLNode*> all_;   // every node ever created for this document (freed in dtor/Clear)
  XMLError err_;
  int errline_;
  std::string errstr_;
  bool entities_;
};

class XMLPrinter : public XMLVisitor {
 public:
  XMLPrinter(FILE* file = 0, bool compact = false, int depth = 0);
  ~XMLPrinter() override {}

  void PushHeader(bool writeBOM, bool writeDeclaration);
  void OpenElement(const char* name, bool compactMode = false);
  void PushAttribute(const char* name, const char* value);
  void PushAttribute(const char* name, int value);
  void PushAttribute(const char* name, double value);
  virtual void CloseElement(bool compactMode = false);
  void PushText(const char* text, bool cdata = false);
  void PushComment(const char* comment);

  bool VisitEnter(const XMLDocument&) override { return true; }
  bool VisitExit(const XMLDocument&) override { return true; }
  bool VisitEnter(const XMLElement& element, const XMLAttribute* attribute) override;
  bool VisitExit(const XMLElement& element) override;
  bool Visit(const XMLText& text) override;
  bool Visit(const XMLComment& comment) override;
  bool Visit(const XMLDeclaration& declaration) override;
  bool Visit(const XMLUnknown& unknown) override;

  const char* CStr() const { return buf_.c_str(); }
  int CStrSize() const { return (int)buf_.size() + 1; }
  void ClearBuffer(bool resetToFirstElement = true) { (void)resetToFirstElement; buf_.clear(); first_ = true; }

 protected:
  virtual bool CompactMode(const XMLElement&) { return compact_; }
  virtual void PrintSpace(int depth);
  virtual void Print(const char* format, ...);
  virtual void Write(const char* data, size_t size);
  virtual void Putc(char ch);
  void Write(const char* data);

 private:
  void SealIfOpen();
  void Escaped(const char* s, bool attr);
  FILE* fp_;
  bool compact_;
  int depth_;
  bool open_;      // start tag not yet closed with '>'
  bool first_;
  int textdepth_;
  std::vector<std::string> stack_;
  std::string buf_;
};

}  // namespace tinyxml2

#endif  // FAKE_TINYXML2_H_
