#!/bin/sh
# usage: buildxml.sh <repo-worktree> <outdir> <demo.cc>
# Builds engine + user (via the seed kit) AND the real src/xml/*.cc of the worktree against the small
# stand-in tinyxml2 in /verif/seedkit/xmlkit, then links <demo.cc> so that mj_loadXML / mj_parseXMLString
# execute the worktree's real XML reader.   Output: <outdir>/demo_xml
set -e
W=$(cd "$1" && pwd); OUT=$2; DEMO=$3
HERE=/verif/seedkit
FAKE=/verif/seedkit/xmlkit
mkdir -p "$OUT"
# 1. engine + user objects (+ a throw-away link with abort() stubs for the XML API)
/verif/seedkit/build.sh "$W" "$OUT" "$DEMO" > "$OUT/kit.log" 2>&1 || { cat "$OUT/kit.log"; exit 1; }
# 2. real XML sources against the stand-in tinyxml2
CF="-O0 -g -w -D_GNU_SOURCE -DCCD_STATIC_DEFINE -I$FAKE -I$W/include -I$W/src -I/verif/stubs -I$W -mavx"
: > "$OUT/xcmds.txt"
for f in "$W"/src/xml/*.cc "$FAKE/tinyxml2.cc"; do
  o="$OUT/xml_$(basename $f).o"
  if [ ! -f "$o" ] || [ "$f" -nt "$o" ] || [ "$FAKE/tinyxml2.h" -nt "$o" ] || \
     [ -n "$(find "$W/include" "$W/src" \( -name '*.h' -o -name '*.inc' \) -newer "$o" -print -quit)" ]; then
    echo "clang++ -c -std=c++20 -fexceptions $CF $f -o $o" >> "$OUT/xcmds.txt"
  fi
done
if [ -s "$OUT/xcmds.txt" ]; then xargs -P16 -I{} sh -c '{}' < "$OUT/xcmds.txt"; fi
# 3. link
ld -r -o "$OUT/allx.o" "$OUT"/src_*.o "$OUT"/xml_*.o "$OUT/demo_main.o"
nm -u "$OUT/allx.o" | awk '{print $2}' | grep -E '^(ccd|qh_|lodepng|_ZN7lodepng|_Z[0-9]*lodepng|_ZN2MC)' | sort -u > "$OUT/missingx.txt" || true
{
  echo ".text"
  while read s; do
    if [ "$s" = "ccd_vec3_origin" ]; then continue; fi
    echo ".globl $s"; echo "$s:"; echo "  call abort@PLT";
  done < "$OUT/missingx.txt"
  echo ".data"; echo ".globl ccd_vec3_origin"; echo "ccd_vec3_origin: .quad 0";
  echo '.section .note.GNU-stack,"",@progbits'
} > "$OUT/stubsx.s"
clang -c "$OUT/stubsx.s" -o "$OUT/stubsx.o"
clang++ -o "$OUT/demo_xml" "$OUT/allx.o" "$OUT/stubsx.o" -lm -lpthread -ldl
echo "built $OUT/demo_xml"
