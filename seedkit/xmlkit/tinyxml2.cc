// Minimal stand-in implementation of the tinyxml2 API subset (see tinyxml2.h in this directory).
#include "tinyxml2.h"

#include <cctype>
#include <cstdarg>
#include <cstdlib>
#include <cstring>

namespace tinyxml2 {

static const int kMaxDepth = 500;  // TINYXML2_MAX_ELEMENT_DEPTH

//------------------------------ XMLAttribute -----------------------------------------------------
XMLError XMLAttribute::QueryIntValue(int* value) const {
  return sscanf(Value(), "%d", value) == 1 ? XML_SUCCESS : XML_WRONG_ATTRIBUTE_TYPE;
}
XMLError XMLAttribute::QueryDoubleValue(double* value) const {
  return sscanf(Value(), "%lf", value) == 1 ? XML_SUCCESS : XML_WRONG_ATTRIBUTE_TYPE;
}
XMLError XMLAttribute::QueryFloatValue(float* value) const {
  return sscanf(Value(), "%f", value) == 1 ? XML_SUCCESS : XML_WRONG_ATTRIBUTE_TYPE;
}
XMLError XMLAttribute::QueryBoolValue(bool* value) const {
  int i;
  if (sscanf(Value(), "%d", &i) == 1) { *value = i != 0; return XML_SUCCESS; }
  if (value_ == "true" || value_ == "True" || value_ == "TRUE") { *value = true; return XML_SUCCESS; }
  if (value_ == "false" || value_ == "False" || value_ == "FALSE") { *value = false; return XML_SUCCESS; }
  return XML_WRONG_ATTRIBUTE_TYPE;
}

//------------------------------ XMLNode ----------------------------------------------------------
const char* XMLNode::Value() const {
  if (ToDocument()) return 0;
  return value_.c_str();
}

static bool NameOk(const XMLElement* e, const char* name) {
  return !name || !strcmp(e->Name(), name);
}

const XMLElement* XMLNode::FirstChildElement(const char* name) const {
  for (const XMLNode* n = first_; n; n = n->next_) {
    const XMLElement* e = n->ToElement();
    if (e && NameOk(e, name)) return e;
  }
  return nullptr;
}
const XMLElement* XMLNode::LastChildElement(const char* name) const {
  for (const XMLNode* n = last_; n; n = n->prev_) {
    const XMLElement* e = n->ToElement();
    if (e && NameOk(e, name)) return e;
  }
  return nullptr;
}
const XMLElement* XMLNode::NextSiblingElement(const char* name) const {
  for (const XMLNode* n = next_; n; n = n->next_) {
    const XMLElement* e = n->ToElement();
    if (e && NameOk(e, name)) return e;
  }
  return nullptr;
}
const XMLElement* XMLNode::PreviousSiblingElement(const char* name) const {
  for (const XMLNode* n = prev_; n; n = n->prev_) {
    const XMLElement* e = n->ToElement();
    if (e && NameOk(e, name)) return e;
  }
  return nullptr;
}

void XMLNode::Unlink(XMLNode* child) {
  if (child->parent_ != this) return;
  if (child->prev_) child->prev_->next_ = child->next_; else first_ = child->next_;
  if (child->next_) child->next_->prev_ = child->prev_; else last_ = child->prev_;
  child->prev_ = child->next_ = child->parent_ = nullptr;
}

XMLNode* XMLNode::InsertEndChild(XMLNode* addThis) {
  if (!addThis || addThis->doc_ != doc_) return nullptr;
  if (addThis->parent_) addThis->parent_->Unlink(addThis);
  addThis->prev_ = last_;
  addThis->next_ = nullptr;
  if (last_) last_->next_ = addThis; else first_ = addThis;
  last_ = addThis;
  addThis->parent_ = this;
  return addThis;
}

XMLNode* XMLNode::InsertFirstChild(XMLNode* addThis) {
  if (!addThis || addThis->doc_ != doc_) return nullptr;
  if (addThis->parent_) addThis->parent_->Unlink(addThis);
  addThis->next_ = first_;
  addThis->prev_ = nullptr;
  if (first_) first_->prev_ = addThis; else last_ = addThis;
  first_ = addThis;
  addThis->parent_ = this;
  return addThis;
}

XMLNode* XMLNode::InsertAfterChild(XMLNode* afterThis, XMLNode* addThis) {
  if (!addThis || addThis->doc_ != doc_ || !afterThis || afterThis->parent_ != this) return nullptr;
  if (afterThis == addThis) return addThis;
  if (!afterThis->next_) return InsertEndChild(addThis);
  if (addThis->parent_) addThis->parent_->Unlink(addThis);
  addThis->prev_ = afterThis;
  addThis->next_ = afterThis->next_;
  afterThis->next_->prev_ = addThis;
  afterThis->next_ = addThis;
  addThis->parent_ = this;
  return addThis;
}

void XMLNode::DeleteChildren() {
  while (first_) Unlink(first_);  // memory is reclaimed when the document is destroyed
}

void XMLNode::DeleteChild(XMLNode* node) {
  if (node) Unlink(node);
}

XMLNode* XMLNode::DeepClone(XMLDocument* target) const {
  XMLNode* clone = ShallowClone(target);
  if (!clone) return nullptr;
  for (const XMLNode* c = first_; c; c = c->next_) {
    XMLNode* cc = c->DeepClone(target);
    if (cc) clone->InsertEndChild(cc);
  }
  return clone;
}

//------------------------------ leaf nodes -------------------------------------------------------
XMLNode* XMLText::ShallowClone(XMLDocument* d) const {
  if (!d) d = doc_;
  XMLText* t = d->NewText(value_.c_str());
  t->SetCData(cdata_);
  return t;
}
bool XMLText::ShallowEqual(const XMLNode* c) const { return c && c->ToText() && value_ == c->Value(); }
XMLNode* XMLComment::ShallowClone(XMLDocument* d) const {
  if (!d) d = doc_;
  return d->NewComment(value_.c_str());
}
bool XMLComment::ShallowEqual(const XMLNode* c) const { return c && c->ToComment() && value_ == c->Value(); }
XMLNode* XMLDeclaration::ShallowClone(XMLDocument* d) const {
  if (!d) d = doc_;
  return d->NewDeclaration(value_.c_str());
}
bool XMLDeclaration::ShallowEqual(const XMLNode* c) const { return c && c->ToDeclaration() && value_ == c->Value(); }
XMLNode* XMLUnknown::ShallowClone(XMLDocument* d) const {
  if (!d) d = doc_;
  return d->NewUnknown(value_.c_str());
}
bool XMLUnknown::ShallowEqual(const XMLNode* c) const { return c && c->ToUnknown() && value_ == c->Value(); }

//------------------------------ XMLElement -------------------------------------------------------
XMLElement::~XMLElement() {
  while (attr_) { XMLAttribute* n = attr_->next_; delete attr_; attr_ = n; }
}

const XMLAttribute* XMLElement::FindAttribute(const char* name) const {
  for (const XMLAttribute* a = attr_; a; a = a->next_) {
    if (!strcmp(a->Name(), name)) return a;
  }
  return nullptr;
}

const char* XMLElement::Attribute(const char* name, const char* value) const {
  const XMLAttribute* a = FindAttribute(name);
  if (!a) return nullptr;
  if (!value || !strcmp(a->Value(), value)) return a->Value();
  return nullptr;
}

#define FAKE_QUERY(Fn, T, Q)                                            \
  XMLError XMLElement::Fn(const char* name, T* value) const {           \
    const XMLAttribute* a = FindAttribute(name);                        \
    if (!a) return XML_NO_ATTRIBUTE;                                    \
    return a->Q(value);                                                 \
  }
FAKE_QUERY(QueryIntAttribute, int, QueryIntValue)
FAKE_QUERY(QueryBoolAttribute, bool, QueryBoolValue)
FAKE_QUERY(QueryDoubleAttribute, double, QueryDoubleValue)
FAKE_QUERY(QueryFloatAttribute, float, QueryFloatValue)
#undef FAKE_QUERY

XMLError XMLElement::QueryUnsignedAttribute(const char* name, unsigned int* value) const {
  const XMLAttribute* a = FindAttribute(name);
  if (!a) return XML_NO_ATTRIBUTE;
  return sscanf(a->Value(), "%u", value) == 1 ? XML_SUCCESS : XML_WRONG_ATTRIBUTE_TYPE;
}
XMLError XMLElement::QueryStringAttribute(const char* name, const char** value) const {
  const XMLAttribute* a = FindAttribute(name);
  if (!a) return XML_NO_ATTRIBUTE;
  *value = a->Value();
  return XML_SUCCESS;
}
int XMLElement::IntAttribute(const char* name, int d) const { QueryIntAttribute(name, &d); return d; }
unsigned XMLElement::UnsignedAttribute(const char* name, unsigned d) const { QueryUnsignedAttribute(name, &d); return d; }
bool XMLElement::BoolAttribute(const char* name, bool d) const { QueryBoolAttribute(name, &d); return d; }
double XMLElement::DoubleAttribute(const char* name, double d) const { QueryDoubleAttribute(name, &d); return d; }
float XMLElement::FloatAttribute(const char* name, float d) const { QueryFloatAttribute(name, &d); return d; }

XMLAttribute* XMLElement::FindOrCreate(const char* name) {
  XMLAttribute* last = nullptr;
  for (XMLAttribute* a = attr_; a; a = a->next_) {
    if (!strcmp(a->Name(), name)) return a;
    last = a;
  }
  XMLAttribute* a = new XMLAttribute();
  a->name_ = name;
  if (last) last->next_ = a; else attr_ = a;
  return a;
}

void XMLElement::SetAttribute(const char* name, const char* value) { FindOrCreate(name)->SetAttribute(value); }
void XMLElement::SetAttribute(const char* name, int value) { SetAttribute(name, std::to_string(value).c_str()); }
void XMLElement::SetAttribute(const char* name, unsigned value) { SetAttribute(name, std::to_string(value).c_str()); }
void XMLElement::SetAttribute(const char* name, int64_t value) { SetAttribute(name, std::to_string((long long)value).c_str()); }
void XMLElement::SetAttribute(const char* name, uint64_t value) { SetAttribute(name, std::to_string((unsigned long long)value).c_str()); }
void XMLElement::SetAttribute(const char* name, bool value) { SetAttribute(name, value ? "true" : "false"); }
void XMLElement::SetAttribute(const char* name, double value) {
  char b[64]; snprintf(b, sizeof(b), "%.17g", value); SetAttribute(name, b);
}
void XMLElement::SetAttribute(const char* name, float value) {
  char b[64]; snprintf(b, sizeof(b), "%.8g", (double)value); SetAttribute(name, b);
}
void XMLElement::DeleteAttribute(const char* name) {
  XMLAttribute* prev = nullptr;
  for (XMLAttribute* a = attr_; a; prev = a, a = a->next_) {
    if (!strcmp(a->Name(), name)) {
      if (prev) prev->next_ = a->next_; else attr_ = a->next_;
      delete a;
      return;
    }
  }
}

const char* XMLElement::GetText() const {
  if (first_ && first_->ToText()) return first_->Value();
  return nullptr;
}
void XMLElement::SetText(const char* t) {
  if (first_ && first_->ToText()) first_->SetValue(t); else InsertFirstChild(doc_->NewText(t));
}
void XMLElement::SetText(int v) { SetText(std::to_string(v).c_str()); }
void XMLElement::SetText(double v) { char b[64]; snprintf(b, sizeof(b), "%.17g", v); SetText(b); }

XMLElement* XMLElement::InsertNewChildElement(const char* name) {
  XMLElement* e = doc_->NewElement(name);
  InsertEndChild(e);
  return e;
}
XMLComment* XMLElement::InsertNewComment(const char* c) {
  XMLComment* n = doc_->NewComment(c);
  InsertEndChild(n);
  return n;
}
XMLText* XMLElement::InsertNewText(const char* t) {
  XMLText* n = doc_->NewText(t);
  InsertEndChild(n);
  return n;
}

bool XMLElement::Accept(XMLVisitor* v) const {
  if (v->VisitEnter(*this, attr_)) {
    for (const XMLNode* n = first_; n; n = n->NextSibling()) {
      if (!n->Accept(v)) break;
    }
  }
  return v->VisitExit(*this);
}

XMLNode* XMLElement::ShallowClone(XMLDocument* d) const {
  if (!d) d = doc_;
  XMLElement* e = d->NewElement(Name());
  e->line_ = line_;
  for (const XMLAttribute* a = attr_; a; a = a->next_) {
    XMLAttribute* na = e->FindOrCreate(a->Name());
    na->value_ = a->value_;
    na->line_ = a->line_;
  }
  return e;
}
bool XMLElement::ShallowEqual(const XMLNode* c) const {
  const XMLElement* o = c ? c->ToElement() : nullptr;
  if (!o || value_ != o->value_) return false;
  const XMLAttribute *a = attr_, *b = o->attr_;
  while (a && b) {
    if (a->value_ != b->value_) return false;
    a = a->next_; b = b->next_;
  }
  return !a && !b;
}

//------------------------------ XMLDocument ------------------------------------------------------
XMLDocument::XMLDocument(bool processEntities, Whitespace)
    : XMLNode(nullptr), err_(XML_SUCCESS), errline_(0), entities_(processEntities) {
  doc_ = this;
}

XMLDocument::~XMLDocument() { Clear(); }

void XMLDocument::Clear() {
  first_ = last_ = nullptr;
  for (XMLNode* n : all_) delete n;
  all_.clear();
  ClearError();
}

XMLElement* XMLDocument::NewElement(const char* name) {
  XMLElement* e = Track(new XMLElement(this));
  e->SetName(name);
  return e;
}
XMLComment* XMLDocument::NewComment(const char* s) {
  XMLComment* n = Track(new XMLComment(this));
  n->SetValue(s);
  return n;
}
XMLText* XMLDocument::NewText(const char* s) {
  XMLText* n = Track(new XMLText(this));
  n->SetValue(s);
  return n;
}
XMLDeclaration* XMLDocument::NewDeclaration(const char* s) {
  XMLDeclaration* n = Track(new XMLDeclaration(this));
  n->SetValue(s ? s : "xml version=\"1.0\" encoding=\"UTF-8\"");
  return n;
}
XMLUnknown* XMLDocument::NewUnknown(const char* s) {
  XMLUnknown* n = Track(new XMLUnknown(this));
  n->SetValue(s);
  return n;
}
void XMLDocument::DeleteNode(XMLNode* node) {
  if (node && node->parent_) node->parent_->Unlink(node);
}

static const char* kErrNames[XML_ERROR_COUNT] = {
  "XML_SUCCESS", "XML_NO_ATTRIBUTE", "XML_WRONG_ATTRIBUTE_TYPE", "XML_ERROR_FILE_NOT_FOUND",
  "XML_ERROR_FILE_COULD_NOT_BE_OPENED", "XML_ERROR_FILE_READ_ERROR", "XML_ERROR_PARSING_ELEMENT",
  "XML_ERROR_PARSING_ATTRIBUTE", "XML_ERROR_PARSING_TEXT", "XML_ERROR_PARSING_CDATA",
  "XML_ERROR_PARSING_COMMENT", "XML_ERROR_PARSING_DECLARATION", "XML_ERROR_PARSING_UNKNOWN",
  "XML_ERROR_EMPTY_DOCUMENT", "XML_ERROR_MISMATCHED_ELEMENT", "XML_ERROR_PARSING",
  "XML_CAN_NOT_CONVERT_TEXT", "XML_NO_TEXT_NODE", "XML_ELEMENT_DEPTH_EXCEEDED"};

const char* XMLDocument::ErrorIDToName(XMLError e) {
  return (e >= 0 && e < XML_ERROR_COUNT) ? kErrNames[e] : "XML_ERROR_UNKNOWN";
}

void XMLDocument::SetError(XMLError e, int line, const char* what) {
  err_ = e;
  errline_ = line;
  char b[300];
  snprintf(b, sizeof(b), "Error=%s ErrorID=%d (0x%x) Line number=%d%s%s", ErrorIDToName(e), (int)e,
           (unsigned)e, line, what ? ": " : "", what ? what : "");
  errstr_ = b;
}

struct XMLDocument::P {
  std::string s;
  size_t i = 0;
  int line = 1;
  bool eof() const { return i >= s.size(); }
  char c() const { return i < s.size() ? s[i] : '\0'; }
  void adv(size_t n = 1) {
    for (size_t k = 0; k < n && i < s.size(); k++, i++) if (s[i] == '\n') line++;
  }
  bool starts(const char* t) const { return s.compare(i, strlen(t), t) == 0; }
  void skipws() { while (!eof() && isspace((unsigned char)c())) adv(); }
  // read until terminator t; returns false if not found
  bool until(const char* t, std::string& out) {
    size_t k = s.find(t, i);
    if (k == std::string::npos) return false;
    out = s.substr(i, k - i);
    adv(k - i + strlen(t));
    return true;
  }
};

static void AppendUtf8(std::string& out, unsigned long cp) {
  if (cp < 0x80) out += (char)cp;
  else if (cp < 0x800) { out += (char)(0xC0 | (cp >> 6)); out += (char)(0x80 | (cp & 0x3F)); }
  else if (cp < 0x10000) {
    out += (char)(0xE0 | (cp >> 12)); out += (char)(0x80 | ((cp >> 6) & 0x3F)); out += (char)(0x80 | (cp & 0x3F));
  } else if (cp < 0x110000) {
    out += (char)(0xF0 | (cp >> 18)); out += (char)(0x80 | ((cp >> 12) & 0x3F));
    out += (char)(0x80 | ((cp >> 6) & 0x3F)); out += (char)(0x80 | (cp & 0x3F));
  }
}

static std::string Decode(const std::string& in, bool entities) {
  if (!entities || in.find('&') == std::string::npos) return in;
  std::string out;
  for (size_t i = 0; i < in.size();) {
    if (in[i] != '&') { out += in[i++]; continue; }
    size_t semi = in.find(';', i);
    if (semi == std::string::npos || semi - i > 12) { out += in[i++]; continue; }
    std::string ent = in.substr(i + 1, semi - i - 1);
    if (ent == "lt") out += '<';
    else if (ent == "gt") out += '>';
    else if (ent == "amp") out += '&';
    else if (ent == "quot") out += '"';
    else if (ent == "apos") out += '\'';
    else if (ent.size() > 1 && ent[0] == '#') {
      char* end = nullptr;
      unsigned long cp = (ent[1] == 'x' || ent[1] == 'X') ? strtoul(ent.c_str() + 2, &end, 16)
                                                           : strtoul(ent.c_str() + 1, &end, 10);
      if (end && *end == '\0' && cp) AppendUtf8(out, cp);
      else { out += in[i++]; continue; }
    } else { out += in[i++]; continue; }
    i = semi + 1;
  }
  return out;
}

static bool NameStart(unsigned char ch) { return ch >= 128 || isalpha(ch) || ch == '_' || ch == ':'; }
static bool NameChar(unsigned char ch) { return NameStart(ch) || isdigit(ch) || ch == '.' || ch == '-'; }

bool XMLDocument::ParseInto(P& p, XMLNode* parent, int depth, const std::string* closing) {
  for (;;) {
    // text up to next tag
    size_t start = p.i;
    int startline = p.line;
    while (!p.eof() && p.c() != '<') p.adv();
    if (p.i > start) {
      std::string raw = p.s.substr(start, p.i - start);
      bool allws = true;
      for (char ch : raw) if (!isspace((unsigned char)ch)) { allws = false; break; }
      if (!allws) {
        XMLText* t = NewText(Decode(raw, entities_).c_str());
        t->line_ = startline;
        parent->InsertEndChild(t);
      }
    }
    if (p.eof()) {
      if (closing) { SetError(XML_ERROR_PARSING, p.line, "unclosed element"); return false; }
      return true;
    }
    int line = p.line;
    std::string body;
    if (p.starts("<!--")) {
      p.adv(4);
      if (!p.until("-->", body)) { SetError(XML_ERROR_PARSING_COMMENT, line, 0); return false; }
      XMLComment* n = NewComment(body.c_str());
      n->line_ = line;
      parent->InsertEndChild(n);
    } else if (p.starts("<![CDATA[")) {
      p.adv(9);
      if (!p.until("]]>", body)) { SetError(XML_ERROR_PARSING_CDATA, line, 0); return false; }
      XMLText* n = NewText(body.c_str());
      n->SetCData(true);
      n->line_ = line;
      parent->InsertEndChild(n);
    } else if (p.starts("<?")) {
      p.adv(2);
      if (!p.until("?>", body)) { SetError(XML_ERROR_PARSING_DECLARATION, line, 0); return false; }
      XMLDeclaration* n = NewDeclaration(body.c_str());
      n->line_ = line;
      parent->InsertEndChild(n);
    } else if (p.starts("<!")) {
      p.adv(2);
      if (!p.until(">", body)) { SetError(XML_ERROR_PARSING_UNKNOWN, line, 0); return false; }
      XMLUnknown* n = NewUnknown(body.c_str());
      n->line_ = line;
      parent->InsertEndChild(n);
    } else if (p.starts("</")) {
      p.adv(2);
      std::string name;
      while (!p.eof() && NameChar(p.c())) { name += p.c(); p.adv(); }
      p.skipws();
      if (p.c() != '>') { SetError(XML_ERROR_PARSING_ELEMENT, line, name.c_str()); return false; }
      p.adv();
      if (!closing || name != *closing) {
        SetError(XML_ERROR_MISMATCHED_ELEMENT, line, name.c_str());
        return false;
      }
      return true;
    } else {
      p.adv();  // '<'
      if (!NameStart(p.c())) { SetError(XML_ERROR_PARSING_ELEMENT, line, 0); return false; }
      std::string name;
      while (!p.eof() && NameChar(p.c())) { name += p.c(); p.adv(); }
      if (depth >= kMaxDepth) { SetError(XML_ELEMENT_DEPTH_EXCEEDED, line, name.c_str()); return false; }
      XMLElement* e = NewElement(name.c_str());
      e->line_ = line;
      parent->InsertEndChild(e);
      XMLAttribute* lastattr = nullptr;
      bool selfclosed = false;
      for (;;) {
        p.skipws();
        if (p.eof()) { SetError(XML_ERROR_PARSING_ELEMENT, line, name.c_str()); return false; }
        if (p.c() == '>') { p.adv(); break; }
        if (p.c() == '/') {
          p.adv();
          if (p.c() != '>') { SetError(XML_ERROR_PARSING_ELEMENT, line, name.c_str()); return false; }
          p.adv();
          selfclosed = true;
          break;
        }
        if (!NameStart(p.c())) { SetError(XML_ERROR_PARSING_ELEMENT, line, name.c_str()); return false; }
        int aline = p.line;
        std::string an;
        while (!p.eof() && NameChar(p.c())) { an += p.c(); p.adv(); }
        p.skipws();
        if (p.c() != '=') { SetError(XML_ERROR_PARSING_ATTRIBUTE, aline, an.c_str()); return false; }
        p.adv();
        p.skipws();
        char q = p.c();
        if (q != '"' && q != '\'') { SetError(XML_ERROR_PARSING_ATTRIBUTE, aline, an.c_str()); return false; }
        p.adv();
        std::string av;
        char qs[2] = {q, 0};
        if (!p.until(qs, av)) { SetError(XML_ERROR_PARSING_ATTRIBUTE, aline, an.c_str()); return false; }
        XMLAttribute* a = new XMLAttribute();
        a->name_ = an;
        a->value_ = Decode(av, entities_);
        a->line_ = aline;
        if (lastattr) lastattr->next_ = a; else e->attr_ = a;
        lastattr = a;
      }
      if (!selfclosed) {
        if (!ParseInto(p, e, depth + 1, &name)) return false;
      }
    }
  }
}

XMLError XMLDocument::Parse(const char* xml, size_t nBytes) {
  Clear();
  if (!xml || nBytes == 0 || !*xml) {
    SetError(XML_ERROR_EMPTY_DOCUMENT, 0, 0);
    return err_;
  }
  P p;
  if (nBytes == static_cast<size_t>(-1)) p.s = xml; else p.s.assign(xml, strnlen(xml, nBytes));
  // skip UTF-8 BOM
  if (p.s.size() >= 3 && (unsigned char)p.s[0] == 0xEF && (unsigned char)p.s[1] == 0xBB &&
      (unsigned char)p.s[2] == 0xBF) p.i = 3;
  size_t k = p.i;
  while (k < p.s.size() && isspace((unsigned char)p.s[k])) k++;
  if (k >= p.s.size()) {
    SetError(XML_ERROR_EMPTY_DOCUMENT, 0, 0);
    return err_;
  }
  if (!ParseInto(p, this, 0, nullptr)) {
    XMLError e = err_; int l = errline_; std::string s = errstr_;
    first_ = last_ = nullptr;
    for (XMLNode* n : all_) delete n;
    all_.clear();
    err_ = e; errline_ = l; errstr_ = s;
  }
  return err_;
}

XMLError XMLDocument::LoadFile(const char* filename) {
  Clear();
  FILE* fp = filename ? fopen(filename, "rb") : nullptr;
  if (!fp) { SetError(XML_ERROR_FILE_NOT_FOUND, 0, filename); return err_; }
  XMLError e = LoadFile(fp);
  fclose(fp);
  return e;
}
XMLError XMLDocument::LoadFile(FILE* fp) {
  Clear();
  std::string s;
  char b[4096];
  size_t n;
  while ((n = fread(b, 1, sizeof(b), fp)) > 0) s.append(b, n);
  if (s.empty()) { SetError(XML_ERROR_EMPTY_DOCUMENT, 0, 0); return err_; }
  return Parse(s.data(), s.size());
}
XMLError XMLDocument::SaveFile(const char* filename, bool compact) {
  FILE* fp = fopen(filename, "w");
  if (!fp) { SetError(XML_ERROR_FILE_COULD_NOT_BE_OPENED, 0, filename); return err_; }
  XMLError e = SaveFile(fp, compact);
  fclose(fp);
  return e;
}
XMLError XMLDocument::SaveFile(FILE* fp, bool compact) {
  ClearError();
  XMLPrinter pr(fp, compact);
  Print(&pr);
  return err_;
}

void XMLDocument::Print(XMLPrinter* streamer) const {
  if (streamer) {
    Accept(streamer);
  } else {
    XMLPrinter pr(stdout);
    Accept(&pr);
  }
}

bool XMLDocument::Accept(XMLVisitor* v) const {
  if (v->VisitEnter(*this)) {
    for (const XMLNode* n = first_; n; n = n->NextSibling()) {
      if (!n->Accept(v)) break;
    }
  }
  return v->VisitExit(*this);
}

void XMLDocument::DeepCopy(XMLDocument* target) const {
  if (target == this) return;
  target->Clear();
  for (const XMLNode* n = first_; n; n = n->NextSibling()) {
    target->InsertEndChild(n->DeepClone(target));
  }
}

//------------------------------ XMLPrinter -------------------------------------------------------
XMLPrinter::XMLPrinter(FILE* file, bool compact, int depth)
    : fp_(file), compact_(compact), depth_(depth), open_(false), first_(true), textdepth_(-1) {}

void XMLPrinter::Write(const char* data, size_t size) {
  if (fp_) fwrite(data, 1, size, fp_); else buf_.append(data, size);
}
void XMLPrinter::Write(const char* data) { Write(data, strlen(data)); }
void XMLPrinter::Putc(char ch) { Write(&ch, 1); }
void XMLPrinter::Print(const char* format, ...) {
  char b[4096];
  va_list va;
  va_start(va, format);
  int n = vsnprintf(b, sizeof(b), format, va);
  va_end(va);
  if (n > 0) Write(b, (size_t)n < sizeof(b) ? (size_t)n : sizeof(b) - 1);
}
void XMLPrinter::PrintSpace(int depth) { for (int i = 0; i < depth; i++) Write("    "); }

void XMLPrinter::Escaped(const char* s, bool attr) {
  for (; *s; s++) {
    switch (*s) {
      case '<': Write("&lt;"); break;
      case '>': Write("&gt;"); break;
      case '&': Write("&amp;"); break;
      case '"': if (attr) Write("&quot;"); else Putc(*s); break;
      default: Putc(*s);
    }
  }
}
void XMLPrinter::SealIfOpen() {
  if (open_) { Putc('>'); open_ = false; }
}
void XMLPrinter::PushHeader(bool writeBOM, bool writeDec) {
  if (writeBOM) Write("\xEF\xBB\xBF");
  if (writeDec) { Write("<?xml version=\"1.0\"?>"); first_ = false; }
}
void XMLPrinter::OpenElement(const char* name, bool compactMode) {
  SealIfOpen();
  stack_.push_back(name);
  if (textdepth_ < 0 && !first_ && !compactMode) Putc('\n');
  if (!compactMode && textdepth_ < 0) PrintSpace(depth_);
  Putc('<');
  Write(name);
  open_ = true;
  first_ = false;
  depth_++;
}
void XMLPrinter::PushAttribute(const char* name, const char* value) {
  Putc(' ');
  Write(name);
  Write("=\"");
  Escaped(value, true);
  Putc('"');
}
void XMLPrinter::PushAttribute(const char* name, int v) { PushAttribute(name, std::to_string(v).c_str()); }
void XMLPrinter::PushAttribute(const char* name, double v) {
  char b[64]; snprintf(b, sizeof(b), "%.17g", v); PushAttribute(name, b);
}
void XMLPrinter::CloseElement(bool compactMode) {
  depth_--;
  std::string name = stack_.empty() ? std::string() : stack_.back();
  if (!stack_.empty()) stack_.pop_back();
  if (open_) {
    Write("/>");
    open_ = false;
  } else {
    if (textdepth_ < 0 && !compactMode) { Putc('\n'); PrintSpace(depth_); }
    Write("</");
    Write(name.c_str());
    Putc('>');
  }
  if (textdepth_ == depth_) textdepth_ = -1;
  if (depth_ == 0 && !compactMode) Putc('\n');
}
void XMLPrinter::PushText(const char* text, bool cdata) {
  textdepth_ = depth_ - 1;
  SealIfOpen();
  if (cdata) { Write("<![CDATA["); Write(text); Write("]]>"); } else Escaped(text, false);
}
void XMLPrinter::PushComment(const char* comment) {
  SealIfOpen();
  if (textdepth_ < 0 && !first_ && !compact_) { Putc('\n'); PrintSpace(depth_); }
  first_ = false;
  Write("<!--");
  Write(comment);
  Write("-->");
}
bool XMLPrinter::VisitEnter(const XMLElement& e, const XMLAttribute* a) {
  OpenElement(e.Name(), CompactMode(e));
  for (; a; a = a->Next()) PushAttribute(a->Name(), a->Value());
  return true;
}
bool XMLPrinter::VisitExit(const XMLElement& e) { CloseElement(CompactMode(e)); return true; }
bool XMLPrinter::Visit(const XMLText& t) { PushText(t.Value(), t.CData()); return true; }
bool XMLPrinter::Visit(const XMLComment& c) { PushComment(c.Value()); return true; }
bool XMLPrinter::Visit(const XMLDeclaration& d) {
  SealIfOpen();
  if (textdepth_ < 0 && !first_ && !compact_) { Putc('\n'); PrintSpace(depth_); }
  first_ = false;
  Write("<?"); Write(d.Value()); Write("?>");
  return true;
}
bool XMLPrinter::Visit(const XMLUnknown& u) {
  SealIfOpen();
  if (textdepth_ < 0 && !first_ && !compact_) { Putc('\n'); PrintSpace(depth_); }
  first_ = false;
  Write("<!"); Write(u.Value()); Putc('>');
  return true;
}

}  // namespace tinyxml2
