#!/bin/sh
# runs every registered quick check on /repo's working tree, validates MANIFEST and evidence against the schemas
cd /verif
python3-vt -m sa.setup || exit 2
rc=0
for p in $(python3 -c "import json; print(' '.join(c['property_id'] for c in json.load(open('MANIFEST.json'))['checks']))"); do
  out=$(python3-vt -m sa.check $p --tier quick 2>&1); e=$?
  echo "$out" | tail -1 | cut -c1-160
  if [ $e -ne 0 ]; then echo "!! $p exit=$e"; echo "$out" | grep -E "VIOLATION|ANALYSIS-ERROR" | head -3; rc=1; fi
done
python3-vt - <<'PY'
import json, jsonschema, glob
ms = json.load(open('/root/.vp/MANIFEST.schema.json')); es = json.load(open('/root/.vp/EVIDENCE.schema.json'))
m = json.load(open('MANIFEST.json')); jsonschema.validate(m, ms)
for c in m['checks']:
    e = json.load(open(c['evidence_file'])); jsonschema.validate(e, es)
    assert e['level'] == c['level_claimed']['category'], (c['property_id'], e['level'])
    assert e['property_id'] == c['property_id']
print("schemas ok:", len(m['checks']), "checks")
PY
exit $rc
