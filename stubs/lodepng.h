// Declaration-only shell of the lodepng API used by src/user/user_objects.cc (static analysis only).
#ifndef VERIF_STUBS_LODEPNG_H_
#define VERIF_STUBS_LODEPNG_H_
#include <cstddef>
typedef enum LodePNGColorType { LCT_GREY = 0, LCT_RGB = 2, LCT_PALETTE = 3, LCT_GREY_ALPHA = 4, LCT_RGBA = 6 } LodePNGColorType;
typedef struct LodePNGColorMode { LodePNGColorType colortype; unsigned bitdepth; } LodePNGColorMode;
typedef struct LodePNGInfo { LodePNGColorMode color; unsigned srgb_defined; unsigned srgb_intent; } LodePNGInfo;
typedef struct LodePNGState { LodePNGColorMode info_raw; LodePNGInfo info_png; unsigned error; } LodePNGState;
unsigned lodepng_decode(unsigned char** out, unsigned* w, unsigned* h, LodePNGState* state,
                        const unsigned char* in, size_t insize);
const char* lodepng_error_text(unsigned code);
size_t lodepng_get_raw_size(unsigned w, unsigned h, const LodePNGColorMode* color);
namespace lodepng {
class State : public LodePNGState {
 public:
  State();
  ~State();
};
}  // namespace lodepng
#endif  // VERIF_STUBS_LODEPNG_H_
