// Declaration-only shell of the marching-cubes API used by src/user/user_mesh.cc (static analysis only).
#ifndef VERIF_STUBS_MC_H_
#define VERIF_STUBS_MC_H_
#include <vector>
namespace MC {
typedef float MC_FLOAT;
typedef unsigned int muint;
struct mcVec3f { MC_FLOAT x, y, z; };
struct mcMesh {
  std::vector<mcVec3f> vertices;
  std::vector<mcVec3f> normals;
  std::vector<muint> indices;
};
void marching_cube(MC_FLOAT* field, muint nx, muint ny, muint nz, mcMesh& outputMesh);
}  // namespace MC
#endif  // VERIF_STUBS_MC_H_
