// Declaration-only shell of the tinyxml2 API for static analysis of /repo's src/xml/*.cc.
// Type shells only: names and signatures of the members the repository calls (taken from the
// call sites in src/xml, src/xml/mjz and src/experimental/usd).  No third-party code is analysed;
// nothing here has a body that matters to any check.
#ifndef VERIF_STUBS_TINYXML2_H_
#define VERIF_STUBS_TINYXML2_H_

#include <cstddef>
#include <cstdint>
#include <cstdio>

namespace tinyxml2 {

class XMLDocument;
class XMLElement;
class XMLAttribute;
class XMLComment;
class XMLText;
class XMLDeclaration;
class XMLUnknown;
class XMLPrinter;
class XMLNode;

enum XMLError {
  XML_SUCCESS = 0,
  XML_NO_ATTRIBUTE,
  XML_WRONG_ATTRIBUTE_TYPE,
  XML_ERROR_FILE_NOT_FOUND,
  XML_ERROR_FILE_COULD_NOT_BE_OPENED,
  XML_ERROR_FILE_READ_ERROR,
  XML_ERROR_PARSING_ELEMENT,
  XML_ERROR_PARSING_ATTRIBUTE,
  XML_ERROR_PARSING_TEXT,
  XML_ERROR_PARSING_CDATA,
  XML_ERROR_PARSING_COMMENT,
  XML_ERROR_PARSING_DECLARATION,
  XML_ERROR_PARSING_UNKNOWN,
  XML_ERROR_EMPTY_DOCUMENT,
  XML_ERROR_MISMATCHED_ELEMENT,
  XML_ERROR_PARSING,
  XML_CAN_NOT_CONVERT_TEXT,
  XML_NO_TEXT_NODE,
  XML_ELEMENT_DEPTH_EXCEEDED,
  XML_ERROR_COUNT
};

enum Whitespace { PRESERVE_WHITESPACE, COLLAPSE_WHITESPACE, PEDANTIC_WHITESPACE };

class XMLVisitor {
 public:
  virtual ~XMLVisitor() {}
  virtual bool VisitEnter(const XMLDocument&) { return true; }
  virtual bool VisitExit(const XMLDocument&) { return true; }
  virtual bool VisitEnter(const XMLElement&, const XMLAttribute*) { return true; }
  virtual bool VisitExit(const XMLElement&) { return true; }
  virtual bool Visit(const XMLDeclaration&) { return true; }
  virtual bool Visit(const XMLText&) { return true; }
  virtual bool Visit(const XMLComment&) { return true; }
  virtual bool Visit(const XMLUnknown&) { return true; }
};

class XMLAttribute {
 public:
  const char* Name() const;
  const char* Value() const;
  int GetLineNum() const;
  const XMLAttribute* Next() const;
  int IntValue() const;
  double DoubleValue() const;
  float FloatValue() const;
  bool BoolValue() const;
  XMLError QueryIntValue(int* value) const;
  XMLError QueryDoubleValue(double* value) const;
  XMLError QueryFloatValue(float* value) const;
  XMLError QueryBoolValue(bool* value) const;
  void SetAttribute(const char* value);

 private:
  XMLAttribute();
  ~XMLAttribute();
};

class XMLNode {
 public:
  const XMLDocument* GetDocument() const;
  XMLDocument* GetDocument();

  virtual XMLElement* ToElement();
  virtual XMLText* ToText();
  virtual XMLComment* ToComment();
  virtual XMLDocument* ToDocument();
  virtual XMLDeclaration* ToDeclaration();
  virtual XMLUnknown* ToUnknown();
  virtual const XMLElement* ToElement() const;
  virtual const XMLText* ToText() const;
  virtual const XMLComment* ToComment() const;
  virtual const XMLDocument* ToDocument() const;
  virtual const XMLDeclaration* ToDeclaration() const;
  virtual const XMLUnknown* ToUnknown() const;

  const char* Value() const;
  void SetValue(const char* val, bool staticMem = false);
  int GetLineNum() const;

  const XMLNode* Parent() const;
  XMLNode* Parent();
  bool NoChildren() const;

  const XMLNode* FirstChild() const;
  XMLNode* FirstChild();
  const XMLElement* FirstChildElement(const char* name = 0) const;
  XMLElement* FirstChildElement(const char* name = 0);
  const XMLNode* LastChild() const;
  XMLNode* LastChild();
  const XMLElement* LastChildElement(const char* name = 0) const;
  XMLElement* LastChildElement(const char* name = 0);
  const XMLNode* PreviousSibling() const;
  XMLNode* PreviousSibling();
  const XMLElement* PreviousSiblingElement(const char* name = 0) const;
  XMLElement* PreviousSiblingElement(const char* name = 0);
  const XMLNode* NextSibling() const;
  XMLNode* NextSibling();
  const XMLElement* NextSiblingElement(const char* name = 0) const;
  XMLElement* NextSiblingElement(const char* name = 0);

  XMLNode* InsertEndChild(XMLNode* addThis);
  XMLNode* LinkEndChild(XMLNode* addThis);
  XMLNode* InsertFirstChild(XMLNode* addThis);
  XMLNode* InsertAfterChild(XMLNode* afterThis, XMLNode* addThis);
  void DeleteChildren();
  void DeleteChild(XMLNode* node);

  virtual XMLNode* ShallowClone(XMLDocument* document) const = 0;
  XMLNode* DeepClone(XMLDocument* target) const;
  virtual bool ShallowEqual(const XMLNode* compare) const = 0;
  virtual bool Accept(XMLVisitor* visitor) const = 0;

  void SetUserData(void* userData);
  void* GetUserData() const;

 protected:
  explicit XMLNode(XMLDocument*);
  virtual ~XMLNode();
};

class XMLText : public XMLNode {
 public:
  bool Accept(XMLVisitor* visitor) const override;
  XMLNode* ShallowClone(XMLDocument* document) const override;
  bool ShallowEqual(const XMLNode* compare) const override;
  void SetCData(bool isCData);
  bool CData() const;

 protected:
  explicit XMLText(XMLDocument* doc);
  ~XMLText() override;
};

class XMLComment : public XMLNode {
 public:
  bool Accept(XMLVisitor* visitor) const override;
  XMLNode* ShallowClone(XMLDocument* document) const override;
  bool ShallowEqual(const XMLNode* compare) const override;

 protected:
  explicit XMLComment(XMLDocument* doc);
  ~XMLComment() override;
};

class XMLDeclaration : public XMLNode {
 public:
  bool Accept(XMLVisitor* visitor) const override;
  XMLNode* ShallowClone(XMLDocument* document) const override;
  bool ShallowEqual(const XMLNode* compare) const override;

 protected:
  explicit XMLDeclaration(XMLDocument* doc);
  ~XMLDeclaration() override;
};

class XMLUnknown : public XMLNode {
 public:
  bool Accept(XMLVisitor* visitor) const override;
  XMLNode* ShallowClone(XMLDocument* document) const override;
  bool ShallowEqual(const XMLNode* compare) const override;

 protected:
  explicit XMLUnknown(XMLDocument* doc);
  ~XMLUnknown() override;
};

class XMLElement : public XMLNode {
 public:
  const char* Name() const;
  void SetName(const char* str, bool staticMem = false);

  const char* Attribute(const char* name, const char* value = 0) const;
  int IntAttribute(const char* name, int defaultValue = 0) const;
  unsigned UnsignedAttribute(const char* name, unsigned defaultValue = 0) const;
  bool BoolAttribute(const char* name, bool defaultValue = false) const;
  double DoubleAttribute(const char* name, double defaultValue = 0) const;
  float FloatAttribute(const char* name, float defaultValue = 0) const;

  XMLError QueryIntAttribute(const char* name, int* value) const;
  XMLError QueryUnsignedAttribute(const char* name, unsigned int* value) const;
  XMLError QueryBoolAttribute(const char* name, bool* value) const;
  XMLError QueryDoubleAttribute(const char* name, double* value) const;
  XMLError QueryFloatAttribute(const char* name, float* value) const;
  XMLError QueryStringAttribute(const char* name, const char** value) const;

  void SetAttribute(const char* name, const char* value);
  void SetAttribute(const char* name, int value);
  void SetAttribute(const char* name, unsigned value);
  void SetAttribute(const char* name, int64_t value);
  void SetAttribute(const char* name, uint64_t value);
  void SetAttribute(const char* name, bool value);
  void SetAttribute(const char* name, double value);
  void SetAttribute(const char* name, float value);
  void DeleteAttribute(const char* name);

  const XMLAttribute* FirstAttribute() const;
  const XMLAttribute* FindAttribute(const char* name) const;

  const char* GetText() const;
  void SetText(const char* inText);
  void SetText(int value);
  void SetText(double value);

  XMLElement* InsertNewChildElement(const char* name);
  XMLComment* InsertNewComment(const char* comment);
  XMLText* InsertNewText(const char* text);

  XMLElement* ToElement() override;
  const XMLElement* ToElement() const override;
  bool Accept(XMLVisitor* visitor) const override;
  XMLNode* ShallowClone(XMLDocument* document) const override;
  bool ShallowEqual(const XMLNode* compare) const override;

 protected:
  explicit XMLElement(XMLDocument* doc);
  ~XMLElement() override;
};

class XMLDocument : public XMLNode {
 public:
  XMLDocument(bool processEntities = true, Whitespace whitespaceMode = PRESERVE_WHITESPACE);
  ~XMLDocument() override;

  XMLDocument* ToDocument() override;
  const XMLDocument* ToDocument() const override;

  XMLError Parse(const char* xml, size_t nBytes = static_cast<size_t>(-1));
  XMLError LoadFile(const char* filename);
  XMLError LoadFile(FILE*);
  XMLError SaveFile(const char* filename, bool compact = false);
  XMLError SaveFile(FILE* fp, bool compact = false);

  XMLElement* RootElement();
  const XMLElement* RootElement() const;

  void Print(XMLPrinter* streamer = 0) const;
  bool Accept(XMLVisitor* visitor) const override;

  XMLElement* NewElement(const char* name);
  XMLComment* NewComment(const char* comment);
  XMLText* NewText(const char* text);
  XMLDeclaration* NewDeclaration(const char* text = 0);
  XMLUnknown* NewUnknown(const char* text);
  void DeleteNode(XMLNode* node);

  void ClearError();
  bool Error() const;
  XMLError ErrorID() const;
  const char* ErrorName() const;
  static const char* ErrorIDToName(XMLError errorID);
  const char* ErrorStr() const;
  void PrintError() const;
  int ErrorLineNum() const;
  void Clear();
  void DeepCopy(XMLDocument* target) const;

  XMLNode* ShallowClone(XMLDocument* document) const override;
  bool ShallowEqual(const XMLNode* compare) const override;
};

class XMLPrinter : public XMLVisitor {
 public:
  XMLPrinter(FILE* file = 0, bool compact = false, int depth = 0);
  ~XMLPrinter() override;

  void PushHeader(bool writeBOM, bool writeDeclaration);
  void OpenElement(const char* name, bool compactMode = false);
  void PushAttribute(const char* name, const char* value);
  void PushAttribute(const char* name, int value);
  void PushAttribute(const char* name, double value);
  virtual void CloseElement(bool compactMode = false);
  void PushText(const char* text, bool cdata = false);
  void PushComment(const char* comment);

  bool VisitEnter(const XMLDocument&) override;
  bool VisitExit(const XMLDocument&) override;
  bool VisitEnter(const XMLElement& element, const XMLAttribute* attribute) override;
  bool VisitExit(const XMLElement& element) override;
  bool Visit(const XMLText& text) override;
  bool Visit(const XMLComment& comment) override;
  bool Visit(const XMLDeclaration& declaration) override;
  bool Visit(const XMLUnknown& unknown) override;

  const char* CStr() const;
  int CStrSize() const;
  void ClearBuffer(bool resetToFirstElement = true);

 protected:
  virtual bool CompactMode(const XMLElement&);
  virtual void PrintSpace(int depth);
  virtual void Print(const char* format, ...);
  virtual void Write(const char* data, size_t size);
  virtual void Putc(char ch);
  void Write(const char* data);
};

}  // namespace tinyxml2

#endif  // VERIF_STUBS_TINYXML2_H_
