/* declaration-only stub of libccd's ccd.h for parsing (no third-party code is analysed) */
#ifndef VERIF_STUB_CCD_H
#define VERIF_STUB_CCD_H
#include <ccd/vec3.h>
#ifdef __cplusplus
extern "C" {
#endif
typedef void (*ccd_support_fn)(const void *obj, const ccd_vec3_t *dir, ccd_vec3_t *vec);
typedef void (*ccd_first_dir_fn)(const void *obj1, const void *obj2, ccd_vec3_t *dir);
typedef void (*ccd_center_fn)(const void *obj1, ccd_vec3_t *center);
struct _ccd_t {
  ccd_first_dir_fn first_dir;
  ccd_support_fn support1;
  ccd_support_fn support2;
  ccd_center_fn center1;
  ccd_center_fn center2;
  unsigned long max_iterations;
  ccd_real_t epa_tolerance;
  ccd_real_t mpr_tolerance;
  ccd_real_t dist_tolerance;
};
typedef struct _ccd_t ccd_t;
void ccdFirstDirDefault(const void *o1, const void *o2, ccd_vec3_t *dir);
void ccdInitStub(ccd_t *ccd);
#define CCD_INIT(ccd) ccdInitStub(ccd)
int ccdMPRPenetration(const void *obj1, const void *obj2, const ccd_t *ccd,
                      ccd_real_t *depth, ccd_vec3_t *dir, ccd_vec3_t *pos);
int ccdGJKPenetration(const void *obj1, const void *obj2, const ccd_t *ccd,
                      ccd_real_t *depth, ccd_vec3_t *dir, ccd_vec3_t *pos);
int ccdMPRIntersect(const void *obj1, const void *obj2, const ccd_t *ccd);
#ifdef __cplusplus
}
#endif
#endif
