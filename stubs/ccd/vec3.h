/* declaration-only stub of libccd's vec3.h for parsing (no third-party code is analysed) */
#ifndef VERIF_STUB_CCD_VEC3_H
#define VERIF_STUB_CCD_VEC3_H
#ifdef __cplusplus
extern "C" {
#endif
typedef double ccd_real_t;
typedef struct _ccd_vec3_t { ccd_real_t v[3]; } ccd_vec3_t;
extern ccd_vec3_t *ccd_vec3_origin;
void ccdVec3Set(ccd_vec3_t *v, ccd_real_t x, ccd_real_t y, ccd_real_t z);
int ccdVec3Eq(const ccd_vec3_t *a, const ccd_vec3_t *b);
#ifdef __cplusplus
}
#endif
#endif
