/* Declaration-only shell of the reentrant qhull API used by src/user/user_mesh.cc
   (mjCMesh::MakeGraph).  Static analysis only; no qhull code is analysed. */
#ifndef VERIF_STUBS_QHULL_RA_H_
#define VERIF_STUBS_QHULL_RA_H_
#include <setjmp.h>
#include <stdio.h>

typedef double realT;
typedef double coordT;
typedef coordT pointT;
typedef unsigned int boolT;
#define qh_False 0
#define qh_True 1
#define qh_ALL 1

typedef struct setT setT;
typedef struct facetT facetT;
typedef struct vertexT vertexT;
typedef struct qhT qhT;

typedef union setelemT { void* p; int i; } setelemT;
struct setT { int maxsize; setelemT e[1]; };

struct vertexT {
  vertexT* next;
  vertexT* previous;
  pointT* point;
  setT* neighbors;
  unsigned int id;
};

struct facetT {
  facetT* next;
  facetT* previous;
  setT* vertices;
  setT* neighbors;
  unsigned int id;
  unsigned int toporient : 1;
  unsigned int simplicial : 1;
  unsigned int upperdelaunay : 1;
};

struct qhT {
  jmp_buf errexit;
  boolT NOerrexit;
  int num_vertices;
  int num_facets;
  int num_points;
  facetT* facet_list;
  vertexT* vertex_list;
};

#define FORALLfacets for (facet = qh->facet_list; facet && facet->next; facet = facet->next)
#define FORALLvertices for (vertex = qh->vertex_list; vertex && vertex->next; vertex = vertex->next)
#define FOREACHsetelement_(type, set, variable) \
  if (((variable = NULL), set)) \
    for (variable##p = (type**)&((set)->e[0].p); (variable = *variable##p++);)

void qh_zero(qhT* qh, FILE* errfile);
void qh_init_A(qhT* qh, FILE* infile, FILE* outfile, FILE* errfile, int argc, char* argv[]);
void qh_initflags(qhT* qh, char* command);
void qh_init_B(qhT* qh, coordT* points, int numpoints, int dim, boolT ismalloc);
void qh_qhull(qhT* qh);
void qh_triangulate(qhT* qh);
void qh_vertexneighbors(qhT* qh);
int qh_pointid(qhT* qh, pointT* point);
void qh_freeqhull(qhT* qh, boolT allmem);
void qh_memfreeshort(qhT* qh, int* curlong, int* totlong);

#endif /* VERIF_STUBS_QHULL_RA_H_ */
