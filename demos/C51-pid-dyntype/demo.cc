// C51 demo (PID plugin, dyntype other than none/integrator/filter/filterexact).
//
// Pid::Create validates actuator_actnum == ActDim (own slots: integral, previous ctrl), adding the native
// activation slot only for dyntype integrator / filter / filterexact.  Pid::GetCtrl / Pid::Compute, however,
// read the setpoint (and its rate) from act[actadr + actnum - 1] / act_dot[actadr + actnum - 1] for EVERY
// dyntype != none.  The mjSpec/XML compiler skips its actdim checks for plugin actuators, so for dyntype
// muscle / user / dcmotor / pid Create accepts exactly the models for which that index is wrong:
//   (a) own slots == 0, actdim 0  -> actadr == -1, index -2: a read BEFORE d->act / d->act_dot
//   (b) own slots >= 1, actdim == own -> the "native" slot is the plugin's own last slot (integral / previous ctrl)
//
// Checked here (every check prints PASS or FAIL; exit 1 if any FAIL):
//   A  kp-only plugin actuator, dyntype muscle, actdim 0 (what the plugin's own warning recommends):
//      either refused at load, or the force must be a function of the actuator's own inputs only
//      (here: unchanged when only the velocity / previous acceleration of an unrelated joint change).
//   B  kp+ki plugin actuator, dyntype muscle, actdim 1: either refused at load, or the force must follow
//      f = kp*e + ki*I with e = u - length for the commanded setpoint u (and must depend on ctrl at all).
//   C  structural: for every (dyntype, own slots, actdim) that loads, the slot the plugin reads as setpoint,
//      actadr + actnum - 1, lies inside the actuator's slice and is not one of the plugin's own slots.
//   D  control group: the supported dyntypes (none / integrator / filter / filterexact) load with exactly the
//      actdim they loaded with before, and no other.
//   E  dyntype muscle WITH the native slot (actdim = own + 1): where Create accepts it, the force must follow
//      the law with the muscle activation as setpoint (not loadable on the unfixed tree: info only).
// Built with the seed kit: the plugin source is included directly (plugin/ is not part of the kit build).
#include <mujoco/mujoco.h>
#include <mujoco/mjxmacro.h>

#include <cmath>
#include <cstdio>
#include <cstring>
#include <map>
#include <string>
#include <vector>

#include "plugin/actuator/pid.cc"

namespace {

int failures = 0;

void Pass(const char* what) { std::printf("PASS %s\n", what); }
void Fail(const char* what) { std::printf("FAIL %s\n", what); failures++; }

std::string Num(double x) {
  char buf[64];
  std::snprintf(buf, sizeof(buf), "%.17g", x);
  return buf;
}

const char* DynName(int t) {
  switch (t) {
    case mjDYN_NONE: return "none";
    case mjDYN_INTEGRATOR: return "integrator";
    case mjDYN_FILTER: return "filter";
    case mjDYN_FILTEREXACT: return "filterexact";
    case mjDYN_MUSCLE: return "muscle";
    case mjDYN_DCMOTOR: return "dcmotor";
    case mjDYN_PID: return "pid";
    case mjDYN_USER: return "user";
  }
  return "?";
}

struct Opt {
  int njoint = 1;         // slide joints j0..j(n-1); the PID plugin drives j0
  double kp = 30, ki = 0, kd = 0;
  bool has_slew = false;
  double slewmax = 2.0;
  int dyntype = mjDYN_NONE;
  int actdim = -1;
  bool actearly = false;
  double qpos0 = 0.0;     // initial position of j0 (set on mjData by the caller)
};

// builds the spec; returns the compiled model (nullptr if refused) and the error text
mjModel* Build(const Opt& o, std::string* err) {
  mjSpec* s = mj_makeSpec();
  mjs_activatePlugin(s, "mujoco.pid");
  s->option.timestep = 0.004;
  s->option.gravity[2] = 0;
  for (int k = 0; k < o.njoint; k++) {
    mjsBody* b = mjs_addBody(mjs_findBody(s, "world"), nullptr);
    b->pos[0] = k;
    mjsJoint* j = mjs_addJoint(b, nullptr);
    j->type = mjJNT_SLIDE;
    j->axis[0] = 0; j->axis[1] = 0; j->axis[2] = 1;
    mjs_setName(j->element, ("j" + std::to_string(k)).c_str());
    mjsGeom* g = mjs_addGeom(b, nullptr);
    g->type = mjGEOM_SPHERE;
    g->size[0] = 0.05;
    g->mass = 1.0;
  }
  mjsActuator* a = mjs_addActuator(s, nullptr);
  mjs_setString(a->target, "j0");
  a->trntype = mjTRN_JOINT;
  mjsPlugin* p = mjs_addPlugin(s);
  mjs_setString(p->plugin_name, "mujoco.pid");
  mjs_setString(a->plugin.plugin_name, "mujoco.pid");
  a->plugin.element = p->element;
  a->plugin.active = true;
  std::map<std::string, std::string, std::less<> > attrs;
  attrs["kp"] = Num(o.kp);
  if (o.ki) attrs["ki"] = Num(o.ki);
  if (o.kd) attrs["kd"] = Num(o.kd);
  if (o.has_slew) attrs["slewmax"] = Num(o.slewmax);
  mjs_setPluginAttributes(p, &attrs);
  a->dyntype = (mjtDyn)o.dyntype;
  if (o.dyntype == mjDYN_MUSCLE) { a->dynprm[0] = 0.01; a->dynprm[1] = 0.04; }
  if (o.dyntype == mjDYN_FILTER || o.dyntype == mjDYN_FILTEREXACT) a->dynprm[0] = 0.03;
  if (o.dyntype == mjDYN_DCMOTOR) a->actearly = 1;   // required by the compiler for dcmotor dynamics
  if (o.actearly) a->actearly = 1;
  a->actdim = o.actdim;

  mjModel* m = mj_compile(s, nullptr);
  if (err) *err = m ? "" : mjs_getError(s);
  mj_deleteSpec(s);
  return m;
}

// which mjData field (or padding after which field) contains address p
std::string Locate(const mjModel* m, const mjData* d, const void* p) {
  const char* q = (const char*)p;
  const char* best_end = nullptr;
  std::string best;
  char buf[160];
#define X(type, name, nr, nc)                                                              \
  {                                                                                        \
    const char* b = (const char*)d->name;                                                  \
    const char* e = b + sizeof(type) * (size_t)(m->nr) * (size_t)(nc);                     \
    if (q >= b && q < e) {                                                                 \
      std::snprintf(buf, sizeof(buf), "d->%s[%d] (field of %d element(s))", #name,         \
                    (int)((q - b) / sizeof(type)), (int)((m->nr) * (nc)));                 \
      return buf;                                                                          \
    }                                                                                      \
    if (e <= q && (!best_end || e > best_end) && e != b) {                                 \
      best_end = e;                                                                        \
      std::snprintf(buf, sizeof(buf), "alignment padding %d byte(s) past the end of d->%s", \
                    (int)(q - e), #name);                                                  \
      best = buf;                                                                          \
    }                                                                                      \
  }
  MJDATA_POINTERS
#undef X
  if (q < (const char*)d->buffer || q >= (const char*)d->buffer + d->nbuffer) {
    return "OUTSIDE the mjData buffer";
  }
  return best;
}

// ---------------------------------------------------------------------------------------------------------
void PartA() {
  std::printf("--- A: kp-only PID plugin actuator, dyntype=muscle\n");
  // A0: actdim left at its default: what does the plugin recommend?
  {
    Opt o; o.njoint = 8; o.dyntype = mjDYN_MUSCLE; o.actdim = -1;
    std::string err;
    mjModel* m = Build(o, &err);
    if (m) {
      std::printf("info  actdim unset: model loads with actnum=%d\n", m->actuator_actnum[0]);
      mj_deleteModel(m);
    } else {
      std::printf("info  actdim unset: refused at load: %s\n", err.c_str());
    }
  }
  // A1: actdim="0"
  Opt o; o.njoint = 8; o.dyntype = mjDYN_MUSCLE; o.actdim = 0; o.kp = 30; o.kd = 0;
  std::string err;
  mjModel* m = Build(o, &err);
  if (!m) {
    std::printf("info  actdim=0: refused at load: %s\n", err.c_str());
    Pass("A: kp-only, dyntype=muscle, actdim=0 is refused at load (no read outside the actuator's slice)");
    return;
  }
  mjData* d = mj_makeData(m);
  int actadr = m->actuator_actadr[0], actnum = m->actuator_actnum[0];
  int idx = actadr + actnum - 1;
  std::printf("info  actdim=0: model LOADS: nv=%d na=%d actuator_actadr=%d actuator_actnum=%d\n",
              (int)m->nv, (int)m->na, actadr, actnum);
  std::printf("info  setpoint index actadr+actnum-1 = %d\n", idx);
  std::printf("info  &d->act[%d]     is %s\n", idx, Locate(m, d, d->act + idx).c_str());
  std::printf("info  &d->act_dot[%d] is %s\n", idx, Locate(m, d, d->act_dot + idx).c_str());

  const int out = m->actuator_outadr[0], cin = m->actuator_ctrladr[0];
  auto force = [&](double ctrl, double v6, double a6) {
    mj_resetData(m, d);
    d->ctrl[cin] = ctrl;
    d->qvel[6] = v6;     // velocity of joint j6: unrelated to the actuator on j0
    d->qacc[6] = a6;     // acceleration of j6 left over from the previous step
    mj_forward(m, d);
    return d->actuator_force[out];
  };
  // (1) law: length = 0, velocity = 0, kd = 0: f must be kp*(u - 0); with no activation the only setpoint
  //     the user can command is ctrl
  double f0 = force(0.7, 0, 0);
  double f1 = force(0.7, 0.25, 0);
  std::printf("info  ctrl=0.7 qvel[j6]=0    -> actuator_force = %.10g   (kp*(ctrl-length) = %.10g)\n", f0, o.kp * 0.7);
  std::printf("info  ctrl=0.7 qvel[j6]=0.25 -> actuator_force = %.10g   (kp*qvel[j6] = %.10g)\n", f1, o.kp * 0.25);
  if (f0 == f1) Pass("A1: force of the actuator on j0 unchanged when only qvel of joint j6 changes");
  else Fail("A1: force of the actuator on j0 CHANGED when only qvel of the unrelated joint j6 changed (setpoint read from d->act[-2])");
  double g0 = force(0.7, 0, 0), g1 = force(-1.3, 0, 0);
  if (g0 != g1) Pass("A2: force responds to ctrl");
  else Fail("A2: force does not depend on ctrl at all (ctrl=0.7 and ctrl=-1.3 give the same force)");
  mj_deleteData(d);
  mj_deleteModel(m);

  // A3: same with kd > 0: the setpoint rate is read from d->act_dot[-2]
  o.kd = 3;
  m = Build(o, &err);
  if (!m) { Pass("A3: kp+kd variant refused at load"); return; }
  d = mj_makeData(m);
  double h0 = force(0.7, 0, 0), h1 = force(0.7, 0, 0.5);
  std::printf("info  kd=3: previous qacc[j6]=0 -> force = %.10g ; previous qacc[j6]=0.5 -> force = %.10g (kd*0.5 = %.10g)\n",
              h0, h1, o.kd * 0.5);
  if (h0 == h1) Pass("A3: force unchanged when only the stale qacc of joint j6 changes");
  else Fail("A3: force CHANGED when only d->qacc of the unrelated joint j6 changed (setpoint rate read from d->act_dot[-2])");
  mj_deleteData(d);
  mj_deleteModel(m);

  // A4: the minimal single-joint model: the same index falls into alignment padding of the buffer
  Opt o1; o1.njoint = 1; o1.dyntype = mjDYN_MUSCLE; o1.actdim = 0;
  m = Build(o1, &err);
  if (!m) { Pass("A4: single-joint variant refused at load"); return; }
  d = mj_makeData(m);
  std::printf("info  single joint: &d->act[-2] is %s\n", Locate(m, d, d->act - 2).c_str());
  d->ctrl[0] = 0.7;
  mj_forward(m, d);
  double p0 = d->actuator_force[0];
  d->act[-2] = 0.5;   // inside d->buffer (padding), not part of any field
  mj_forward(m, d);
  double p1 = d->actuator_force[0];
  std::printf("info  single joint: force = %.10g, after writing 0.5 into the padding word: %.10g\n", p0, p1);
  if (p0 == p1) Pass("A4: force independent of buffer padding");
  else Fail("A4: force depends on a padding word of the mjData buffer");
  mj_deleteData(d);
  mj_deleteModel(m);
}

// ---------------------------------------------------------------------------------------------------------
void PartB() {
  std::printf("--- B: kp+ki PID plugin actuator, dyntype=muscle, actdim=1\n");
  Opt o; o.njoint = 1; o.dyntype = mjDYN_MUSCLE; o.actdim = 1; o.kp = 30; o.ki = 20; o.qpos0 = 0.1;
  std::string err;
  mjModel* m = Build(o, &err);
  if (!m) {
    std::printf("info  refused at load: %s\n", err.c_str());
    Pass("B: kp+ki, dyntype=muscle, actdim=1 is refused at load (native slot would alias the integral slot)");
    return;
  }
  std::printf("info  model LOADS: na=%d actadr=%d actnum=%d: integral slot = %d, slot read as setpoint = %d\n",
              (int)m->na, m->actuator_actadr[0], m->actuator_actnum[0], m->actuator_actadr[0],
              m->actuator_actadr[0] + m->actuator_actnum[0] - 1);
  const double dt = m->opt.timestep;
  auto run = [&](double c0, double c1, std::vector<double>* forces, int* nbad_law, int* nalias) {
    mjData* d = mj_makeData(m);
    d->qpos[0] = o.qpos0;
    *nbad_law = 0; *nalias = 0;
    for (int step = 0; step < 50; step++) {
      double ctrl = step < 25 ? c0 : c1;
      d->ctrl[0] = ctrl;
      double I0 = d->act[m->actuator_actadr[0]];
      double len = d->qpos[0];
      // reference law with the commanded setpoint u = ctrl (no native activation exists)
      double e = ctrl - len;
      double want = o.kp * e + o.ki * (I0 + e * dt);
      // what the aliasing predicts: setpoint = integral slot
      double ea = I0 - len;
      double alias = o.kp * ea + o.ki * (I0 + ea * dt);
      mj_step(m, d);
      double f = d->actuator_force[0];
      forces->push_back(f);
      if (std::fabs(f - want) > 1e-9 * (1 + std::fabs(want))) {
        if (*nbad_law < 3) std::printf("info  step %d ctrl=%g: force = %.10g, kp*e+ki*I = %.10g\n", step, ctrl, f, want);
        (*nbad_law)++;
      }
      if (std::fabs(f - alias) <= 1e-9 * (1 + std::fabs(alias))) (*nalias)++;
    }
    mj_deleteData(d);
  };
  std::vector<double> fa, fb;
  int bad_a, bad_b, al_a, al_b;
  run(0.8, -0.5, &fa, &bad_a, &al_a);
  run(-1.1, 2.0, &fb, &bad_b, &al_b);
  if (bad_a == 0 && bad_b == 0) Pass("B1: force == kp*e + ki*I with e = ctrl - length on all steps");
  else {
    std::printf("info  %d/50 steps equal kp*(I-length)+ki*(I+(I-length)*dt), i.e. setpoint := integral slot\n", al_a);
    Fail("B1: force != kp*e + ki*I for the commanded setpoint");
  }
  if (fa != fb) Pass("B2: force depends on ctrl");
  else Fail("B2: two different ctrl sequences give bit-identical force histories: ctrl is ignored");
  mj_deleteModel(m);
}

// ---------------------------------------------------------------------------------------------------------
void PartCD() {
  std::printf("--- C/D: which (dyntype, own slots, actdim) load, and where the setpoint slot is\n");
  std::printf("info  own slots: 0 = kp only, 1 = kp+ki, 2 = kp+ki+slewmax\n");
  const int dyns[] = {mjDYN_NONE, mjDYN_INTEGRATOR, mjDYN_FILTER, mjDYN_FILTEREXACT,
                      mjDYN_MUSCLE, mjDYN_USER, mjDYN_DCMOTOR, mjDYN_PID};
  int bad_slot = 0, bad_control = 0;
  for (int dyn : dyns) {
    for (int own = 0; own <= 2; own++) {
      std::string accepted;
      for (int actdim = 0; actdim <= 4; actdim++) {
        Opt o; o.dyntype = dyn; o.actdim = actdim;
        o.ki = own >= 1 ? 20 : 0; o.has_slew = own >= 2;
        std::string err;
        mjModel* m = Build(o, &err);
        bool supported = dyn == mjDYN_NONE || dyn == mjDYN_INTEGRATOR || dyn == mjDYN_FILTER || dyn == mjDYN_FILTEREXACT;
        if (supported) {
          bool want = actdim == own + (dyn == mjDYN_NONE ? 0 : 1);
          if (want != (m != nullptr)) {
            std::printf("info  dyntype=%s own=%d actdim=%d: %s, expected %s\n", DynName(dyn), own, actdim,
                        m ? "loads" : "refused", want ? "loads" : "refused");
            bad_control++;
          }
        }
        if (!m) {
          if (dyn == mjDYN_PID && own == 0 && actdim == 0) std::printf("info  dyntype=pid: %s\n", err.c_str());
          continue;
        }
        int actadr = m->actuator_actadr[0], actnum = m->actuator_actnum[0];
        accepted += " " + std::to_string(actnum);
        if (dyn != mjDYN_NONE) {
          int idx = actadr + actnum - 1;
          bool ok = actadr >= 0 && idx >= actadr + own && idx < m->na;
          if (!ok) {
            std::printf("info  dyntype=%s own=%d actdim=%d LOADS: actadr=%d, setpoint slot %d %s\n", DynName(dyn), own,
                        actnum, actadr, idx,
                        actadr < 0 ? "is before d->act" : "is one of the plugin's own slots");
            bad_slot++;
          }
        }
        mj_deleteModel(m);
      }
      std::printf("info  dyntype=%-11s own=%d : accepted actdim = {%s }\n", DynName(dyn), own, accepted.c_str());
    }
  }
  if (bad_slot == 0) Pass("C: every model that loads reads its setpoint from a slot inside its slice that is not a plugin-owned slot");
  else Fail("C: some accepted models read the setpoint outside the slice or from a plugin-owned slot (listed above)");
  if (bad_control == 0) Pass("D: none/integrator/filter/filterexact accept exactly actdim = own (+1 when dyntype != none)");
  else Fail("D: acceptance of the supported dyntypes changed");
}

// ---------------------------------------------------------------------------------------------------------
// E: a muscle-dyntype plugin actuator WITH the native slot (actdim = own + 1).  Refused by the unfixed Create
// (nothing to check then); where it loads it must follow the law with the native muscle activation as setpoint:
// u = act[last], u_dot = mju_muscleDynamics(ctrl, act[last]), slots [integral][previous ctrl][native].
void PartE() {
  std::printf("--- E: kp+ki+kd+slewmax plugin actuator, dyntype=muscle, actdim=3 (own slots + native slot)\n");
  Opt o; o.njoint = 1; o.dyntype = mjDYN_MUSCLE; o.actdim = 3; o.kp = 30; o.ki = 20; o.kd = 2;
  o.has_slew = true; o.slewmax = 2.0;
  std::string err;
  mjModel* m = Build(o, &err);
  if (!m) {
    std::printf("info  refused at load (nothing to check): %s\n", err.c_str());
    return;
  }
  mjData* d = mj_makeData(m);
  const double dt = m->opt.timestep;
  const int a0 = m->actuator_actadr[0];
  const int i_adr = a0, s_adr = a0 + 1, n_adr = a0 + 2;
  int bad = 0;
  for (int step = 0; step < 200; step++) {
    double ctrl = step < 60 ? 0.9 : (step < 120 ? 0.1 : 0.6);
    d->ctrl[0] = ctrl;
    std::vector<double> act0(d->act, d->act + m->na);
    double time0 = d->time, len = d->qpos[0], vel = d->qvel[0];
    double u = act0[n_adr];
    double u_dot = mju_muscleDynamics(ctrl, act0[n_adr], m->actuator_dynprm);
    if (time0 > 0) {
      double lo = act0[s_adr] - o.slewmax * dt, hi = act0[s_adr] + o.slewmax * dt;
      u = u < lo ? lo : (u > hi ? hi : u);
    }
    double e = u - len, I = act0[i_adr] + e * dt;
    double want = o.kp * e + o.ki * I + o.kd * (u_dot - vel);
    mj_step(m, d);
    auto close = [](double a, double b) { return std::fabs(a - b) <= 1e-9 * (1 + std::fabs(a) + std::fabs(b)); };
    bool ok = close(d->actuator_force[0], want) && close(d->act[i_adr], I) && close(d->act[s_adr], u) &&
              close(d->act[n_adr], act0[n_adr] + dt * u_dot);
    if (!ok) {
      if (bad < 3) std::printf("info  step %d: force %.10g (want %.10g) act = [%.10g %.10g %.10g] (want [%.10g %.10g %.10g])\n",
                               step, d->actuator_force[0], want, d->act[i_adr], d->act[s_adr], d->act[n_adr], I, u,
                               act0[n_adr] + dt * u_dot);
      bad++;
    }
  }
  if (bad == 0) Pass("E: loads and follows f = kp*e + ki*I + kd*e_dot with the muscle activation as setpoint; all three slots follow their laws");
  else Fail("E: loads but does not follow the law");
  mj_deleteData(d);
  mj_deleteModel(m);
}

}  // namespace

int main() {
  mujoco::plugin::actuator::Pid::RegisterPlugin();
  PartA();
  PartB();
  PartCD();
  PartE();
  if (failures) {
    std::printf("C51 PID dyntype demo: %d check(s) FAILED\n", failures);
    return 1;
  }
  std::printf("C51 PID dyntype demo: all checks passed\n");
  return 0;
}
