// C27 demo: slider-crank transmission must use the crank length declared for ITS actuator.
//
// Documented law (slider-crank): with v = crank site - slider site, a = slider axis (z of slider site),
// r = cranklength of the actuator,
//     length = gear * ( a.v - sqrt( (a.v)^2 + r^2 - v.v ) ),   moment = d length / d q,
//     qfrc_actuator = moment^T * actuator_force.
// actuator_cranklength is an (nactuator x 1) array indexed by the actuator id (that is how the compiler fills
// it and how the visualizer reads it).  An actuator with a 3-row output block (orientation / SO3 servo) in
// front of a slider-crank makes actuator_outadr[i] != i; the mechanism must not change because of that.
//
// Model A  : one slider-crank alone (cranklength L1)                      -> reference
// Model B1 : [so3, crank1(L1), motor, crank2(L2), motor, motor]           -> all reads inside the array
// Model B2 : [so3, crank1(L1)]                                            -> crank is the last actuator
// Model B3 : [so3(dynprm[1]=0.37), motor x6, crank1(L1)]                  -> crank is the last of 8 actuators
// In every B model crank1 is the same mechanism as in A, so its length / moment / generalized force at the
// same hinge angle must equal those of A.
#include <mujoco/mujoco.h>
#include <cmath>
#include <cstdio>
#include <cstring>
#include <string>
#include <vector>

static int fails = 0;
#define CHECK(cond, ...) do { if (!(cond)) { fails++; printf("FAIL: " __VA_ARGS__); printf("\n"); } \
                              else { printf("pass: " __VA_ARGS__); printf("\n"); } } while (0)

static const double L1 = 0.30, L2 = 0.45, R = 0.10, D = 0.60;

// crank mechanism k: hinge about y at (x,0,0), crank pin site at radius R, slider site on the world below it
static void mechanism(mjSpec* s, int k, double x) {
  mjsBody* world = mjs_findBody(s, "world");
  mjsBody* b = mjs_addBody(world, nullptr);
  b->pos[0] = x;
  mjsJoint* j = mjs_addJoint(b, nullptr); j->type = mjJNT_HINGE;
  j->axis[0] = 0; j->axis[1] = 1; j->axis[2] = 0;
  mjs_setName(j->element, ("hinge" + std::to_string(k)).c_str());
  mjsGeom* g = mjs_addGeom(b, nullptr); g->type = mjGEOM_SPHERE; g->size[0] = 0.03; g->mass = 0.5;
  g->contype = 0; g->conaffinity = 0;
  mjsSite* pin = mjs_addSite(b, nullptr); pin->pos[0] = R;
  mjs_setName(pin->element, ("pin" + std::to_string(k)).c_str());
  mjsSite* sl = mjs_addSite(world, nullptr); sl->pos[0] = x; sl->pos[2] = -D;   // axis = +z
  mjs_setName(sl->element, ("slider" + std::to_string(k)).c_str());
}

static void wrist(mjSpec* s) {
  mjsBody* b = mjs_addBody(mjs_findBody(s, "world"), nullptr);
  b->pos[1] = 1;
  mjsJoint* j = mjs_addJoint(b, nullptr); j->type = mjJNT_BALL;
  mjs_setName(j->element, "ball");
  mjsGeom* g = mjs_addGeom(b, nullptr); g->type = mjGEOM_SPHERE; g->size[0] = 0.03; g->mass = 0.5;
  g->contype = 0; g->conaffinity = 0;
}

// layout: one char per actuator. O = orientation servo on the ball joint (3 outputs), C = crank1 (L1),
// D = crank2 (L2), M = plain motor on hinge2
static mjModel* build(const char* layout, mjSpec** ps) {
  mjSpec* s = mj_makeSpec();
  mechanism(s, 1, 0.0);
  bool need2 = strchr(layout, 'D') || strchr(layout, 'M');
  if (need2) mechanism(s, 2, 0.5);
  if (strchr(layout, 'O')) wrist(s);
  int n = 0;
  for (const char* c = layout; *c; c++, n++) {
    mjsActuator* a = mjs_addActuator(s, nullptr);
    std::string nm;
    if (*c == 'O') {
      nm = "so3_" + std::to_string(n);
      a->trntype = mjTRN_JOINT; mjs_setString(a->target, "ball");
      const char* err = mjs_setToOrientation(a, 20.0, nullptr, nullptr, 0);
      if (err && *err) { printf("mjs_setToOrientation: %s\n", err); return nullptr; }
      a->dynprm[1] = 0.37;   // unused by dyntype none; only there to make the B3 stray read recognisable
    } else if (*c == 'C' || *c == 'D') {
      int k = *c == 'C' ? 1 : 2;
      nm = "crank" + std::to_string(k);
      a->trntype = mjTRN_SLIDERCRANK;
      mjs_setString(a->target, ("pin" + std::to_string(k)).c_str());
      mjs_setString(a->slidersite, ("slider" + std::to_string(k)).c_str());
      a->cranklength = k == 1 ? L1 : L2;
      a->gaintype = mjGAIN_FIXED; a->gainprm[0] = 1; a->biastype = mjBIAS_NONE;
      a->gear[0] = 1;
    } else {
      nm = "motor_" + std::to_string(n);
      a->trntype = mjTRN_JOINT; mjs_setString(a->target, "hinge2");
      a->gaintype = mjGAIN_FIXED; a->gainprm[0] = 1; a->biastype = mjBIAS_NONE;
    }
    mjs_setName(a->element, nm.c_str());
  }
  mjModel* m = mj_compile(s, nullptr);
  if (!m) { printf("compile error (%s): %s\n", layout, mjs_getError(s)); return nullptr; }
  m->opt.gravity[2] = 0;
  *ps = s;
  return m;
}

struct Result { double length, moment, qfrc, force, rod_used; bool degenerate; };

// evaluate crank actuator `name` at hinge angle q (its own hinge), drive it alone with ctrl u
static Result eval(const mjModel* m, mjData* d, const char* name, const char* hinge, double q, double u) {
  int id = mj_name2id(m, mjOBJ_ACTUATOR, name);
  int jid = mj_name2id(m, mjOBJ_JOINT, hinge);
  int dof = m->jnt_dofadr[jid];
  int out = m->actuator_outadr[id];
  mj_resetData(m, d);
  d->qpos[m->jnt_qposadr[jid]] = q;
  d->ctrl[m->actuator_ctrladr[id]] = u;
  mj_forward(m, d);
  Result r{};
  r.length = d->actuator_length[out];
  for (int c = 0; c < d->moment_rownnz[out]; c++) {
    if (d->moment_colind[d->moment_rowadr[out]+c] == dof) r.moment = d->actuator_moment[d->moment_rowadr[out]+c];
  }
  r.qfrc = d->qfrc_actuator[dof];
  r.force = d->actuator_force[out];
  // rod the engine used, from the documented formula:  (a.v - length)^2 = (a.v)^2 + rod^2 - v.v
  int pin = m->actuator_trnid[2*id], sl = m->actuator_trnid[2*id+1];
  double v[3], a[3] = {d->site_xmat[9*sl+2], d->site_xmat[9*sl+5], d->site_xmat[9*sl+8]};
  for (int k = 0; k < 3; k++) v[k] = d->site_xpos[3*pin+k] - d->site_xpos[3*sl+k];
  double av = v[0]*a[0]+v[1]*a[1]+v[2]*a[2], vv = v[0]*v[0]+v[1]*v[1]+v[2]*v[2];
  double s = av - r.length / m->actuator_gear[6*out];
  r.degenerate = std::fabs(s) < 1e-14;     // engine took the det <= 0 branch: length = a.v
  double rod2 = s*s - av*av + vv;
  r.rod_used = r.degenerate ? 0.0 : std::sqrt(rod2 > 0 ? rod2 : 0);
  return r;
}

// where does &actuator_cranklength[idx] point?
static std::string locate(const mjModel* m, int idx) {
  char buf[200];
  const char* p = (const char*)(m->actuator_cranklength + idx);
  const char* cl0 = (const char*)m->actuator_cranklength;
  const char* cl1 = (const char*)(m->actuator_cranklength + m->nactuator);
  const char* dp0 = (const char*)m->actuator_dynprm;
  const char* dp1 = (const char*)(m->actuator_dynprm + m->nactuator*mjNDYN);
  if (p >= cl0 && p < cl1) snprintf(buf, sizeof buf, "inside the array (actuator %d's crank length)", idx);
  else if (p >= cl1 && p < dp0) snprintf(buf, sizeof buf, "%ld byte(s) PAST THE END of actuator_cranklength, in the "
                                         "alignment padding before actuator_dynprm", (long)(p - cl1));
  else if (p >= dp0 && p < dp1) { long e = (p - dp0) / (long)sizeof(mjtNum);
    snprintf(buf, sizeof buf, "PAST THE END of actuator_cranklength: it is actuator_dynprm[%ld][%ld]", e / mjNDYN, e % mjNDYN); }
  else snprintf(buf, sizeof buf, "PAST THE END of actuator_cranklength and of actuator_dynprm");
  return buf;
}

static bool in_buffer(const mjModel* m, const void* p) {
  return (const char*)p >= (const char*)m->buffer && (const char*)p + sizeof(mjtNum) <= (const char*)m->buffer + m->nbuffer;
}

int main() {
  const double q = 0.7, u = 2.5;
  mjSpec *sa = nullptr;
  mjModel* ma = build("C", &sa);
  if (!ma) return 2;
  mjData* da = mj_makeData(ma);
  Result ref = eval(ma, da, "crank1", "hinge1", q, u);
  // closed form for the geometry of mechanism(): v = (R cos q, 0, D - R sin q), a = (0,0,1)
  double av = D - R*std::sin(q), exact = av - std::sqrt(L1*L1 - R*R*std::cos(q)*std::cos(q));
  printf("== model A: [crank1(L1=%.2f)]  nactuator=%d nout=%d\n", L1, (int)ma->nactuator, (int)ma->nout);
  printf("info  A: length=%.12g (closed form %.12g) moment=%.12g qfrc=%.12g rod used=%.6g\n",
         ref.length, exact, ref.moment, ref.qfrc, ref.rod_used);
  CHECK(std::fabs(ref.length - exact) < 1e-12, "A: reference length matches the documented closed form");
  CHECK(std::fabs(ref.qfrc - ref.moment*ref.force) < 1e-12, "A: qfrc_actuator = moment * force");

  struct Variant { const char* tag; const char* layout; const char* desc; };
  const Variant vs[] = {
    {"B1", "OCMDMM",   "[so3, crank1(L1), motor, crank2(L2), motor, motor]"},
    {"B2", "OC",       "[so3, crank1(L1)]  (crank is the last actuator)"},
    {"B3", "OMMMMMMC", "[so3(dynprm[1]=0.37), motor x6, crank1(L1)]  (crank is the last of 8)"},
  };
  for (const Variant& v : vs) {
    mjSpec* s = nullptr;
    mjModel* m = build(v.layout, &s);
    if (!m) return 2;
    mjData* d = mj_makeData(m);
    printf("== model %s: %s  nactuator=%d nout=%d\n", v.tag, v.desc, (int)m->nactuator, (int)m->nout);
    for (int k = 1; k <= 2; k++) {
      std::string an = "crank" + std::to_string(k), hn = "hinge" + std::to_string(k);
      int id = mj_name2id(m, mjOBJ_ACTUATOR, an.c_str());
      if (id < 0) continue;
      int out = m->actuator_outadr[id];
      double declared = m->actuator_cranklength[id];
      Result r = eval(m, d, an.c_str(), hn.c_str(), q, u);
      printf("info  %s %s: id=%d outadr=%d nactuator=%d; declared actuator_cranklength[id=%d]=%.6g; "
             "&actuator_cranklength[outadr=%d] is %s", v.tag, an.c_str(), id, out, (int)m->nactuator, id, declared,
             out, locate(m, out).c_str());
      if (in_buffer(m, m->actuator_cranklength + out)) printf(", value there=%.6g", m->actuator_cranklength[out]);
      printf("\n");
      if (r.degenerate) printf("info  %s %s: engine took the det<=0 branch (length = a.v): rod used <= %.6g\n",
                               v.tag, an.c_str(), R*std::fabs(std::cos(q)));
      else printf("info  %s %s: rod used by the engine (from length) = %.6g\n", v.tag, an.c_str(), r.rod_used);
      printf("info  %s %s: length=%.12g moment=%.12g force=%.6g qfrc_actuator[hinge]=%.12g\n", v.tag, an.c_str(),
             r.length, r.moment, r.force, r.qfrc);
      CHECK(!r.degenerate && std::fabs(r.rod_used - declared) < 1e-9,
            "%s %s: engine used the declared crank length %.6g (used %.6g)", v.tag, an.c_str(), declared, r.rod_used);
      if (k == 1) {
        CHECK(std::fabs(r.length - ref.length) < 1e-12, "%s crank1: actuator_length %.12g equals model A's %.12g",
              v.tag, r.length, ref.length);
        CHECK(std::fabs(r.moment - ref.moment) < 1e-12, "%s crank1: actuator_moment %.12g equals model A's %.12g",
              v.tag, r.moment, ref.moment);
        CHECK(std::fabs(r.qfrc - ref.qfrc) < 1e-12, "%s crank1: qfrc_actuator[hinge1] %.12g equals model A's %.12g "
              "(same mechanism, same force %.3g)", v.tag, r.qfrc, ref.qfrc, r.force);
      }
      // does the result depend on memory outside this actuator's own crank-length slot?
      mjtNum* stray = m->actuator_cranklength + out;
      if (out != id && in_buffer(m, stray)) {
        mjtNum saved = *stray;
        *stray = 0.2345;
        Result r2 = eval(m, d, an.c_str(), hn.c_str(), q, u);
        *stray = saved;
        CHECK(r2.length == r.length, "%s %s: length does not change when the word at &actuator_cranklength[%d] (%s) "
              "is overwritten (before %.12g, after %.12g)", v.tag, an.c_str(), out,
              out < m->nactuator ? "another actuator's slot" : "outside the array", r.length, r2.length);
      }
    }
    mj_deleteData(d); mj_deleteModel(m); mj_deleteSpec(s);
  }
  mj_deleteData(da); mj_deleteModel(ma); mj_deleteSpec(sa);
  if (fails) { printf("C27 cranklength-index demo: %d check(s) FAILED\n", fails); return 1; }
  printf("C27 cranklength-index demo: all checks passed\n");
  return 0;
}
