#!/bin/sh
# usage: run.sh <worktree>     builds engine + mjSpec compiler of <worktree> with the seed kit, links demo.cc, runs it.
# exit 0 = property holds, 1 = defect manifests, 2 = build / model-compile failure.
set -e
W=$(cd "${1:?usage: run.sh <worktree>}" && pwd)
HERE=$(cd "$(dirname "$0")" && pwd)
OUT=${OUT:-/tmp/demowork_C27_cranklength/build_$(echo "$W" | tr / _)}
mkdir -p "$(dirname "$OUT")"
/verif/seedkit/build.sh "$W" "$OUT" "$HERE/demo.cc" > "$OUT.log" 2>&1 || { cat "$OUT.log"; exit 2; }
"$OUT/demo"
