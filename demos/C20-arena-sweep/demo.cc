#include <mujoco/mujoco.h>
#include <cstdio>
#include <cstring>
#include <unistd.h>
#include <sys/wait.h>
// arena sizes from tiny to ample: every mj_forward must finish (warning allowed), and the contact API must stay usable afterwards
static mjModel* build(size_t memory){
  mjSpec* s = mj_makeSpec();
  s->memory = memory;
  mjsBody* w = mjs_findBody(s,"world");
  mjsGeom* fl = mjs_addGeom(w, nullptr); fl->type = mjGEOM_PLANE; fl->size[0]=fl->size[1]=5; fl->size[2]=0.1;
  for (int i=0;i<6;i++){
    mjsBody* b = mjs_addBody(w, nullptr); b->pos[0] = 0.3*i; b->pos[2] = 0.09;
    char nm[16]; snprintf(nm,16,"b%d",i); mjs_setName(b->element, nm);
    mjsJoint* j = mjs_addJoint(b, nullptr); j->type = mjJNT_FREE;
    mjsGeom* g = mjs_addGeom(b, nullptr); g->type = mjGEOM_BOX; g->size[0]=g->size[1]=g->size[2]=0.1;
  }
  mjsActuator* a = mjs_addActuator(s, nullptr); a->trntype = mjTRN_BODY; mjs_setString(a->target, "b0"); a->gainprm[0]=1; a->ctrllimited = mjLIMITED_TRUE; a->ctrlrange[0]=0; a->ctrlrange[1]=1; a->gaintype = mjGAIN_FIXED;
  mjModel* m = mj_compile(s, nullptr); if(!m){ printf("compile: %s\n", mjs_getError(s)); } return m; }
static void quiet(const char*){}
int main(){
  int bad = 0, ran = 0;
  mju_user_warning = quiet;
  for (size_t mem = 2000; mem < 400000; mem = mem*21/20 + 64) {
    pid_t p = fork();
    if (p == 0) {
      mjModel* m = build(mem); if (!m) _exit(3);
      mjData* d = mj_makeData(m); if (!d) _exit(3);
      d->ctrl[0] = 0.5;
      for (int k=0;k<3;k++) { mj_forward(m,d); mjtNum f[6]; for (int c=0;c<d->ncon;c++) mj_contactForce(m,d,c,f); }
      _exit(0); }
    int st=0; waitpid(p,&st,0); ran++;
    if (WIFSIGNALED(st)) { printf("memory=%zu: killed by signal %d\n", mem, WTERMSIG(st)); bad++; }
    else if (WEXITSTATUS(st) == 3) { /* model does not fit at all: fine */ }
  }
  printf("%d memory sizes, %d crashes\n", ran, bad);
  return bad ? 1 : 0; }
