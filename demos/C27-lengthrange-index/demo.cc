// C27 demo: mj_setLengthRange must store the computed range in the actuator's OWN row of actuator_lengthrange.
//
// actuator_lengthrange is (nout x 2): one row per force OUTPUT, addressed with actuator_outadr[id] (that is how
// the compiler fills it, how mj_setLengthRange's own validity / convergence checks read it, and how the muscle
// gain/bias in mj_fwdActuation read it).  An orientation (SO3) servo has a 3-row output block, so for every
// actuator behind it outadr != id.  The feasible length range of a muscle on a limited hinge does not depend
// on which other actuators exist, so mj_setLengthRange must give it the same range, in its own row, and
// nothing else may be written.
//
// Model A  : [muscle1]                                       reference, id == outadr
// Model A3 : [muscle1, motor, muscle2]                       reference for C, id == outadr
// Model B  : [so3, muscle1]                                  id 1, outadr 3
// Model C  : [so3, muscle1, motor, muscle2]                  id 3 (muscle2) == outadr of muscle1
// Model D  : [so3, muscle1] compiled with the DEFAULT compiler options (lengthrange mode "muscle"):
//            the compiler itself calls mj_setLengthRange for the muscle.
#include <mujoco/mujoco.h>
#include <cmath>
#include <cstdio>
#include <cstring>
#include <string>
#include <vector>

static int fails = 0;
#define CHECK(cond, ...) do { if (!(cond)) { fails++; printf("FAIL: " __VA_ARGS__); printf("\n"); } \
                              else { printf("pass: " __VA_ARGS__); printf("\n"); } } while (0)

static void hinge_body(mjSpec* s, int k, double x, double lo, double hi) {
  mjsBody* b = mjs_addBody(mjs_findBody(s, "world"), nullptr);
  b->pos[0] = x;
  mjsJoint* j = mjs_addJoint(b, nullptr); j->type = mjJNT_HINGE;
  j->axis[0] = 0; j->axis[1] = 1; j->axis[2] = 0;
  j->limited = mjLIMITED_TRUE; j->range[0] = lo; j->range[1] = hi;
  mjs_setName(j->element, ("hinge" + std::to_string(k)).c_str());
  mjsGeom* g = mjs_addGeom(b, nullptr); g->type = mjGEOM_CAPSULE; g->size[0] = 0.02;
  g->fromto[0] = 0; g->fromto[1] = 0; g->fromto[2] = 0; g->fromto[3] = 0.3; g->fromto[4] = 0; g->fromto[5] = 0;
  g->mass = 0.5; g->contype = 0; g->conaffinity = 0;
}

static void ball_body(mjSpec* s) {
  mjsBody* b = mjs_addBody(mjs_findBody(s, "world"), nullptr);
  b->pos[1] = 1;
  mjsJoint* j = mjs_addJoint(b, nullptr); j->type = mjJNT_BALL;
  mjs_setName(j->element, "ball");
  mjsGeom* g = mjs_addGeom(b, nullptr); g->type = mjGEOM_SPHERE; g->size[0] = 0.03; g->mass = 0.5;
  g->contype = 0; g->conaffinity = 0;
}

// layout chars: O = orientation servo on the ball joint, 1 = muscle1 on hinge1 (limits -0.5..1.0),
// 2 = muscle2 on hinge2 (limits -0.2..0.3), M = motor on hinge2.   lrmode = compiler lengthrange mode
static mjModel* build(const char* layout, int lrmode, std::string* err) {
  mjSpec* s = mj_makeSpec();
  s->compiler.degree = 0;
  s->compiler.LRopt.mode = lrmode;
  hinge_body(s, 1, 0.0, -0.5, 1.0);
  if (strchr(layout, '2') || strchr(layout, 'M')) hinge_body(s, 2, 0.5, -0.2, 0.3);
  if (strchr(layout, 'O')) ball_body(s);
  int n = 0;
  for (const char* c = layout; *c; c++, n++) {
    mjsActuator* a = mjs_addActuator(s, nullptr);
    std::string nm;
    if (*c == 'O') {
      nm = "so3_" + std::to_string(n);
      a->trntype = mjTRN_JOINT; mjs_setString(a->target, "ball");
      const char* e = mjs_setToOrientation(a, 20.0, nullptr, nullptr, 0);
      if (e && *e) { *err = e; return nullptr; }
    } else if (*c == '1' || *c == '2') {
      nm = std::string("muscle") + *c;
      a->trntype = mjTRN_JOINT; mjs_setString(a->target, (std::string("hinge") + *c).c_str());
      double tc[2] = {0.01, 0.04}, range[2] = {0.75, 1.05};
      const char* e = mjs_setToMuscle(a, tc, 0, range, /*force*/100, /*scale*/200, 0.5, 1.6, 1.5, 1.3, 1.2);
      if (e && *e) { *err = e; return nullptr; }
    } else {
      nm = "motor_" + std::to_string(n);
      a->trntype = mjTRN_JOINT; mjs_setString(a->target, "hinge2");
      a->gaintype = mjGAIN_FIXED; a->gainprm[0] = 1; a->biastype = mjBIAS_NONE;
    }
    mjs_setName(a->element, nm.c_str());
  }
  mjModel* m = mj_compile(s, nullptr);
  if (!m) *err = mjs_getError(s);
  mj_deleteSpec(s);
  return m;
}

// call mj_setLengthRange(id) under the options the compiler uses for it (user_model.cc, mjCModel::LengthRange)
static int run_lr(mjModel* m, mjData* d, int id, char* err, int errsz) {
  mjLROpt opt; mj_defaultLROpt(&opt);
  opt.mode = mjLRMODE_ALL; opt.useexisting = 0; opt.uselimit = 0;
  mjOption save = m->opt;
  m->opt.disableflags = mjDSBL_FRICTIONLOSS | mjDSBL_CONTACT | mjDSBL_SPRING | mjDSBL_DAMPER | mjDSBL_GRAVITY |
                        mjDSBL_ACTUATION;
  m->opt.timestep = opt.timestep;
  err[0] = 0;
  int ok = mj_setLengthRange(m, d, id, &opt, err, errsz);
  m->opt = save;
  return ok;
}

static void print_rows(const mjModel* m, const char* tag) {
  for (int r = 0; r < m->nout; r++) {
    int owner = -1;
    for (int i = 0; i < m->nactuator; i++)
      if (r >= m->actuator_outadr[i] && r < m->actuator_outadr[i] + m->actuator_outnum[i]) owner = i;
    printf("info  %s actuator_lengthrange row %d (output %d of actuator %d '%s') = (%.9g, %.9g)\n", tag, r,
           r - m->actuator_outadr[owner], owner, mj_id2name(m, mjOBJ_ACTUATOR, owner),
           m->actuator_lengthrange[2*r], m->actuator_lengthrange[2*r+1]);
  }
}

// muscle force at a given joint angle with activation 0.6
static double muscle_force(const mjModel* m, mjData* d, const char* name, const char* hinge, double q) {
  int id = mj_name2id(m, mjOBJ_ACTUATOR, name), jid = mj_name2id(m, mjOBJ_JOINT, hinge);
  mj_resetData(m, d);
  d->qpos[m->jnt_qposadr[jid]] = q;
  d->act[m->actuator_actadr[id]] = 0.6;
  mj_forward(m, d);
  return d->actuator_force[m->actuator_outadr[id]];
}

int main() {
  char err[300];
  std::string cerr_;
  const double tol = 1e-9;

  // ---------------- reference A
  mjModel* ma = build("1", mjLRMODE_NONE, &cerr_);
  if (!ma) { printf("compile error A: %s\n", cerr_.c_str()); return 2; }
  mjData* da = mj_makeData(ma);
  printf("== model A: [muscle1]  nactuator=%d nout=%d\n", (int)ma->nactuator, (int)ma->nout);
  int ok = run_lr(ma, da, 0, err, sizeof err);
  double RA[2] = {ma->actuator_lengthrange[0], ma->actuator_lengthrange[1]};
  printf("info  A: mj_setLengthRange(id=0) returned %d %s; range at outadr=0: (%.9g, %.9g)   [hinge limits -0.5 .. 1.0]\n",
         ok, err, RA[0], RA[1]);
  CHECK(ok == 1 && std::fabs(RA[0] + 0.5) < 0.05 && std::fabs(RA[1] - 1.0) < 0.05,
        "A: reference range is the joint-limit range (up to soft-constraint penetration)");
  double FA = muscle_force(ma, da, "muscle1", "hinge1", 0.4);
  printf("info  A: muscle force at q=0.4, act=0.6: %.9g\n", FA);

  // ---------------- B: [so3, muscle1]
  mjModel* mb = build("O1", mjLRMODE_NONE, &cerr_);
  if (!mb) { printf("compile error B: %s\n", cerr_.c_str()); return 2; }
  mjData* db = mj_makeData(mb);
  int id = mj_name2id(mb, mjOBJ_ACTUATOR, "muscle1"), out = mb->actuator_outadr[id];
  printf("== model B: [so3, muscle1]  nactuator=%d nout=%d; muscle1: id=%d outadr=%d\n",
         (int)mb->nactuator, (int)mb->nout, id, out);

  // B, pass 1: array as the compiler leaves it (all zero: no lengthrange specified)
  ok = run_lr(mb, db, id, err, sizeof err);
  printf("info  B pass 1 (array as compiled, all rows (0,0)): mj_setLengthRange(id=%d) returned %d, error \"%s\"\n", id, ok, err);
  print_rows(mb, "B pass 1:");
  CHECK(ok == 1, "B pass 1: mj_setLengthRange succeeds for muscle1 behind an orientation servo");
  CHECK(std::fabs(mb->actuator_lengthrange[2*out] - RA[0]) < tol && std::fabs(mb->actuator_lengthrange[2*out+1] - RA[1]) < tol,
        "B pass 1: range in muscle1's own row %d is (%.9g, %.9g), model A gave (%.9g, %.9g)", out,
        mb->actuator_lengthrange[2*out], mb->actuator_lengthrange[2*out+1], RA[0], RA[1]);
  double FB = muscle_force(mb, db, "muscle1", "hinge1", 0.4);
  CHECK(std::fabs(FB - FA) < 1e-9, "B pass 1: muscle force at q=0.4, act=0.6 is %.9g, model A gives %.9g", FB, FA);

  // B, pass 2: sentinel (-(100+r), 100+r) in every row: which entries does the call write?
  std::vector<double> sent(2*mb->nout);
  for (int r = 0; r < mb->nout; r++) { sent[2*r] = -(100.0 + r); sent[2*r+1] = 100.0 + r; }
  memcpy(mb->actuator_lengthrange, sent.data(), sizeof(double)*sent.size());
  ok = run_lr(mb, db, id, err, sizeof err);
  printf("info  B pass 2 (sentinel rows (-(100+r), 100+r)): returned %d, error \"%s\"\n", ok, err);
  print_rows(mb, "B pass 2:");
  int nwrong = 0, nown = 0;
  for (int e = 0; e < 2*mb->nout; e++) {
    if (mb->actuator_lengthrange[e] != sent[e]) {
      printf("info  B pass 2: entry [%d] (row %d, %s) was written: %.9g\n", e, e/2, e%2 ? "max" : "min", mb->actuator_lengthrange[e]);
      if (e/2 == out) nown++; else nwrong++;
    }
  }
  CHECK(nown == 2 && nwrong == 0, "B pass 2: exactly the two entries of row %d (muscle1's output) were written "
        "(own row: %d entries, other rows: %d entries)", out, nown, nwrong);
  CHECK(ok == 1 && std::fabs(mb->actuator_lengthrange[2*out] - RA[0]) < tol && std::fabs(mb->actuator_lengthrange[2*out+1] - RA[1]) < tol,
        "B pass 2: call returned %d and muscle1's row holds (%.9g, %.9g); expected 1 and (%.9g, %.9g) "
        "(a stale row must not be reported as success)", ok, mb->actuator_lengthrange[2*out], mb->actuator_lengthrange[2*out+1], RA[0], RA[1]);

  // ---------------- C: [so3, muscle1, motor, muscle2] against A3: [muscle1, motor, muscle2]
  mjModel* m3 = build("1M2", mjLRMODE_NONE, &cerr_);
  mjModel* mc = build("O1M2", mjLRMODE_NONE, &cerr_);
  if (!m3 || !mc) { printf("compile error A3/C: %s\n", cerr_.c_str()); return 2; }
  mjData* d3 = mj_makeData(m3); mjData* dc = mj_makeData(mc);
  printf("== model A3: [muscle1, motor, muscle2] and model C: [so3, muscle1, motor, muscle2]  (C: nactuator=%d nout=%d)\n",
         (int)mc->nactuator, (int)mc->nout);
  for (int i = 0; i < m3->nactuator; i++) run_lr(m3, d3, i, err, sizeof err);
  print_rows(m3, "A3:");
  for (int i = 0; i < mc->nactuator; i++) {   // same loop as the compiler, but continuing after an error
    if (mc->actuator_outnum[i] != 1) continue;  // the orientation servo itself is not the subject (free ball joint)
    ok = run_lr(mc, dc, i, err, sizeof err);
    printf("info  C: mj_setLengthRange(id=%d '%s', outadr=%d) returned %d %s\n", i, mj_id2name(mc, mjOBJ_ACTUATOR, i),
           mc->actuator_outadr[i], ok, err);
  }
  print_rows(mc, "C:");
  for (const char* nm : {"muscle1", "muscle2"}) {
    int i3 = mj_name2id(m3, mjOBJ_ACTUATOR, nm), ic = mj_name2id(mc, mjOBJ_ACTUATOR, nm);
    const mjtNum* r3 = m3->actuator_lengthrange + 2*m3->actuator_outadr[i3];
    const mjtNum* rc = mc->actuator_lengthrange + 2*mc->actuator_outadr[ic];
    CHECK(std::fabs(r3[0]-rc[0]) < tol && std::fabs(r3[1]-rc[1]) < tol,
          "C: %s (id=%d outadr=%d) has range (%.9g, %.9g), without the orientation servo (%.9g, %.9g)", nm, ic,
          mc->actuator_outadr[ic], rc[0], rc[1], r3[0], r3[1]);
  }
  {
    double f3 = muscle_force(m3, d3, "muscle1", "hinge1", 0.4), fc = muscle_force(mc, dc, "muscle1", "hinge1", 0.4);
    CHECK(std::fabs(f3 - fc) < 1e-9, "C: muscle1 force at q=0.4, act=0.6 is %.9g, without the orientation servo %.9g", fc, f3);
  }

  // ---------------- D: default compiler path
  printf("== model D: [so3, muscle1] compiled with the default lengthrange options (mode muscle)\n");
  mjModel* mad = build("1", mjLRMODE_MUSCLE, &cerr_);
  if (!mad) { printf("compile error (default options, [muscle1]): %s\n", cerr_.c_str()); return 2; }
  printf("info  [muscle1] alone compiles; lengthrange (%.9g, %.9g)\n", mad->actuator_lengthrange[0], mad->actuator_lengthrange[1]);
  for (const char* lay : {"1O", "O1"}) {
    cerr_.clear();
    mjModel* md = build(lay, mjLRMODE_MUSCLE, &cerr_);
    const char* desc = lay[0] == '1' ? "[muscle1, so3]" : "[so3, muscle1]";
    if (!md) {
      CHECK(false, "D: %s compiles (mj_compile error: \"%s\")", desc, cerr_.c_str());
      continue;
    }
    int i = mj_name2id(md, mjOBJ_ACTUATOR, "muscle1"), o = md->actuator_outadr[i];
    CHECK(true, "D: %s compiles", desc);
    CHECK(std::fabs(md->actuator_lengthrange[2*o] - mad->actuator_lengthrange[0]) < tol &&
          std::fabs(md->actuator_lengthrange[2*o+1] - mad->actuator_lengthrange[1]) < tol,
          "D: %s muscle1 (id=%d outadr=%d) range (%.9g, %.9g) equals the range of [muscle1] alone", desc, i, o,
          md->actuator_lengthrange[2*o], md->actuator_lengthrange[2*o+1]);
    mj_deleteModel(md);
  }

  mj_deleteData(da); mj_deleteData(db); mj_deleteData(d3); mj_deleteData(dc);
  mj_deleteModel(ma); mj_deleteModel(mb); mj_deleteModel(m3); mj_deleteModel(mc); mj_deleteModel(mad);
  if (fails) { printf("C27 lengthrange-index demo: %d check(s) FAILED\n", fails); return 1; }
  printf("C27 lengthrange-index demo: all checks passed\n");
  return 0;
}
