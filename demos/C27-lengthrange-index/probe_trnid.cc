// probe: mj_setLengthRange uselimit path reads actuator_trnid[index] (array is nactuator x 2)
#include <mujoco/mujoco.h>
#include <cstdio>
#include <string>
static void hinge_body(mjSpec* s, int k, double x, double lo, double hi, bool limited) {
  mjsBody* b = mjs_addBody(mjs_findBody(s, "world"), nullptr); b->pos[0] = x;
  mjsJoint* j = mjs_addJoint(b, nullptr); j->type = mjJNT_HINGE; j->axis[0]=0; j->axis[1]=1; j->axis[2]=0;
  j->limited = limited ? mjLIMITED_TRUE : mjLIMITED_FALSE; j->range[0]=lo; j->range[1]=hi;
  mjs_setName(j->element, ("hinge"+std::to_string(k)).c_str());
  mjsGeom* g = mjs_addGeom(b, nullptr); g->type = mjGEOM_SPHERE; g->size[0]=0.03; g->mass=0.5; g->contype=0; g->conaffinity=0;
}
static void motor(mjSpec* s, const char* nm, const char* j) {
  mjsActuator* a = mjs_addActuator(s, nullptr); a->trntype = mjTRN_JOINT; mjs_setString(a->target, j);
  a->gaintype = mjGAIN_FIXED; a->gainprm[0]=1; a->biastype = mjBIAS_NONE; mjs_setName(a->element, nm);
}
int main() {
  mjSpec* s = mj_makeSpec(); s->compiler.degree = 0; s->compiler.LRopt.mode = mjLRMODE_NONE;
  hinge_body(s, 0, 0, -0.5, 1.0, true);     // joint 0
  hinge_body(s, 1, 0.5, -0.2, 0.3, true);   // joint 1
  hinge_body(s, 2, 1.0, -0.7, 0.9, true);   // joint 2
  motor(s, "a0", "hinge2"); motor(s, "a1", "hinge1"); motor(s, "a2", "hinge0");
  mjModel* m = mj_compile(s, nullptr); if (!m) { printf("%s\n", mjs_getError(s)); return 2; }
  mjData* d = mj_makeData(m);
  mjLROpt opt; mj_defaultLROpt(&opt); opt.mode = mjLRMODE_ALL; opt.useexisting = 0; opt.uselimit = 1;
  char err[300];
  for (int i = 0; i < m->nactuator; i++) {
    err[0]=0; int ok = mj_setLengthRange(m, d, i, &opt, err, 300);
    int j = m->actuator_trnid[2*i];
    printf("actuator %d on joint %d (range %g %g): trnid[index]=%d  ok=%d %s lengthrange=(%g, %g)\n", i, j, m->jnt_range[2*j], m->jnt_range[2*j+1],
           m->actuator_trnid[i], ok, err, m->actuator_lengthrange[2*m->actuator_outadr[i]], m->actuator_lengthrange[2*m->actuator_outadr[i]+1]);
  }
  return 0;
}
