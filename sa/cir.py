"""Helpers over the pruned clang IR (see cfront.py)."""
from __future__ import annotations

import os
import re

from .cfront import AnalysisError

TRANSPARENT = {"ImplicitCastExpr", "ParenExpr", "ConstantExpr", "ExprWithCleanups",
               "MaterializeTemporaryExpr", "CXXBindTemporaryExpr", "FullExpr",
               "CXXFunctionalCastExpr", "CXXStaticCastExpr", "CStyleCastExpr",
               "CXXReinterpretCastExpr", "CXXConstCastExpr", "SubstNonTypeTemplateParmExpr"}


def kids(n):
    return n.get("i") or () if n else ()


def walk(n):
    """Preorder over a subtree (skips None children)."""
    stack = [n]
    while stack:
        x = stack.pop()
        if not x:
            continue
        yield x
        c = x.get("i")
        if c:
            stack.extend(reversed(c))


def strip(n, casts=True):
    """Strip parentheses / implicit casts (and explicit casts if casts=True)."""
    while n is not None and n.get("k") in TRANSPARENT:
        if not casts and n["k"] in ("CStyleCastExpr", "CXXStaticCastExpr", "CXXReinterpretCastExpr",
                                    "CXXFunctionalCastExpr", "CXXConstCastExpr"):
            break
        c = [x for x in kids(n) if x is not None]
        if not c:
            break
        n = c[-1] if n["k"] in ("CXXFunctionalCastExpr",) else c[0]
    return n


def is_call(n):
    return n is not None and n.get("k") in ("CallExpr", "CXXMemberCallExpr", "CXXOperatorCallExpr")


def callee(n):
    """Name of the directly called function of a CallExpr, or None (indirect)."""
    if not is_call(n):
        return None
    c = kids(n)
    if not c:
        return None
    f = strip(c[0])
    if f is None:
        return None
    if f.get("k") == "DeclRefExpr":
        r = f.get("ref") or {}
        if r.get("k") in ("FunctionDecl", "CXXMethodDecl"):
            return r.get("n")
        return None
    if f.get("k") == "MemberExpr":
        return f.get("n")
    if f.get("k") in ("UnresolvedLookupExpr", "UnresolvedMemberExpr"):
        return f.get("n") or f.get("member")
    if f.get("k") == "CXXDependentScopeMemberExpr":
        return f.get("member")
    return None


def callee_expr(n):
    c = kids(n)
    return strip(c[0]) if c else None


def args(n):
    """Argument expressions of a call (not stripped)."""
    c = kids(n)
    if n.get("k") == "CXXOperatorCallExpr":
        return list(c[1:])
    return list(c[1:])


def calls(n, name=None):
    for x in walk(n):
        if is_call(x):
            if name is None or callee(x) == name or (isinstance(name, (set, frozenset, tuple, list)) and callee(x) in name):
                yield x


def body(fn):
    for c in kids(fn):
        if c and c.get("k") == "CompoundStmt":
            return c
    return None


def params(fn):
    return [c for c in kids(fn) if c and c.get("k") == "ParmVarDecl"]


_BINPREC = {",": 1, "=": 2, "+=": 2, "-=": 2, "*=": 2, "/=": 2, "|=": 2, "&=": 2, "^=": 2, "<<=": 2,
            ">>=": 2, "%=": 2, "||": 4, "&&": 5, "|": 6, "^": 7, "&": 8, "==": 9, "!=": 9, "<": 10,
            ">": 10, "<=": 10, ">=": 10, "<<": 11, ">>": 11, "+": 12, "-": 12, "*": 13, "/": 13,
            "%": 13}


def text(n, keep_casts=False) -> str:
    """Canonical text of an expression (macro-expanded, casts and parens dropped)."""
    if n is None:
        return ""
    k = n.get("k")
    if k in TRANSPARENT:
        c = [x for x in kids(n) if x is not None]
        if not c:
            return ""
        if keep_casts and k == "CStyleCastExpr":
            return f"({n.get('t')})" + text(c[0], keep_casts)
        return text(c[-1] if k == "CXXFunctionalCastExpr" else c[0], keep_casts)
    if k == "DeclRefExpr":
        return (n.get("ref") or {}).get("n") or n.get("n") or "?"
    if k == "MemberExpr":
        c = kids(n)
        base = text(c[0], keep_casts) if c else "this"
        if c and strip(c[0]) is not None and strip(c[0]).get("k") == "CXXThisExpr":
            return n.get("n", "?")
        return base + ("->" if n.get("arrow") else ".") + str(n.get("n"))
    if k == "CXXThisExpr":
        return "this"
    if k == "UnresolvedLookupExpr" or k == "UnresolvedMemberExpr":
        return n.get("n") or n.get("member") or f"<{k}>"
    if k == "CXXDependentScopeMemberExpr":
        c = kids(n)
        base = text(c[0], keep_casts) if c else "this"
        return base + ("->" if n.get("arrow") else ".") + str(n.get("member"))
    if k == "ArraySubscriptExpr":
        c = kids(n)
        return f"{text(c[0], keep_casts)}[{text(c[1], keep_casts)}]"
    if k in ("IntegerLiteral", "FloatingLiteral", "CharacterLiteral"):
        return str(n.get("v"))
    if k == "StringLiteral":
        return str(n.get("v"))
    if k in ("CXXBoolLiteralExpr",):
        return "true" if n.get("v") else "false"
    if k in ("CXXNullPtrLiteralExpr", "GNUNullExpr"):
        return "NULL"
    if k == "UnaryOperator":
        c = kids(n)
        op = n.get("op")
        inner = text(c[0], keep_casts)
        ck = strip(c[0])
        if ck is not None and ck.get("k") in ("BinaryOperator", "ConditionalOperator", "CompoundAssignOperator"):
            inner = f"({inner})"
        if n.get("isPostfix"):
            return inner + op
        return op + inner
    if k in ("BinaryOperator", "CompoundAssignOperator"):
        c = kids(n)
        op = n.get("op")

        def side(x):
            s = text(x, keep_casts)
            sx = strip(x)
            if sx is not None and sx.get("k") in ("BinaryOperator", "CompoundAssignOperator") and \
                    _BINPREC.get(sx.get("op"), 0) < _BINPREC.get(op, 0) or \
                    (sx is not None and sx.get("k") == "ConditionalOperator"):
                return f"({s})"
            return s
        return f"{side(c[0])} {op} {side(c[1])}"
    if k == "ConditionalOperator":
        c = kids(n)
        return f"{text(c[0], keep_casts)} ? {text(c[1], keep_casts)} : {text(c[2], keep_casts)}"
    if k in ("CallExpr", "CXXMemberCallExpr"):
        c = kids(n)
        return f"{text(c[0], keep_casts)}({', '.join(text(a, keep_casts) for a in c[1:])})"
    if k == "CXXOperatorCallExpr":
        c = kids(n)
        opn = text(c[0])
        m = re.match(r"operator(.*)", opn)
        op = m.group(1) if m else opn
        a = [text(x, keep_casts) for x in c[1:]]
        if op == "[]" and len(a) == 2:
            return f"{a[0]}[{a[1]}]"
        if op == "()":
            return f"{a[0]}({', '.join(a[1:])})"
        if len(a) == 2:
            return f"{a[0]} {op} {a[1]}"
        if len(a) == 1:
            return f"{op}{a[0]}"
        return f"{op}({', '.join(a)})"
    if k == "UnaryExprOrTypeTraitExpr":
        c = kids(n)
        if n.get("argt"):
            return f"{n.get('n')}({n.get('argt')})"
        return f"{n.get('n')}({text(c[0], keep_casts) if c else ''})"
    if k == "InitListExpr":
        return "{" + ", ".join(text(x, keep_casts) for x in kids(n)) + "}"
    if k == "CompoundLiteralExpr":
        c = kids(n)
        return f"({n.get('t')})" + (text(c[0], keep_casts) if c else "")
    if k == "StmtExpr":
        return "({...})"
    if k == "OpaqueValueExpr":
        c = kids(n)
        return text(c[0], keep_casts) if c else "?"
    if k == "BinaryConditionalOperator":
        c = kids(n)
        return f"{text(c[0], keep_casts)} ?: {text(c[-1], keep_casts)}"
    if k in ("CXXConstructExpr", "CXXTemporaryObjectExpr"):
        c = kids(n)
        if len(c) == 1:
            return text(c[0], keep_casts)
        return f"{n.get('t')}({', '.join(text(a, keep_casts) for a in c)})"
    if k == "CXXDefaultArgExpr":
        return "<default>"
    if k == "ImplicitValueInitExpr":
        return "0"
    if k == "PredefinedExpr":
        return "__func__"
    if k == "LambdaExpr":
        return "<lambda>"
    if k == "CXXNewExpr":
        return "new " + str(n.get("t"))
    if k == "CXXDeleteExpr":
        c = kids(n)
        return "delete " + (text(c[0]) if c else "")
    if k == "CXXThrowExpr":
        c = kids(n)
        return "throw " + (text(c[0]) if c else "")
    if k == "VAArgExpr":
        return "va_arg"
    if k == "ArrayInitLoopExpr" or k == "ArrayInitIndexExpr":
        return "<arrayinit>"
    if k == "DesignatedInitExpr":
        c = kids(n)
        return text(c[-1]) if c else ""
    return f"<{k}>"


def base_var(n):
    """The variable at the root of an lvalue chain (a->b.c[i] -> a), or None."""
    n = strip(n)
    while n is not None:
        k = n.get("k")
        if k == "DeclRefExpr":
            return (n.get("ref") or {}).get("n")
        if k in ("MemberExpr", "ArraySubscriptExpr"):
            c = kids(n)
            n = strip(c[0]) if c else None
            continue
        if k == "UnaryOperator" and n.get("op") in ("*", "&"):
            n = strip(kids(n)[0])
            continue
        if k == "BinaryOperator" and n.get("op") in ("+", "-"):
            n = strip(kids(n)[0])
            continue
        return None
    return None


def vars_in(n):
    out = set()
    for x in walk(n):
        if x.get("k") == "DeclRefExpr":
            r = x.get("ref") or {}
            if r.get("k") in ("VarDecl", "ParmVarDecl"):
                out.add(r.get("n"))
    return out


def has_call(n):
    for x in walk(n):
        if is_call(x):
            return True
    return False


def is_pure(n):
    """No calls, no assignments, no ++/--."""
    for x in walk(n):
        k = x.get("k")
        if is_call(x) or k == "CompoundAssignOperator" or k == "StmtExpr":
            return False
        if k == "BinaryOperator" and x.get("op") == "=":
            return False
        if k == "UnaryOperator" and x.get("op") in ("++", "--"):
            return False
    return True


def loc(n, fn=None) -> str:
    f = n.get("file") or (fn.get("file") if fn else None) or "?"
    return f"{f}:{n.get('line')}"


class Unit:
    """One translation unit's IR with indexes."""

    def __init__(self, ir):
        self.ir = ir
        self.tu = ir["tu"]
        self.funcs = {}     # name -> FunctionDecl node with body
        self.protos = {}
        self.vars = {}      # file-scope VarDecl by name
        self.records = {}
        self.enums = {}
        self.typedefs = {}
        for d in ir["decls"]:
            self._index(d, d.get("file") or d.get("nfile"))

    def _index(self, d, file):
        k = d.get("k")
        if k in ("FunctionDecl", "CXXMethodDecl", "CXXConstructorDecl", "CXXDestructorDecl"):
            if body(d) is not None:
                d.setdefault("file", file)
                self.funcs[d.get("n")] = d
            else:
                self.protos.setdefault(d.get("n"), d)
        elif k == "VarDecl":
            d.setdefault("file", file)
            # prefer the definition (with init / non-extern)
            old = self.vars.get(d.get("n"))
            if old is None or (old.get("storageClass") == "extern" and d.get("storageClass") != "extern"):
                self.vars[d.get("n")] = d
        elif k in ("RecordDecl", "CXXRecordDecl"):
            if d.get("completeDefinition") and d.get("n"):
                self.records[d["n"]] = d
        elif k == "EnumDecl":
            if d.get("n"):
                self.enums[d["n"]] = d
        elif k == "TypedefDecl":
            self.typedefs[d.get("n")] = d
        elif k in ("LinkageSpecDecl", "NamespaceDecl"):
            for c in kids(d):
                if c:
                    self._index(c, c.get("file") or file)


class Program:
    """Several units; function lookup honours `static` (per-TU) linkage."""

    def __init__(self, units):
        self.units = {u.tu: u for u in units}
        self.globals = {}
        self.header_funcs = {}
        for u in units:
            for name, fn in u.funcs.items():
                f = fn.get("file")
                if f and f != u.tu:
                    self.header_funcs.setdefault(name, (u, fn))
                    continue
                if fn.get("storageClass") != "static":
                    self.globals.setdefault(name, (u, fn))

    def resolve(self, unit, name):
        """(unit, fn) of the function `name` as seen from `unit`, or None (external)."""
        if name is None:
            return None
        fn = unit.funcs.get(name) if unit else None
        if fn is not None:
            return unit, fn
        r = self.globals.get(name)
        if r:
            return r
        return self.header_funcs.get(name)

    def all_funcs(self):
        seen = set()
        for u in self.units.values():
            for name, fn in u.funcs.items():
                key = (fn.get("file"), name)
                if key in seen:
                    continue
                seen.add(key)
                yield u, fn


_SRC = {}


def source_line(file, line, repo=None):
    from .cfront import REPO
    repo = repo or REPO
    key = (repo, file)
    if key not in _SRC:
        try:
            with open(file if file.startswith("/") else os.path.join(repo, file), errors="replace") as f:
                _SRC[key] = f.read().split("\n")
        except OSError:
            _SRC[key] = []
    L = _SRC[key]
    return L[line - 1] if line and 0 < line <= len(L) else ""


_MEMORDER = {"0": "relaxed", "1": "consume", "2": "acquire", "3": "release", "4": "acq_rel", "5": "seq_cst"}


def atomic_info(n, fn_file=None, repo=None):
    """(op, order, pointer_text) of a C AtomicExpr; op from the spelled builtin name."""
    if n is None or n.get("k") != "AtomicExpr":
        return None
    c = kids(n)
    ptr = text(c[0]) if c else "?"
    order = None
    if len(c) > 1:
        o = strip(c[1])
        if o is not None and o.get("k") == "IntegerLiteral":
            order = _MEMORDER.get(str(o.get("v")), str(o.get("v")))
    sf = n.get("sfile") or n.get("file") or fn_file
    sl = n.get("sline") or n.get("line")
    op = None
    if sf and sl:
        for dl in (0, 1, -1, 2):
            m = re.search(r"__atomic_([a-z_]+)|__c11_atomic_([a-z_]+)", source_line(sf, sl + dl, repo))
            if m:
                op = m.group(1) or m.group(2)
                break
    return op, order, ptr


def require(cond, msg):
    if not cond:
        raise AnalysisError(msg)
