"""C / C++ front end: the type-checked program from clang's JSON AST, pruned to a compact IR.

Nothing from /repo is executed.  `clang -fsyntax-only -Xclang -ast-dump=json` is run with
the build's own language level and definitions (read from /repo's CMake files), the JSON
is streamed into a pruned tree (plain dicts) and cached under /verif/.cache keyed by the
digest of the preprocessed translation unit, so any edit of a source or header
invalidates exactly the TUs that see it.

Pruned node keys
  k      clang node kind
  id     clang node id (decls, and everything that can be referenced)
  n      name                      t / dt   qualType / desugared qualType
  op     opcode                    v        literal value
  ck     cast kind                 arrow    MemberExpr isArrow
  ref    {id,k,n,t} of referencedDecl (DeclRefExpr)        mid  referencedMemberDecl id
  line   line of the (expansion) begin location            file only where it changes
  off,end  byte offsets [off,end) of the expansion range in `file`
  mac    True when the node's begin location is inside a macro expansion
  sline/sfile  spelling line/file for macro-expanded nodes
  i      list of children (None for absent optional children, e.g. empty for-init)
plus a small whitelist of boolean/string attributes copied verbatim.
"""
from __future__ import annotations

import bisect
import concurrent.futures as cf
import hashlib
import json
import mmap
import os
import pickle
import re
import subprocess
import sys
import time

REPO = os.environ.get("VERIF_REPO", "/repo")
VERIF = os.path.dirname(os.path.dirname(os.path.abspath(__file__)))
CACHE = os.path.join(VERIF, ".cache")
STUBS = os.path.join(VERIF, "stubs")
EXTRACTOR_VERSION = "10"


class AnalysisError(Exception):
    """The analyser could not handle something: exit 2, never a pass, never a VIOLATION."""


# --------------------------------------------------------------------------------------
# build flags, taken from the repository's own CMake files


def build_flags(repo: str = REPO) -> dict:
    opts = open(os.path.join(repo, "cmake", "MujocoOptions.cmake")).read()
    top = open(os.path.join(repo, "CMakeLists.txt")).read()
    mc = re.search(r"set\(CMAKE_C_STANDARD\s+(\d+)\)", opts)
    mx = re.search(r"set\(CMAKE_CXX_STANDARD\s+(\d+)\)", opts)
    if not mc or not mx:
        raise AnalysisError("cannot read C/C++ standard from cmake/MujocoOptions.cmake")
    defs = []
    md = re.search(r"target_compile_definitions\(\s*mujoco\s+PRIVATE\s+([^)]*)\)", top)
    if md:
        for tok in md.group(1).split():
            tok = tok.lstrip("-D") if tok.startswith("-D") else tok
            if re.fullmatch(r"[A-Za-z_][A-Za-z0-9_]*(=.*)?", tok):
                defs.append(tok)
    if "_GNU_SOURCE" not in defs:
        defs.append("_GNU_SOURCE")
    avx = []
    if os.path.exists(os.path.join(repo, "cmake", "CheckAvxSupport.cmake")):
        avx = ["-mavx"]
    common = [f"-D{d}" for d in defs if d not in ("MC_IMPLEM_ENABLE",)] + [
        "-Iinclude", "-Isrc", "-I" + STUBS, "-I.", "-Iplugin"] + avx
    return {
        "c": ["-std=c" + mc.group(1)] + common,
        "cxx": ["-std=c++" + mx.group(1), "-fexceptions"] + common,
    }


def engine_c_tus(repo: str = REPO) -> list:
    d = os.path.join(repo, "src", "engine")
    tus = sorted("src/engine/" + f for f in os.listdir(d) if f.endswith(".c"))
    # cross-check with the CMake source list: every .c the build names must exist here
    cm = open(os.path.join(d, "CMakeLists.txt")).read()
    named = set(re.findall(r"(engine_[a-z0-9_]+\.c)\b", cm))
    have = {os.path.basename(t) for t in tus}
    if named - have:
        raise AnalysisError(f"CMake names engine sources that do not exist: {sorted(named - have)}")
    return [t for t in tus if os.path.basename(t) in named] or tus


# --------------------------------------------------------------------------------------
# clang invocation + pruning

_COPY = ("name", "opcode", "value", "castKind", "isArrow", "storageClass", "tls", "init",
         "isPostfix", "tagUsed", "isImplicit", "inline", "variadic", "constexpr",
         "completeDefinition", "hasElse", "hasInit", "hasVar", "isBitfield", "mutable",
         "explicitlyDefaulted", "explicitlyDeleted", "virtual",
         "pure", "access", "isCaseRange", "hasBraces", "adl", "isTypeDependent", "member")
_SHORT = {"name": "n", "opcode": "op", "value": "v", "castKind": "ck", "isArrow": "arrow"}


class _Lines:
    """offset -> line, from the file's own text (clang's delta-encoded lines are ignored)."""

    def __init__(self, repo):
        self.repo = repo
        self.tab = {}

    def line(self, file, off):
        if file is None or off is None:
            return None
        t = self.tab.get(file)
        if t is None:
            path = file if file.startswith("/") else os.path.join(self.repo, file)
            try:
                data = open(path, "rb").read()
            except OSError:
                data = None
            if data is None:
                t = ()
            else:
                t = [0]
                find = data.find
                pos = find(b"\n")
                while pos >= 0:
                    t.append(pos + 1)
                    pos = find(b"\n", pos + 1)
            self.tab[file] = t
        if not t:
            return None
        return bisect.bisect_right(t, off)


class _Pruner:
    def __init__(self, lines):
        self.file = None
        self.lines = lines

    def bare(self, loc):
        """Process one bare location in print order; returns (file,line,offset,tokLen)."""
        if not loc:
            return None
        if "file" in loc:
            self.file = loc["file"]
        off = loc.get("offset")
        if off is None:
            return None
        return (self.file, self.lines.line(self.file, off), off, loc.get("tokLen", 0))

    def loc(self, loc):
        """A location that may be macro-split.  Returns (expansion, spelling or None)."""
        if not loc:
            return None, None
        if "spellingLoc" in loc or "expansionLoc" in loc:
            sp = self.bare(loc.get("spellingLoc"))
            ex = self.bare(loc.get("expansionLoc"))
            return ex, sp
        return self.bare(loc), None

    def prune(self, n, cur_file=None):
        if not isinstance(n, dict) or not n:
            return None
        out = {"k": n.get("kind")}
        lex, lsp = (None, None)
        if "loc" in n:
            lex, lsp = self.loc(n["loc"])
        bex = bsp = eex = None
        r = n.get("range")
        if r:
            bex, bsp = self.loc(r.get("begin"))
            eex, _ = self.loc(r.get("end"))
        pos = bex or lex
        kind = out["k"] or ""
        isdecl = kind.endswith("Decl")
        if pos:
            out["line"] = pos[1]
            if pos[0] != cur_file:
                out["file"] = pos[0]
                cur_file = pos[0]
            if not bsp or isdecl:
                out["off"] = pos[2]
                if eex and eex[0] == pos[0]:
                    out["end"] = eex[2] + eex[3]
        if lex and isdecl:
            out["nline"] = lex[1]
            if lex[0] != cur_file:
                out["nfile"] = lex[0]
        if bsp:
            out["mac"] = True
            if bsp[0] != cur_file or bsp[1] != out.get("line"):
                out["sfile"], out["sline"] = bsp[0], bsp[1]
        if "id" in n and (isdecl or kind in ("LabelStmt", "LambdaExpr")):
            out["id"] = n["id"]
        for a in _COPY:
            if a in n:
                out[_SHORT.get(a, a)] = n[a]
        ty = n.get("type")
        if ty:
            out["t"] = ty.get("qualType")
            if "desugaredQualType" in ty:
                out["dt"] = ty["desugaredQualType"]
        at = n.get("argType")
        if at:
            out["argt"] = at.get("qualType")
            if "desugaredQualType" in at:
                out["argdt"] = at["desugaredQualType"]
        rd = n.get("referencedDecl")
        if rd:
            out["ref"] = {"id": rd.get("id"), "k": rd.get("kind"), "n": rd.get("name"),
                          "t": (rd.get("type") or {}).get("qualType")}
        if "referencedMemberDecl" in n:
            out["mid"] = n["referencedMemberDecl"]
        if "previousDecl" in n:
            out["prev"] = n["previousDecl"]
        if "ownedTagDecl" in n:
            out["owned"] = n["ownedTagDecl"].get("id")
        if "decl" in n and isinstance(n["decl"], dict):
            out["decl"] = {"id": n["decl"].get("id"), "k": n["decl"].get("kind"),
                           "n": n["decl"].get("name")}
        if "fixedUnderlyingType" in n:
            out["underlying"] = n["fixedUnderlyingType"].get("qualType")
        if "targetLabelDeclId" in n:
            out["label"] = n["targetLabelDeclId"]
        if "ctorType" in n:
            out["ctort"] = n["ctorType"].get("qualType")
        if "bases" in n:
            out["bases"] = [((b.get("type") or {}).get("qualType")) for b in n["bases"]]
        inner = n.get("inner")
        if inner:
            out["i"] = [self.prune(c, cur_file) for c in inner]
        return out


_RE_TOP = re.compile(rb"\n    \{\n")
_RE_FILE = re.compile(rb'"offset": \d+,\s*"file": "((?:[^"\\]|\\.)*)"')
_RE_KIND = re.compile(rb'"kind": "([A-Za-z]+)"')


def _split_top(data: bytes):
    """Yield the byte chunks of the top-level declarations of a whole-TU JSON dump.

    clang indents two spaces per level, so the children of TranslationUnitDecl.inner are the
    objects opening with a line of exactly four spaces and '{'.
    """
    starts = [m.start() + 1 for m in _RE_TOP.finditer(data)]
    if not starts:
        return
    tail = data.rfind(b"\n  ]")
    for a, b in zip(starts, starts[1:] + [tail if tail > starts[-1] else len(data)]):
        chunk = data[a:b].rstrip()
        if chunk.endswith(b","):
            chunk = chunk[:-1]
        yield chunk


def _clang_cmd(tu: str, lang: str, flags: dict, extra=()):
    cc = "clang" if lang == "c" else "clang++"
    return [cc, "-fsyntax-only", "-w"] + flags[lang] + list(extra) + [tu]


_HDR_DIGEST = {}


def headers_digest(repo: str) -> str:
    """Digest of every header-like file a TU could see (any header edit invalidates all)."""
    if repo in _HDR_DIGEST:
        return _HDR_DIGEST[repo]
    h = hashlib.sha256()
    roots = [os.path.join(repo, "include"), os.path.join(repo, "src"),
             os.path.join(repo, "plugin"), STUBS,
             os.path.join(repo, "cmake"), ]
    files = []
    for r in roots:
        for dp, dn, fn in os.walk(r):
            for f in fn:
                if f.endswith((".h", ".inc", ".hh", ".hpp", ".cmake")):
                    files.append(os.path.join(dp, f))
    files.append(os.path.join(repo, "CMakeLists.txt"))
    for f in sorted(files):
        h.update(os.path.relpath(f, repo).encode() if f.startswith(repo) else f.encode())
        try:
            with open(f, "rb") as fh:
                h.update(fh.read())
        except OSError:
            h.update(b"<missing>")
    _HDR_DIGEST[repo] = h.hexdigest()
    return _HDR_DIGEST[repo]


def _digest(tu: str, lang: str, flags: dict, repo: str, tag: str) -> str:
    h = hashlib.sha256()
    h.update(EXTRACTOR_VERSION.encode())
    h.update(tag.encode())
    h.update(" ".join(_clang_cmd(tu, lang, flags)).encode())
    h.update(headers_digest(repo).encode())
    try:
        with open(os.path.join(repo, tu), "rb") as f:
            h.update(f.read())
    except OSError:
        raise AnalysisError(f"translation unit {tu} does not exist")
    return h.hexdigest()[:32]


def _keep_default(path: str) -> bool:
    return bool(path) and not path.startswith("/") and not path.startswith("<")


def load_tu(tu: str, repo: str = REPO, lang: str | None = None, filt: str | None = None,
            use_cache: bool = True, types: bool = False) -> dict:
    """Parse one TU (path relative to repo) and return its pruned IR.

    {'tu':..., 'decls':[top-level pruned nodes from repo files], 'lang':...}
    With `filt` (C++), clang's -ast-dump-filter is used and decls are the filtered
    declarations.
    """
    if lang is None:
        lang = "c" if tu.endswith(".c") else "cxx"
    flags = build_flags(repo)
    tag = f"{filt or ''}|{int(types)}"
    dg = _digest(tu, lang, flags, repo, tag) if use_cache else None
    cpath = os.path.join(CACHE, f"{os.path.basename(tu)}.{dg}.pkl") if dg else None
    if cpath and os.path.exists(cpath):
        try:
            with open(cpath, "rb") as f:
                return pickle.load(f)
        except Exception:
            pass
    extra = ["-Xclang", "-ast-dump=json"]
    if filt:
        extra += ["-Xclang", "-ast-dump-filter=" + filt]
    os.makedirs(CACHE, exist_ok=True)
    tmpjson = os.path.join(CACHE, f"tmp.{os.getpid()}.{abs(hash(tu)) % 100000}.json")
    try:
        with open(tmpjson, "wb") as f:
            p = subprocess.run(_clang_cmd(tu, lang, flags, extra), cwd=repo, stdout=f,
                               stderr=subprocess.PIPE)
        if p.returncode != 0 or os.path.getsize(tmpjson) == 0:
            raise AnalysisError(f"clang could not parse {tu}:\n{p.stderr.decode()[:3000]}")
        with open(tmpjson, "rb") as f:
            if filt:
                text = f.read()
            else:
                text = mmap.mmap(f.fileno(), 0, access=mmap.ACCESS_READ)
    finally:
        try:
            os.remove(tmpjson)
        except OSError:
            pass
    pr = _Pruner(_Lines(repo))
    decls = []
    if filt:
        text = text.decode("utf-8", "replace")
        dec = json.JSONDecoder()
        pos = 0
        n = len(text)
        while True:
            while pos < n and text[pos] in " \r\n\t":
                pos += 1
            if pos >= n:
                break
            if text[pos] != "{":
                # "Dumping Foo:" header lines
                nl = text.find("\n", pos)
                pos = n if nl < 0 else nl + 1
                continue
            obj, pos = dec.raw_decode(text, pos)
            pr.file = None
            node = pr.prune(obj, None)
            if node:
                decls.append(node)
    else:
        for chunk in _split_top(text):
            head = chunk[:4000]
            mk = _RE_KIND.search(head)
            kind = mk.group(1).decode() if mk else ""
            # file of the declaration: state after its own "loc"
            lpos = head.find(b'"loc": {')
            rpos = head.find(b'"range": {')
            f = pr.file
            if lpos >= 0 and rpos > lpos:
                fm = _RE_FILE.findall(head[lpos:rpos])
                if fm:
                    f = json.loads(b'"' + fm[-1] + b'"')
            keep = False
            if f is not None and _keep_default(f):
                if f == tu or types:
                    keep = True
                elif kind == "VarDecl":
                    keep = True
                elif kind in ("FunctionDecl", "CXXMethodDecl") and b'"kind": "CompoundStmt"' in chunk:
                    keep = True
            if not keep:
                fm = _RE_FILE.findall(chunk)
                if fm:
                    pr.file = json.loads(b'"' + fm[-1] + b'"')
                continue
            save = pr.file
            node = pr.prune(json.loads(chunk), None)
            if node is None:
                continue
            if node.get("file") is None and node.get("nfile") is None:
                node["file"] = save
            decls.append(node)
        del text
    res = {"tu": tu, "lang": lang, "decls": decls, "filter": filt}
    if cpath:
        os.makedirs(CACHE, exist_ok=True)
        tmp = cpath + f".{os.getpid()}.tmp"
        with open(tmp, "wb") as f:
            pickle.dump(res, f, protocol=pickle.HIGHEST_PROTOCOL)
        os.replace(tmp, cpath)
    return res


def _load_one(args):
    tu, repo, lang, filt = args
    t = time.time()
    try:
        load_tu(tu, repo, lang, filt)
        return tu, None, None, time.time() - t
    except AnalysisError as e:
        return tu, None, str(e), time.time() - t


def load_tus(tus, repo: str = REPO, jobs: int | None = None, load: bool = True) -> dict:
    """Load several TUs in parallel.  tus: list of paths or (path, lang, filter)."""
    work = []
    for t in tus:
        if isinstance(t, str):
            work.append((t, repo, None, None))
        else:
            work.append((t[0], repo, t[1], t[2]))
    def _size(w):
        try:
            return os.path.getsize(os.path.join(repo, w[0]))
        except OSError:
            return 0
    order = sorted(work, key=_size, reverse=True)
    # engine_io.c expands the X-macros and is by far the longest; start it first
    order.sort(key=lambda w: 0 if w[0].endswith("engine_io.c") else 1)
    flags = build_flags(repo)
    todo = []
    for w in order:
        lang = w[2] or ("c" if w[0].endswith(".c") else "cxx")
        dg = _digest(w[0], lang, flags, repo, f"{w[3] or ''}|0")
        if not os.path.exists(os.path.join(CACHE, f"{os.path.basename(w[0])}.{dg}.pkl")):
            todo.append(w)
    jobs = jobs or min(int(os.environ.get("VERIF_JOBS", "16")), os.cpu_count() or 4, max(1, len(todo)))
    out = {}
    errs = []
    if not todo:
        results = ()
    elif jobs == 1 or len(todo) == 1:
        results = map(_load_one, todo)
    else:
        with cf.ProcessPoolExecutor(jobs) as ex:
            results = list(ex.map(_load_one, todo))
    for tu, r, err, dt in results:
        if err:
            errs.append(f"{tu}: {err}")
    if errs:
        raise AnalysisError("; ".join(errs))
    if not load:
        return {}
    for w in work:
        out[w[0]] = load_tu(w[0], repo, w[2], w[3])
    return out


def prune_cache(max_files: int = 400):
    """Keep the cache bounded (oldest first)."""
    try:
        fs = [os.path.join(CACHE, f) for f in os.listdir(CACHE)]
    except FileNotFoundError:
        return
    if len(fs) <= max_files:
        return
    fs.sort(key=lambda p: os.path.getmtime(p))
    for p in fs[: len(fs) - max_files]:
        try:
            os.remove(p)
        except OSError:
            pass


if __name__ == "__main__":
    t0 = time.time()
    tus = engine_c_tus()
    r = load_tus(tus)
    n = sum(len(v["decls"]) for v in r.values())
    print(f"{len(r)} TUs, {n} repo decls, {time.time() - t0:.1f}s")
