"""Flattening of orchestration functions into guarded event sequences (R-SIBLING-SEQ).

An orchestration function is a function without loops whose body is calls, ifs and flag
assignments (mj_step, mj_forward, mj_forwardSkip, mj_step1, mj_fwdPosition ...).  Such
callees are inlined with their integer arguments constant-propagated, so that
`mj_forward -> mj_forwardSkip(m, d, mjSTAGE_NONE, 0)` folds `skipstage < mjSTAGE_POS`.

Events:  ("call", name, guards)   ("set", lhs, rhs, guards)   ("assert", cond, guards)
guards is a sorted tuple of (atom_text, polarity); `a && b` under polarity True is split into
atoms, so `if (a && b)` and `if (a) if (b)` agree.
"""
from __future__ import annotations

from . import cir, ctypeinfo, paths

IGNORE_CALLS = {"mjcb_time"}

# Stage anchors: the functions of an orchestration TU that the pipeline rules name as events.  With `stop=STAGES[tu]` the
# flattener inlines every other function of that TU (orchestrators, wrappers and static helpers alike, with locals, early
# returns and loops), so that moving code between an orchestrator and a helper does not change the event sequence.  Each
# entry is a stage of the documented pipeline (computation.rst) implemented in that TU.
STAGES = {
    "src/engine/engine_forward.c": frozenset({
        "mj_checkPos", "mj_checkVel", "mj_checkAcc",                      # state checks
        "mj_fwdVelocity", "mj_fwdActuation", "mj_fwdAcceleration", "mj_fwdConstraint", "mj_flexCG",   # stage bodies
        "mj_EulerSkip", "mj_implicitSkip", "mj_RungeKutta", "mj_advance",  # integrators
    }),
    "src/engine/engine_inverse.c": frozenset({"mj_discreteAcc", "mj_invConstraint", "mj_compareFwdInv"}),
}


def _is_timer(node):
    t = cir.text(node)
    return "d->timer" in t or "_tm" in t.split(" ")[0:1] or t.startswith("_tm")


class Flattener:
    def __init__(self, unit, inline=None, max_depth=6, stop=None):
        self.unit = unit
        self.enum = ctypeinfo.load()["enumerators"]
        self.inline = inline
        self.max_depth = max_depth
        self.stop = stop          # new mode: inline every function of the unit's own file except these
        self._nest = {}
        self._assigned = {}

    def _view(self, fn):
        """the function with early returns nested (new mode), so that guards of later statements are complete"""
        if self.stop is None:
            return fn
        k = id(fn)
        if k not in self._nest:
            from . import norm
            self._nest[k] = (fn, norm.nest(fn, fatal=False))
        return self._nest[k][1]

    def _reassigned(self, fn):
        k = id(fn)
        if k not in self._assigned:
            out = set()
            for n in cir.walk(fn):
                if (n.get("k") == "BinaryOperator" and n.get("op") == "=") or n.get("k") == "CompoundAssignOperator" or \
                        (n.get("k") == "UnaryOperator" and n.get("op") in ("++", "--")):
                    t = cir.strip(cir.kids(n)[0])
                    if t is not None and t.get("k") == "DeclRefExpr":
                        out.add((t.get("ref") or {}).get("n"))
            self._assigned[k] = (fn, out)
        return self._assigned[k][1]

    # ---- constant evaluation with an environment keyed by expression text
    def ceval(self, n, env):
        n = cir.strip(n)
        if n is None:
            return None
        t = cir.text(n)
        if t in env:
            return env[t]
        k = n.get("k")
        if k == "IntegerLiteral":
            try:
                return int(str(n.get("v")), 0)
            except ValueError:
                return None
        if k == "DeclRefExpr":
            nm = (n.get("ref") or {}).get("n")
            if nm in env:
                return env[nm]
            if (n.get("ref") or {}).get("k") == "EnumConstantDecl":
                return self.enum.get(nm)
            return None
        if k == "UnaryOperator":
            v = self.ceval(cir.kids(n)[0], env)
            if v is None:
                return None
            return {"!": int(not v), "-": -v, "+": v, "~": ~v}.get(n.get("op"))
        if k == "BinaryOperator":
            op = n.get("op")
            a = self.ceval(cir.kids(n)[0], env)
            if op == "&&":
                if a == 0:
                    return 0
                b = self.ceval(cir.kids(n)[1], env)
                if b == 0:
                    return 0
                return 1 if (a is not None and b is not None) else None
            if op == "||":
                if a not in (None, 0):
                    return 1
                b = self.ceval(cir.kids(n)[1], env)
                if b not in (None, 0):
                    return 1
                return 0 if (a == 0 and b == 0) else None
            b = self.ceval(cir.kids(n)[1], env)
            if a is None or b is None:
                return None
            try:
                return {"<": int(a < b), ">": int(a > b), "<=": int(a <= b), ">=": int(a >= b), "==": int(a == b),
                        "!=": int(a != b), "+": a + b, "-": a - b, "*": a * b, "&": a & b, "|": a | b,
                        "<<": a << b, ">>": a >> b}.get(op)
            except Exception:
                return None
        return None

    def atoms(self, cond, pol, env):
        """[(text, polarity)] for a condition; && under True and || under False are split."""
        c = cir.strip(cond)
        if c is None:
            return []
        if c.get("k") == "UnaryOperator" and c.get("op") == "!":
            return self.atoms(cir.kids(c)[0], not pol, env)
        if c.get("k") == "BinaryOperator" and ((c.get("op") == "&&" and pol) or (c.get("op") == "||" and not pol)):
            out = []
            for x in cir.kids(c):
                v = self.ceval(x, env)
                if v is not None and bool(v) == pol:
                    continue
                out += self.atoms(x, pol, env)
            return out
        nc = paths.norm_cond(c)
        if nc is not None:
            key, p, _ = nc
            return [(self.subst(key, env), p if pol else not p)]
        return [(self.subst(cir.text(c), env), pol)]

    @staticmethod
    def subst(text, env):
        return text

    # ---- flattening
    def flatten(self, fn, env=None, guards=(), depth=0, out=None):
        out = [] if out is None else out
        env = dict(env or {})
        self._cur = [self._reassigned(fn)]
        self._stmt(cir.body(self._view(fn)), env, tuple(guards), depth, out, paths.error_msg_vars(fn))
        return out

    def _g(self, guards):
        return tuple(sorted(set(guards)))

    def _calls_in_expr(self, n, env, guards, depth, out, errv):
        """record calls of an expression in evaluation order"""
        if n is None:
            return
        k = n.get("k")
        if k == "ConditionalOperator":
            c = cir.kids(n)
            v = self.ceval(c[0], env)
            self._calls_in_expr(c[0], env, guards, depth, out, errv)
            if v is None:
                self._calls_in_expr(c[1], env, guards + tuple(self.atoms(c[0], True, env)), depth, out, errv)
                self._calls_in_expr(c[2], env, guards + tuple(self.atoms(c[0], False, env)), depth, out, errv)
            else:
                self._calls_in_expr(c[1] if v else c[2], env, guards, depth, out, errv)
            return
        if k == "BinaryOperator" and n.get("op") in ("&&", "||"):
            a, b = cir.kids(n)
            self._calls_in_expr(a, env, guards, depth, out, errv)
            pol = n.get("op") == "&&"
            self._calls_in_expr(b, env, guards + tuple(self.atoms(a, pol, env)), depth, out, errv)
            return
        for c in cir.kids(n):
            self._calls_in_expr(c, env, guards, depth, out, errv)
        if cir.is_call(n):
            name = cir.callee(n)
            if name is None:
                name = cir.text(cir.callee_expr(n))
            if name in IGNORE_CALLS:
                return
            if paths.is_noreturn_call(n, errv):
                out.append(("assert", "fatal:" + (name or "?"), self._g(guards)))
                return
            callee = self.unit.funcs.get(name)
            if callee is not None and depth < self.max_depth and self._inlinable(name, callee):
                cenv = {}
                reas = self._reassigned(callee)
                same = set()
                for p, a in zip(cir.params(callee), cir.args(n)):
                    v = self.ceval(a, env)
                    if v is not None and p.get("n") not in reas:
                        cenv[p.get("n")] = v
                    if cir.text(a) == p.get("n") and p.get("n") not in reas:
                        same.add(p.get("n"))
                # facts about memory reached through a pointer that is handed on under the same name stay valid in the callee
                # (e.g. m->opt.integrator bound by the caller of the pipeline)
                for k_, v_ in env.items():
                    if "->" in k_ and k_.split("->", 1)[0] in same:
                        cenv.setdefault(k_, v_)
                cur = getattr(self, "_cur", None)
                if cur is not None:
                    cur.append(reas)
                try:
                    self._stmt(cir.body(self._view(callee)), cenv, guards, depth + 1, out, paths.error_msg_vars(callee))
                finally:
                    if cur is not None:
                        cur.pop()
            else:
                out.append(("call", name, self._g(guards)))
        elif (k == "BinaryOperator" and n.get("op") == "=") or k == "CompoundAssignOperator":
            lhs = cir.text(cir.kids(n)[0])
            if "timer" in lhs or lhs.startswith("_tm"):
                return
            out.append(("set", lhs, cir.text(cir.kids(n)[1]) if k == "BinaryOperator" else n.get("op"), self._g(guards)))

    def _inlinable(self, name, fn):
        """orchestration functions only: no loops, no returns, no locals except timer macros"""
        if self.inline is not None:
            return name in self.inline
        if self.stop is not None:
            # only procedures: a value-returning function is an event of its own (its result feeds a condition)
            return name not in self.stop and fn.get("file") in (None, self.unit.tu) and not fn.get("variadic") and \
                (fn.get("t") or "").startswith("void (")
        errv = paths.error_msg_vars(fn)
        for x in cir.walk(fn):
            if x.get("k") in ("ForStmt", "WhileStmt", "DoStmt", "ReturnStmt", "SwitchStmt"):
                return False
            if x.get("k") == "VarDecl" and not (x.get("n") or "").startswith("_tm") and x.get("id") not in errv:
                return False
        return True

    def _is_fatal_block(self, st, errv):
        """a statement that only reports a fatal error (expansion of mjERROR / mju_error call)"""
        if st is None:
            return False
        cs = [c for c in cir.calls(st)]
        if not cs or not any(paths.is_noreturn_call(c, errv) for c in cs):
            return False
        return all(paths.is_noreturn_call(c, errv) or cir.callee(c) in ("snprintf", "mju_message") for c in cs)

    def _stmt(self, st, env, guards, depth, out, errv):
        if st is None:
            return
        k = st.get("k")
        if k == "CompoundStmt":
            # a block that ends in a fatal call is an assertion of the negated guard
            for c in cir.kids(st):
                self._stmt(c, env, guards, depth, out, errv)
            return
        if k == "DeclStmt":
            for d in cir.kids(st):
                if d is not None and d.get("k") == "VarDecl" and d.get("init"):
                    if (d.get("n") or "").startswith("_tm"):
                        continue
                    init = [c for c in cir.kids(d) if c is not None]
                    self._calls_in_expr(init[-1], env, guards, depth, out, errv)
                    v = self.ceval(init[-1], env)
                    if v is not None and not (self.stop is not None and d.get("n") in (getattr(self, "_cur", None) or [set()])[-1]):
                        env[d.get("n")] = v
                    elif d.get("n") in env:
                        del env[d.get("n")]
            return
        if k == "IfStmt":
            c = list(cir.kids(st))
            idx = int(bool(st.get("hasInit"))) + int(bool(st.get("hasVar")))
            cond, then = c[idx], c[idx + 1]
            els = c[idx + 2] if len(c) > idx + 2 else None
            if els is None and self._is_fatal_block(then, errv):
                out.append(("assert", "!(" + cir.text(cond) + ")", self._g(guards)))
                return
            self._calls_in_expr(cond, env, guards, depth, out, errv)
            v = self.ceval(cond, env)
            if v is not None:
                self._stmt(then if v else els, env, guards, depth, out, errv)
                return
            self._stmt(then, dict(env), guards + tuple(self.atoms(cond, True, env)), depth, out, errv)
            if els is not None:
                self._stmt(els, dict(env), guards + tuple(self.atoms(cond, False, env)), depth, out, errv)
            return
        if k == "SwitchStmt":
            c = [x for x in cir.kids(st) if x is not None]
            cond, body = c[0], c[-1]
            ctext = cir.text(cond)
            cval = self.ceval(cond, env)
            labels = []
            groups = []   # (labels, stmts)

            def add(s):
                if s is None:
                    return
                if s.get("k") == "CaseStmt":
                    labels.append(cir.text(cir.kids(s)[0]))
                    add(cir.kids(s)[-1])
                elif s.get("k") == "DefaultStmt":
                    labels.append("<default>")
                    add(cir.kids(s)[-1])
                else:
                    if labels or not groups:
                        groups.append((list(labels), []))
                        labels.clear()
                    groups[-1][1].append(s)
            for s in cir.kids(body):
                add(s)
            for labs, stmts in groups:
                if cval is not None:
                    vals = [self.enum.get(l) for l in labs if l != "<default>"]
                    known = {self.enum.get(l) for g_ in groups for l in g_[0] if l != "<default>"}
                    take = cval in vals or ("<default>" in labs and cval not in known)
                    if not take:
                        continue
                    g2 = guards
                else:
                    g2 = guards + ((f"{ctext} in {{{','.join(labs)}}}", True),)
                for s in stmts:
                    if s.get("k") == "BreakStmt":
                        break
                    self._stmt(s, dict(env), g2, depth, out, errv)
            return
        if k in ("ForStmt", "WhileStmt", "DoStmt"):
            if self.stop is None:
                out.append(("loop", cir.text(cir.kids(st)[2]) if k == "ForStmt" else "loop", self._g(guards)))
                return
            # new mode: loops are transparent; what happens inside carries the marker guard ("in loop", True)
            kk = list(cir.kids(st))
            lg = guards + (("in loop", True),)
            if k == "ForStmt":
                kk += [None] * 5
                self._stmt(kk[0], env, guards, depth, out, errv)
                for x in (kk[2], kk[3]):
                    if x is not None:
                        self._calls_in_expr(x, env, lg, depth, out, errv)
                self._stmt(kk[4], dict(env), lg, depth, out, errv)
            elif k == "WhileStmt":
                self._calls_in_expr(kk[0], env, lg, depth, out, errv)
                self._stmt(kk[-1], dict(env), lg, depth, out, errv)
            else:
                self._stmt(kk[0], dict(env), lg, depth, out, errv)
                self._calls_in_expr(kk[1], env, lg, depth, out, errv)
            return
        if k == "ReturnStmt":
            c = [x for x in cir.kids(st) if x is not None]
            if c:
                self._calls_in_expr(c[0], env, guards, depth, out, errv)
            out.append(("return", "", self._g(guards)))
            return
        if k in ("NullStmt", "BreakStmt", "ContinueStmt"):
            return
        self._calls_in_expr(st, env, guards, depth, out, errv)


def fmt(ev):
    g = " && ".join((a if p else f"!({a})") for a, p in ev[-1])
    body = " ".join(str(x) for x in ev[1:-1])
    return f"{ev[0]} {body}" + (f"  [if {g}]" if g else "")
