"""Flattening of orchestration functions into guarded event sequences (R-SIBLING-SEQ).

An orchestration function is a function without loops whose body is calls, ifs and flag
assignments (mj_step, mj_forward, mj_forwardSkip, mj_step1, mj_fwdPosition ...).  Such
callees are inlined with their integer arguments constant-propagated, so that
`mj_forward -> mj_forwardSkip(m, d, mjSTAGE_NONE, 0)` folds `skipstage < mjSTAGE_POS`.

Events:  ("call", name, guards)   ("set", lhs, rhs, guards)   ("assert", cond, guards)
guards is a sorted tuple of (atom_text, polarity); `a && b` under polarity True is split into
atoms, so `if (a && b)` and `if (a) if (b)` agree.
"""
from __future__ import annotations

from . import cir, ctypeinfo, paths

IGNORE_CALLS = {"mjcb_time"}


def _is_timer(node):
    t = cir.text(node)
    return "d->timer" in t or "_tm" in t.split(" ")[0:1] or t.startswith("_tm")


class Flattener:
    def __init__(self, unit, inline=None, max_depth=6):
        self.unit = unit
        self.enum = ctypeinfo.load()["enumerators"]
        self.inline = inline
        self.max_depth = max_depth

    # ---- constant evaluation with an environment keyed by expression text
    def ceval(self, n, env):
        n = cir.strip(n)
        if n is None:
            return None
        t = cir.text(n)
        if t in env:
            return env[t]
        k = n.get("k")
        if k == "IntegerLiteral":
            try:
                return int(str(n.get("v")), 0)
            except ValueError:
                return None
        if k == "DeclRefExpr":
            nm = (n.get("ref") or {}).get("n")
            if nm in env:
                return env[nm]
            if (n.get("ref") or {}).get("k") == "EnumConstantDecl":
                return self.enum.get(nm)
            return None
        if k == "UnaryOperator":
            v = self.ceval(cir.kids(n)[0], env)
            if v is None:
                return None
            return {"!": int(not v), "-": -v, "+": v, "~": ~v}.get(n.get("op"))
        if k == "BinaryOperator":
            op = n.get("op")
            a = self.ceval(cir.kids(n)[0], env)
            if op == "&&":
                if a == 0:
                    return 0
                b = self.ceval(cir.kids(n)[1], env)
                if b == 0:
                    return 0
                return 1 if (a is not None and b is not None) else None
            if op == "||":
                if a not in (None, 0):
                    return 1
                b = self.ceval(cir.kids(n)[1], env)
                if b not in (None, 0):
                    return 1
                return 0 if (a == 0 and b == 0) else None
            b = self.ceval(cir.kids(n)[1], env)
            if a is None or b is None:
                return None
            try:
                return {"<": int(a < b), ">": int(a > b), "<=": int(a <= b), ">=": int(a >= b), "==": int(a == b),
                        "!=": int(a != b), "+": a + b, "-": a - b, "*": a * b, "&": a & b, "|": a | b,
                        "<<": a << b, ">>": a >> b}.get(op)
            except Exception:
                return None
        return None

    def atoms(self, cond, pol, env):
        """[(text, polarity)] for a condition; && under True and || under False are split."""
        c = cir.strip(cond)
        if c is None:
            return []
        if c.get("k") == "UnaryOperator" and c.get("op") == "!":
            return self.atoms(cir.kids(c)[0], not pol, env)
        if c.get("k") == "BinaryOperator" and ((c.get("op") == "&&" and pol) or (c.get("op") == "||" and not pol)):
            out = []
            for x in cir.kids(c):
                v = self.ceval(x, env)
                if v is not None and bool(v) == pol:
                    continue
                out += self.atoms(x, pol, env)
            return out
        nc = paths.norm_cond(c)
        if nc is not None:
            key, p, _ = nc
            return [(self.subst(key, env), p if pol else not p)]
        return [(self.subst(cir.text(c), env), pol)]

    @staticmethod
    def subst(text, env):
        return text

    # ---- flattening
    def flatten(self, fn, env=None, guards=(), depth=0, out=None):
        out = [] if out is None else out
        env = dict(env or {})
        self._stmt(cir.body(fn), env, tuple(guards), depth, out, paths.error_msg_vars(fn))
        return out

    def _g(self, guards):
        return tuple(sorted(set(guards)))

    def _calls_in_expr(self, n, env, guards, depth, out, errv):
        """record calls of an expression in evaluation order"""
        if n is None:
            return
        k = n.get("k")
        if k == "ConditionalOperator":
            c = cir.kids(n)
            v = self.ceval(c[0], env)
            self._calls_in_expr(c[0], env, guards, depth, out, errv)
            if v is None:
                self._calls_in_expr(c[1], env, guards + tuple(self.atoms(c[0], True, env)), depth, out, errv)
                self._calls_in_expr(c[2], env, guards + tuple(self.atoms(c[0], False, env)), depth, out, errv)
            else:
                self._calls_in_expr(c[1] if v else c[2], env, guards, depth, out, errv)
            return
        if k == "BinaryOperator" and n.get("op") in ("&&", "||"):
            a, b = cir.kids(n)
            self._calls_in_expr(a, env, guards, depth, out, errv)
            pol = n.get("op") == "&&"
            self._calls_in_expr(b, env, guards + tuple(self.atoms(a, pol, env)), depth, out, errv)
            return
        for c in cir.kids(n):
            self._calls_in_expr(c, env, guards, depth, out, errv)
        if cir.is_call(n):
            name = cir.callee(n)
            if name is None:
                name = cir.text(cir.callee_expr(n))
            if name in IGNORE_CALLS:
                return
            if paths.is_noreturn_call(n, errv):
                out.append(("assert", "fatal:" + (name or "?"), self._g(guards)))
                return
            callee = self.unit.funcs.get(name)
            if callee is not None and depth < self.max_depth and self._inlinable(name, callee):
                cenv = {}
                for p, a in zip(cir.params(callee), cir.args(n)):
                    v = self.ceval(a, env)
                    if v is not None:
                        cenv[p.get("n")] = v
                self._stmt(cir.body(callee), cenv, guards, depth + 1, out, paths.error_msg_vars(callee))
            else:
                out.append(("call", name, self._g(guards)))
        elif (k == "BinaryOperator" and n.get("op") == "=") or k == "CompoundAssignOperator":
            lhs = cir.text(cir.kids(n)[0])
            if "timer" in lhs or lhs.startswith("_tm"):
                return
            out.append(("set", lhs, cir.text(cir.kids(n)[1]) if k == "BinaryOperator" else n.get("op"), self._g(guards)))

    def _inlinable(self, name, fn):
        """orchestration functions only: no loops, no returns, no locals except timer macros"""
        if self.inline is not None:
            return name in self.inline
        errv = paths.error_msg_vars(fn)
        for x in cir.walk(fn):
            if x.get("k") in ("ForStmt", "WhileStmt", "DoStmt", "ReturnStmt", "SwitchStmt"):
                return False
            if x.get("k") == "VarDecl" and not (x.get("n") or "").startswith("_tm") and x.get("id") not in errv:
                return False
        return True

    def _is_fatal_block(self, st, errv):
        """a statement that only reports a fatal error (expansion of mjERROR / mju_error call)"""
        if st is None:
            return False
        cs = [c for c in cir.calls(st)]
        if not cs or not any(paths.is_noreturn_call(c, errv) for c in cs):
            return False
        return all(paths.is_noreturn_call(c, errv) or cir.callee(c) in ("snprintf", "mju_message") for c in cs)

    def _stmt(self, st, env, guards, depth, out, errv):
        if st is None:
            return
        k = st.get("k")
        if k == "CompoundStmt":
            # a block that ends in a fatal call is an assertion of the negated guard
            for c in cir.kids(st):
                self._stmt(c, env, guards, depth, out, errv)
            return
        if k == "DeclStmt":
            for d in cir.kids(st):
                if d is not None and d.get("k") == "VarDecl" and d.get("init"):
                    if (d.get("n") or "").startswith("_tm"):
                        continue
                    init = [c for c in cir.kids(d) if c is not None]
                    self._calls_in_expr(init[-1], env, guards, depth, out, errv)
                    v = self.ceval(init[-1], env)
                    if v is not None:
                        env[d.get("n")] = v
            return
        if k == "IfStmt":
            c = list(cir.kids(st))
            idx = int(bool(st.get("hasInit"))) + int(bool(st.get("hasVar")))
            cond, then = c[idx], c[idx + 1]
            els = c[idx + 2] if len(c) > idx + 2 else None
            if els is None and self._is_fatal_block(then, errv):
                out.append(("assert", "!(" + cir.text(cond) + ")", self._g(guards)))
                return
            self._calls_in_expr(cond, env, guards, depth, out, errv)
            v = self.ceval(cond, env)
            if v is not None:
                self._stmt(then if v else els, env, guards, depth, out, errv)
                return
            self._stmt(then, dict(env), guards + tuple(self.atoms(cond, True, env)), depth, out, errv)
            if els is not None:
                self._stmt(els, dict(env), guards + tuple(self.atoms(cond, False, env)), depth, out, errv)
            return
        if k == "SwitchStmt":
            c = [x for x in cir.kids(st) if x is not None]
            cond, body = c[0], c[-1]
            ctext = cir.text(cond)
            cval = self.ceval(cond, env)
            labels = []
            groups = []   # (labels, stmts)

            def add(s):
                if s is None:
                    return
                if s.get("k") == "CaseStmt":
                    labels.append(cir.text(cir.kids(s)[0]))
                    add(cir.kids(s)[-1])
                elif s.get("k") == "DefaultStmt":
                    labels.append("<default>")
                    add(cir.kids(s)[-1])
                else:
                    if labels or not groups:
                        groups.append((list(labels), []))
                        labels.clear()
                    groups[-1][1].append(s)
            for s in cir.kids(body):
                add(s)
            for labs, stmts in groups:
                if cval is not None:
                    vals = [self.enum.get(l) for l in labs if l != "<default>"]
                    known = {self.enum.get(l) for g_ in groups for l in g_[0] if l != "<default>"}
                    take = cval in vals or ("<default>" in labs and cval not in known)
                    if not take:
                        continue
                    g2 = guards
                else:
                    g2 = guards + ((f"{ctext} in {{{','.join(labs)}}}", True),)
                for s in stmts:
                    if s.get("k") == "BreakStmt":
                        break
                    self._stmt(s, dict(env), g2, depth, out, errv)
            return
        if k in ("ForStmt", "WhileStmt", "DoStmt"):
            out.append(("loop", cir.text(cir.kids(st)[2]) if k == "ForStmt" else "loop", self._g(guards)))
            return
        if k == "ReturnStmt":
            c = [x for x in cir.kids(st) if x is not None]
            if c:
                self._calls_in_expr(c[0], env, guards, depth, out, errv)
            out.append(("return", "", self._g(guards)))
            return
        if k in ("NullStmt", "BreakStmt"):
            return
        self._calls_in_expr(st, env, guards, depth, out, errv)


def fmt(ev):
    g = " && ".join((a if p else f"!({a})") for a, p in ev[-1])
    body = " ".join(str(x) for x in ev[1:-1])
    return f"{ev[0]} {body}" + (f"  [if {g}]" if g else "")
