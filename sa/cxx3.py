"""C++ helpers for C37 / C51 (private to these two checkers; does not depend on cxx.py / cxx2.py).

Parts
  FuncIndex        qualified index of every function body of a set of TUs (out-of-line methods get their class from
                   the declarator text, in-class methods / templates from the enclosing record) + header probe
  ClassTable       classes of the repo headers: bases, methods (virtual/static/access/signature)
  Exception flow   which exception types can escape a function: throw expressions, calls (resolved through the
                   index, virtual calls through the class table), try/catch filtering, rethrow; fixpoint
  XExplorer        sa.paths.Explorer with `throw` as a path end (rule.thrown) and catch handlers entered from the
                   states of the try block
  inc tables       token-level reader of generated `T name[] = { {...}, ... };` tables (reformat-proof)
  layout           type/extents of a field designator (a.b[2].c) from clang's record layouts
  locals           definitions of locals, alpha-normalised expression text, provenance helpers
  views            View / CxxInliner: canonical view of a C++ body — helper functions of the TU, members called on `this`
                   and lambdas (generic ones per instantiation) expanded in place (sa.norm.Inliner with a C++ call
                   resolver), nested view (norm.nest) and guard atoms (norm.guards) on top of it
"""
from __future__ import annotations

import os
import re

from . import cfront, cir, paths
from .cfront import AnalysisError

FUNC_KINDS = ("FunctionDecl", "CXXMethodDecl", "CXXConstructorDecl", "CXXDestructorDecl", "CXXConversionDecl")
SCOPE_KINDS = ("NamespaceDecl", "LinkageSpecDecl", "CXXRecordDecl", "ClassTemplateDecl", "FunctionTemplateDecl",
               "ClassTemplateSpecializationDecl", "ClassTemplatePartialSpecializationDecl", "RecordDecl")


# ---------------------------------------------------------------------------------------------------------------
# probes (small generated TUs placed in the cache directory; parsed with the repo's flags)


def probe_tu(name, text):
    """Write (if changed) a probe source into .cache and return its absolute path."""
    os.makedirs(cfront.CACHE, exist_ok=True)
    p = os.path.join(cfront.CACHE, name)
    try:
        old = open(p).read()
    except OSError:
        old = None
    if old != text:
        with open(p, "w") as f:
            f.write(text)
    return p


def headers_of(dirs, repo=None):
    repo = repo or cfront.REPO
    out = []
    for d in dirs:
        full = os.path.join(repo, d)
        if not os.path.isdir(full):
            raise AnalysisError(f"directory {d} vanished")
        for f in sorted(os.listdir(full)):
            if f.endswith(".h"):
                out.append(f"{d}/{f}")
    return out


def load_header_probe(name, headers, repo=None):
    """IR (types=True: records, in-class bodies, templates) of a TU that only includes `headers`."""
    repo = repo or cfront.REPO
    text = "".join(f'#include "{h[4:] if h.startswith("src/") else h}"\n' for h in headers)
    return cfront.load_tu(probe_tu(name, text), repo, lang="cxx", types=True)


# ---------------------------------------------------------------------------------------------------------------
# types


def base_type(t):
    """'const mujoco::user::FilePath &' -> 'FilePath'; 'mjXReader *' -> 'mjXReader'; 'std::vector<int>' -> 'std::vector'."""
    if not t:
        return None
    t = t.replace("(anonymous namespace)::", "")
    t = re.sub(r"\b(const|volatile|struct|class|enum)\b", " ", t)
    t = t.replace("*", " ").replace("&", " ").strip()
    # drop template arguments
    depth = 0
    out = ""
    for ch in t:
        if ch == "<":
            depth += 1
        elif ch == ">":
            depth -= 1
        elif depth == 0:
            out += ch
    t = out.strip()
    if not t:
        return None
    t = t.split()[0] if " " in t else t
    if t.startswith("std::") or t.startswith("__gnu_cxx::") or t.startswith("tinyxml2::"):
        return t
    return t.split("::")[-1]


def exc_type(t):
    """Normalised exception type name of a thrown / caught type."""
    if not t:
        return None
    t = re.sub(r"\b(const|volatile|struct|class)\b", " ", t).replace("&", " ").replace("*", " ").strip()
    t = re.sub(r"\s+", " ", t)
    return t


# ---------------------------------------------------------------------------------------------------------------
# function index

_SRC = {}


def _src(file, repo):
    key = (repo, file)
    if key not in _SRC:
        p = file if file.startswith("/") else os.path.join(repo, file)
        try:
            with open(p, "rb") as f:
                _SRC[key] = f.read()
        except OSError:
            _SRC[key] = b""
    return _SRC[key]


def declarator_class(fn, file, repo):
    """Class qualifier of an out-of-line definition `R C::name(...)`, read from the declarator text."""
    b = cir.body(fn)
    off = fn.get("off")
    if b is None or off is None or not file:
        return None
    end = b.get("off")
    if end is None or end <= off:
        end = fn.get("end") or off
    text = _src(file, repo)[off:end].decode("utf-8", "replace")
    name = fn.get("n") or ""
    m = None
    for m in re.finditer(r"((?:[A-Za-z_]\w*(?:<[^<>()]*>)?\s*::\s*)+)" + re.escape(name) + r"\s*(?:<[^()]*>)?\s*\(", text):
        break
    if not m:
        return None
    parts = [p.strip() for p in m.group(1).split("::") if p.strip()]
    if not parts:
        return None
    return re.sub(r"<.*", "", parts[-1])


class Fn:
    __slots__ = ("qual", "name", "tu", "file", "line", "node", "internal", "sig", "kind")

    def __init__(self, qual, name, tu, file, line, node, internal):
        self.qual = qual
        self.name = name
        self.tu = tu
        self.file = file
        self.line = line
        self.node = node
        self.internal = internal
        self.sig = node.get("t")
        self.kind = node.get("k")

    @property
    def key(self):
        return f"{self.qual}::{self.name}" if self.qual else self.name

    def __repr__(self):
        return f"<Fn {self.key} {self.file}:{self.line}>"


class FuncIndex:
    """All function bodies of some IRs.  by_name[name] -> [Fn]; by_qual[(class, name)] -> [Fn]."""

    def __init__(self, repo=None):
        self.repo = repo or cfront.REPO
        self.fns = []
        self.by_name = {}
        self.by_qual = {}
        self.seen = set()

    def add_ir(self, ir):
        tu = ir["tu"]
        for d in ir["decls"]:
            self._visit(d, d.get("file") or d.get("nfile") or tu, None, False, tu)
        return self

    def _visit(self, d, file, cls, internal, tu):
        if d is None:
            return
        k = d.get("k")
        file = d.get("file") or file
        if k in FUNC_KINDS:
            if cir.body(d) is None:
                return
            q = cls
            if q is None and k != "FunctionDecl":
                q = declarator_class(d, file, self.repo)
            elif q is None and k == "FunctionDecl":
                q = None
            ident = (file, d.get("off"), d.get("n"), d.get("t"))   # template instantiations share the location
            if ident in self.seen:
                return
            self.seen.add(ident)
            d.setdefault("file", file)
            fn = Fn(q, d.get("n"), tu, file, d.get("line"), d,
                    internal or d.get("storageClass") == "static" and k == "FunctionDecl")
            self.fns.append(fn)
            self.by_name.setdefault(fn.name, []).append(fn)
            if q:
                self.by_qual.setdefault((q, fn.name), []).append(fn)
            return
        if k == "NamespaceDecl":
            anon = not d.get("n")
            for c in cir.kids(d):
                self._visit(c, file, cls, internal or anon, tu)
        elif k in ("CXXRecordDecl", "RecordDecl", "ClassTemplateSpecializationDecl",
                   "ClassTemplatePartialSpecializationDecl"):
            name = d.get("n") or cls
            for c in cir.kids(d):
                if c is not None and c.get("k") in FUNC_KINDS + SCOPE_KINDS:
                    self._visit(c, file, name, internal, tu)
        elif k in ("LinkageSpecDecl", "ClassTemplateDecl", "FunctionTemplateDecl"):
            q = cls
            for c in cir.kids(d):
                if c is not None and c.get("k") in FUNC_KINDS + SCOPE_KINDS:
                    if k == "FunctionTemplateDecl" and q is None and c.get("k") != "FunctionDecl":
                        # the pattern comes first: its class qualifier also names the instantiations
                        q = declarator_class(c, file, self.repo)
                    self._visit(c, file, q if k == "FunctionTemplateDecl" else cls, internal, tu)

    # -- lookup
    def lookup(self, qual, name, sig=None, tu=None):
        if qual:
            r = self.by_qual.get((qual, name))
            if r:
                return r
        r = self.by_name.get(name) or []
        if not qual:
            # free function: same-TU internal definitions shadow, otherwise non-internal ones
            free = [f for f in r if f.qual is None or f.kind == "FunctionDecl"]
            same = [f for f in free if f.tu == tu]
            if same:
                return same
            ext = [f for f in free if not f.internal]
            if ext:
                return ext
            if sig:
                m = [f for f in r if f.sig == sig]
                if m:
                    return m
        return []


class ClassTable:
    """Classes of the header probe: bases, methods."""

    def __init__(self, ir):
        self.classes = {}
        for d in ir["decls"]:
            self._visit(d, d.get("file"))
        self.children = {}
        for c, info in self.classes.items():
            for b in info["bases"]:
                self.children.setdefault(b, set()).add(c)

    def _visit(self, d, file):
        if d is None:
            return
        k = d.get("k")
        file = d.get("file") or file
        if k in ("NamespaceDecl", "LinkageSpecDecl", "ClassTemplateDecl"):
            for c in cir.kids(d):
                self._visit(c, file)
        elif k == "CXXRecordDecl" and d.get("completeDefinition") is not False and d.get("n") and cir.kids(d):
            acc = "private" if d.get("tagUsed") == "class" else "public"
            methods = {}
            fields = {}
            for c in cir.kids(d):
                if c is None:
                    continue
                ck = c.get("k")
                if ck == "AccessSpecDecl":
                    acc = c.get("access") or acc
                elif ck in FUNC_KINDS:
                    if c.get("isImplicit"):
                        continue
                    methods.setdefault(c.get("n"), []).append({
                        "sig": c.get("t"), "virtual": bool(c.get("virtual")), "pure": bool(c.get("pure")),
                        "static": c.get("storageClass") == "static", "access": acc, "line": c.get("line"),
                        "params": [p.get("t") for p in cir.params(c)], "kind": ck})
                elif ck == "FieldDecl":
                    fields[c.get("n")] = c.get("t")
                elif ck == "CXXRecordDecl" and cir.kids(c):
                    self._visit(c, file)
            if len(methods) + len(fields) == 0 and d["n"] in self.classes:
                return
            self.classes[d["n"]] = {"bases": [base_type(b) for b in (d.get("bases") or [])], "methods": methods,
                                    "fields": fields, "file": file, "line": d.get("line")}

    def ancestors(self, c):
        out, todo = [], [c]
        while todo:
            x = todo.pop()
            for b in (self.classes.get(x) or {}).get("bases", []):
                if b and b not in out:
                    out.append(b)
                    todo.append(b)
        return out

    def descendants(self, c):
        out, todo = [], [c]
        while todo:
            x = todo.pop()
            for ch in self.children.get(x, ()):
                if ch not in out:
                    out.append(ch)
                    todo.append(ch)
        return out

    def is_virtual(self, c, name):
        for k in [c] + self.ancestors(c):
            for m in (self.classes.get(k) or {}).get("methods", {}).get(name, []):
                if m["virtual"]:
                    return True
        return False


# ---------------------------------------------------------------------------------------------------------------
# call resolution

CTOR_KINDS = ("CXXConstructExpr", "CXXTemporaryObjectExpr")


def nparams(sig):
    """Number of parameters of a function type string, None if variadic/unknown."""
    if not sig or "(" not in sig:
        return None
    depth = 0
    start = None
    for i, ch in enumerate(sig):
        if ch == "(":
            if depth == 0 and start is None:
                start = i
            depth += 1
        elif ch == ")":
            depth -= 1
            if depth == 0 and start is not None:
                inner = sig[start + 1:i].strip()
                break
    else:
        return None
    if inner in ("", "void"):
        return 0
    if inner.endswith("..."):
        return None
    d = 0
    cnt = 1
    for ch in inner:
        if ch in "(<[":
            d += 1
        elif ch in ")>]":
            d -= 1
        elif ch == "," and d == 0:
            cnt += 1
    return cnt


def call_nargs(n):
    k = n.get("k")
    c = cir.kids(n)
    if k in CTOR_KINDS:
        return len(c)
    if k == "CXXOperatorCallExpr":
        return None
    return max(0, len(c) - 1)


def callee_info(n):
    """(kind, name, class_or_None, sig) of a call-like node.  kind in free/method/ctor/indirect."""
    k = n.get("k")
    if k in CTOR_KINDS:
        c = base_type(n.get("t"))
        return ("ctor", c, c, n.get("ctort"))
    if not cir.is_call(n):
        return None
    c = cir.kids(n)
    if not c:
        return None
    f = cir.strip(c[0])
    if f is None:
        return ("indirect", None, None, None)
    fk = f.get("k")
    if fk == "DeclRefExpr":
        r = f.get("ref") or {}
        if r.get("k") == "FunctionDecl":
            return ("free", r.get("n"), None, r.get("t"))
        if r.get("k") in ("CXXMethodDecl", "CXXConversionDecl"):
            cls = None
            if k == "CXXOperatorCallExpr" and len(c) > 1:
                a = cir.strip(c[1])
                cls = base_type(a.get("t")) if a is not None else None
            return ("method", r.get("n"), cls, r.get("t"))
        return ("indirect", r.get("n"), None, r.get("t"))
    if fk == "MemberExpr":
        b = cir.kids(f)
        bt = None
        if b:
            bb = cir.strip(b[0], casts=False)
            bt = base_type(bb.get("t")) if bb is not None else None
        if (f.get("t") or "").startswith("<bound member function type>"):
            return ("method", f.get("n"), bt, None)
        return ("indirect", f.get("n"), bt, f.get("t"))     # call through a function-pointer / functor field
    if fk in ("UnresolvedLookupExpr", "UnresolvedMemberExpr", "CXXDependentScopeMemberExpr", "DependentScopeDeclRefExpr"):
        return ("free", f.get("n"), None, None)
    return ("indirect", None, None, None)


class Resolver:
    def __init__(self, index, classes=None):
        self.index = index
        self.classes = classes

    def targets(self, info, tu=None, nargs=None):
        """List of Fn a call may reach (empty: external / unknown).  Overloads are narrowed by exact signature when
        the call names one (free functions, constructors) and by argument count otherwise (clang materialises default
        arguments, so the count is exact)."""
        r = self._targets(info, tu)
        if len(r) > 1:
            sig = info[3]
            if sig and (info[0] in ("free", "ctor") or (info[0] == "method" and info[2] is None)):
                m = [f for f in r if f.sig == sig]
                if m:
                    return m
            if nargs is not None:
                m = [f for f in r if nparams(f.sig) in (nargs, None)]
                if m:
                    return m
        return r

    def _targets(self, info, tu=None):
        if info is None:
            return []
        kind, name, cls, sig = info
        if name is None:
            return []
        ix = self.index
        if kind == "free":
            return ix.lookup(None, name, sig, tu)
        if kind == "ctor":
            return ix.by_qual.get((cls, name)) or []
        if kind == "method":
            out = []
            if cls and not cls.startswith(("std::", "__gnu_cxx::", "tinyxml2::")):
                ct = self.classes
                chain = [cls] + (ct.ancestors(cls) if ct else [])
                for c in chain:
                    r = ix.by_qual.get((c, name))
                    if r:
                        out.extend(r)
                        break
                if ct and ct.is_virtual(cls, name):
                    for c in ct.descendants(cls):
                        out.extend(ix.by_qual.get((c, name)) or [])
                # a class known neither to the index nor to the header probe is a C struct, a lambda or a
                # third-party type: external
                return out
            if cls is None:
                # static / unqualified member call: the class is not in the pruned node; every method of that name,
                # narrowed by signature / argument count in targets()
                return [f for f in ix.by_name.get(name, []) if f.qual]
            return []
        return []


# ---------------------------------------------------------------------------------------------------------------
# exception flow

# standard-library calls that throw on *data* (not on allocation failure)
STL_THROWERS = {
    # std::sto* throw std::invalid_argument for any non-numeric text: the only possible guard is a handler.
    # (.at()/.substr() throw only when an index precondition fails; deciding those needs value reasoning and is
    # listed under "not decided".)
    "stoi": ("std::invalid_argument", None), "stol": ("std::invalid_argument", None),
    "stoll": ("std::invalid_argument", None), "stoul": ("std::invalid_argument", None),
    "stoull": ("std::invalid_argument", None), "stof": ("std::invalid_argument", None),
    "stod": ("std::invalid_argument", None), "stold": ("std::invalid_argument", None),
}


def catches(handler_t, t):
    """Does `catch (handler_t)` catch an exception of (normalised) type t?  No repo exception class has bases."""
    if handler_t == "...":
        return True
    if handler_t == t:
        return True
    if handler_t == "std::exception" and t.startswith("std::"):
        return True
    if handler_t in ("std::logic_error",) and t in ("std::out_of_range", "std::invalid_argument", "std::length_error",
                                                    "std::domain_error"):
        return True
    if handler_t == "std::runtime_error" and t in ("std::range_error", "std::overflow_error", "std::underflow_error",
                                                   "std::system_error"):
        return True
    return False


def skeleton(fn_node, resolver, tu):
    """Compact throw skeleton of a function body:
       ('seq', [items]) ; ('throw', type|None, line) ; ('call', [target keys], label, line) ; ('stl', type, label, line)
       ('try', body_seq, [(handler_type, handler_seq)], line)
    Only constructs that matter for exception flow are kept."""

    def walk(n):
        out = []
        if n is None:
            return out
        k = n.get("k")
        if k == "CXXTryStmt":
            c = cir.kids(n)
            body = walk(c[0])
            hs = []
            for h in c[1:]:
                hc = cir.kids(h)
                var = hc[0] if hc and hc[0] is not None and hc[0].get("k") == "VarDecl" else None
                ht = "..." if var is None else exc_type(var.get("t"))
                hs.append((ht, walk(hc[-1]) if hc else []))
            out.append(("try", body, hs, n.get("line")))
            return out
        if k == "CXXThrowExpr":
            c = [x for x in cir.kids(n) if x is not None]
            for x in c:
                out.extend(walk(x))
            if c:
                out.append(("throw", exc_type(cir.strip(c[0], casts=False).get("t") or c[0].get("t")), n.get("line")))
            else:
                out.append(("throw", None, n.get("line")))
            return out
        if k in ("UnaryExprOrTypeTraitExpr", "CXXNoexceptExpr", "DecltypeType"):
            return out
        for c in cir.kids(n):
            out.extend(walk(c))
        if cir.is_call(n) or k in CTOR_KINDS:
            info = callee_info(n)
            if info is not None:
                tg = resolver.targets(info, tu, call_nargs(n))
                label = (f"{info[2]}::{info[1]}" if info[2] and info[0] != "ctor" else str(info[1]))
                if tg:
                    out.append(("call", sorted({id(f) for f in tg}), label, n.get("line")))
                elif info[1] == "current_exception":
                    out.append(("capture", n.get("line")))
                elif info[1] == "rethrow_exception":
                    out.append(("rethrow_ptr", n.get("line")))
                else:
                    st = STL_THROWERS.get(info[1]) if info[0] in ("method", "free") else None
                    if st:
                        ty, classes = st
                        if classes is None or (info[2] in classes):
                            out.append(("stl", ty, label, n.get("line")))
        return out

    return walk(cir.body(fn_node))


def _has_capture(items):
    for it in items:
        if it[0] == "capture":
            return True
        if it[0] == "try" and (_has_capture(it[1]) or any(_has_capture(h) for _, h in it[2])):
            return True
    return False


def _esc(items, summ, rethrow, why, fnkey):
    """Types escaping a skeleton sequence.  why[(type)] = first witness (kind, label, line).
    summ['*captured*'] collects the types stored by std::current_exception() in handlers; std::rethrow_exception
    throws that set."""
    out = set()
    for it in items:
        tag = it[0]
        if tag == "capture":
            continue
        if tag == "rethrow_ptr":
            for t in summ.get("*captured*", ()):
                out.add(t)
                why.setdefault(t, ("stl", "std::rethrow_exception", it[1]))
            continue
        if tag == "throw":
            if it[1] is None:
                for t in rethrow:
                    out.add(t)
                    why.setdefault(t, ("rethrow", None, it[2]))
            else:
                out.add(it[1])
                why.setdefault(it[1], ("throw", None, it[2]))
        elif tag == "stl":
            out.add(it[1])
            why.setdefault(it[1], ("stl", it[2], it[3]))
        elif tag == "call":
            for fid in it[1]:
                for t in summ.get(fid, ()):
                    out.add(t)
                    why.setdefault(t, ("call", (fid, it[2]), it[3]))
        elif tag == "try":
            w2 = {}
            b = _esc(it[1], summ, rethrow, w2, fnkey)
            caught_by = {}
            for t in b:
                for i, (ht, _) in enumerate(it[2]):
                    if catches(ht, t):
                        caught_by[t] = i
                        break
                else:
                    out.add(t)
                    why.setdefault(t, w2[t])
            for i, (ht, hseq) in enumerate(it[2]):
                rt = {t for t, j in caught_by.items() if j == i}
                if rt and _has_capture(hseq):
                    cap = summ.setdefault("*captured*", set())
                    if not rt <= cap:
                        cap |= rt
                        summ["*grew*"] = True
                w3 = {}
                for t in _esc(hseq, summ, rt, w3, fnkey):
                    out.add(t)
                    why.setdefault(t, w3.get(t) or w2.get(t))
    return out


class ExcFlow:
    """Escaping exception types of every function of an index (fixpoint over the call graph)."""

    def __init__(self, index, resolver):
        self.index = index
        self.resolver = resolver
        self.skel = {}
        self.byid = {}
        for f in index.fns:
            self.byid[id(f)] = f
            self.skel[id(f)] = skeleton(f.node, resolver, f.tu)
        self.summ = {fid: frozenset() for fid in self.skel}
        self.why = {fid: {} for fid in self.skel}
        self.rounds = 0
        changed = True
        while changed:
            changed = False
            self.rounds += 1
            if self.rounds > 60:
                raise AnalysisError("exception-flow fixpoint did not converge")
            if self.summ.pop("*grew*", False):
                changed = True
            for fid, sk in self.skel.items():
                if not sk:
                    continue
                w = {}
                e = frozenset(_esc(sk, self.summ, (), w, fid))
                if e != self.summ[fid]:
                    # first-discovery witnesses only: the callee of a witness had the type in an earlier state of
                    # the fixpoint, so witness chains are well-founded (no cycles through recursion)
                    for t in e - self.summ[fid]:
                        self.why[fid].setdefault(t, w.get(t))
                    self.summ[fid] = e
                    changed = True

    def escapes(self, fn):
        return self.summ.get(id(fn), frozenset())

    def chain(self, fn, t, limit=12):
        """Witness chain 'F (file:line) -> G (file:line) -> throw T (file:line)'."""
        out = []
        cur = fn
        seen = set()
        while cur is not None and len(out) < limit:
            if id(cur) in seen:
                break
            seen.add(id(cur))
            w = self.why.get(id(cur), {}).get(t)
            if not w:
                break
            kind, payload, line = w
            if kind == "call":
                fid, label = payload
                out.append(f"{cur.key} calls {label} at {cur.file}:{line}")
                cur = self.byid.get(fid)
            elif kind == "throw":
                out.append(f"{cur.key} throws {t} at {cur.file}:{line}")
                break
            elif kind == "stl":
                out.append(f"{cur.key} calls {payload} (throws {t} on bad data) at {cur.file}:{line}")
                break
            else:
                out.append(f"{cur.key} rethrows at {cur.file}:{line}")
                break
        return out

    def origins(self, fns, t, limit=200):
        """Throw sites (file, line, function key) of type t that can reach the callers of `fns` uncaught."""
        seen, out, todo = set(), set(), list(fns)
        while todo and len(out) < limit:
            f = todo.pop()
            if id(f) in seen:
                continue
            seen.add(id(f))

            def rec(items, stack, rethrow):
                for it in items:
                    tag = it[0]
                    if tag == "throw":
                        ty = it[1]
                        if ((ty == t) or (ty is None and t in rethrow)) and uncaught({t}, stack):
                            out.add((f.file, it[2], f.key))
                    elif tag == "stl":
                        if it[1] == t and uncaught({t}, stack):
                            out.add((f.file, it[3], f.key))
                    elif tag == "call":
                        if uncaught({t}, stack):
                            for fid in it[1]:
                                if t in self.summ.get(fid, ()):
                                    todo.append(self.byid[fid])
                    elif tag == "try":
                        rec(it[1], stack + (tuple(h for h, _ in it[2]),), rethrow)
                        for h, hs in it[2]:
                            rec(hs, stack, rethrow | ({t} if catches(h, t) else set()))
            rec(self.skel.get(id(f), []), (), set())
        return sorted(out)

    def sites(self, fn):
        """Flat list of (kind, label, line, types, handler_stack) for the call/throw sites of one function —
        handler_stack is the tuple of handler-type tuples of the enclosing try blocks (outermost first)."""
        out = []

        def rec(items, stack, rethrow):
            for it in items:
                tag = it[0]
                if tag == "throw":
                    out.append(("throw", None, it[2], frozenset(rethrow if it[1] is None else {it[1]}), stack))
                elif tag == "stl":
                    out.append(("stl", it[2], it[3], frozenset({it[1]}), stack))
                elif tag == "call":
                    ts = set()
                    for fid in it[1]:
                        ts |= self.summ.get(fid, frozenset())
                    out.append(("call", it[2], it[3], frozenset(ts), stack))
                elif tag == "try":
                    rec(it[1], stack + (tuple(h for h, _ in it[2]),), rethrow)
                    w = {}
                    b = _esc(it[1], self.summ, rethrow, w, None)
                    for i, (ht, hseq) in enumerate(it[2]):
                        rt = set()
                        for t in b:
                            for j, (h2, _) in enumerate(it[2]):
                                if catches(h2, t):
                                    if j == i:
                                        rt.add(t)
                                    break
                        rec(hseq, stack, rt)
        rec(self.skel.get(id(fn), []), (), ())
        return out


def uncaught(types, stack):
    """Subset of `types` not caught by any handler list of the enclosing try stack."""
    out = set()
    for t in types:
        if not any(catches(h, t) for hs in stack for h in hs):
            out.add(t)
    return out


# ---------------------------------------------------------------------------------------------------------------
# path engine with C++ exceptions


class XRule(paths.Rule):
    def thrown(self, state, node, ctx):
        """A throw expression ends the path (escaping the function or entering a handler)."""


class XExplorer(paths.Explorer):
    """paths.Explorer + `throw` ends the path.  States thrown inside a try block enter its handlers (all of them:
    handler selection by type is not modelled), together with the entry states (a call may throw)."""

    def __init__(self, rule, unit, fn):
        super().__init__(rule, unit, fn)
        self._throw_stack = []

    def expr(self, n, S):
        if n is not None and n.get("k") == "CXXThrowExpr" and S:
            cur = S
            for c in cir.kids(n):
                cur = self.expr(c, cur)
            if self._throw_stack:
                self._throw_stack[-1] |= set(cur)
            else:
                for st, env in cur:
                    self.rule.thrown(st, n, self.ctx)
            return set()
        if n is not None and n.get("k") in ("CXXRewrittenBinaryOperator",):
            cur = S
            for c in cir.kids(n):
                cur = self.expr(c, cur)
            return cur
        return super().expr(n, S)

    def s_CXXTryStmt(self, n, S):
        c = list(cir.kids(n))
        self._throw_stack.append(set())
        r = self.stmt(c[0], S)
        thrown = self._throw_stack.pop()
        res = self._res(r["next"])
        res["break"] |= r["break"]
        res["continue"] |= r["continue"]
        enter = set(S) | r["next"] | thrown
        for h in c[1:]:
            hk = cir.kids(h)
            hb = hk[-1] if hk else None
            rh = self.stmt(hb, set(enter))
            for key in ("next", "break", "continue"):
                res[key] |= rh[key]
        return res


def xexplore(rule, unit, fn):
    return XExplorer(rule, unit, fn).run()


# ---------------------------------------------------------------------------------------------------------------
# generated tables as data

_TOK = re.compile(r"""
    (?P<ws>\s+|//[^\n]*|/\*.*?\*/)
  | (?P<str>"(?:[^"\\\n]|\\.)*")
  | (?P<chr>'(?:[^'\\\n]|\\.)*')
  | (?P<num>(?:0[xX][0-9a-fA-F]+|\d+\.?\d*(?:[eE][+-]?\d+)?|\.\d+(?:[eE][+-]?\d+)?)[uUlLfF]*)
  | (?P<id>[A-Za-z_]\w*)
  | (?P<op>::|->|<<|>>|[{}()\[\];,=<>*&|+\-/%!~?:.\#])
""", re.X | re.S)


def tokenize(text):
    """[(kind, text, offset)] without whitespace/comments/preprocessor lines."""
    out = []
    pos = 0
    n = len(text)
    bol = True
    while pos < n:
        if bol:
            m = re.compile(r"[ \t]*#[^\n]*(?:\\\n[^\n]*)*").match(text, pos)
            if m:
                pos = m.end()
                bol = False
                continue
        m = _TOK.match(text, pos)
        if not m:
            raise AnalysisError(f"cannot tokenise generated table at offset {pos}: {text[pos:pos + 30]!r}")
        kind = m.lastgroup
        if kind == "ws":
            if "\n" in m.group():
                bol = True
        else:
            bol = False
            out.append((kind, m.group(), pos))
        pos = m.end()
    return out


def _split_commas(toks):
    """Split a token list at top-level commas."""
    out, cur, depth = [], [], 0
    for t in toks:
        if t[1] in "({[":
            depth += 1
        elif t[1] in ")}]":
            depth -= 1
        if t[1] == "," and depth == 0:
            out.append(cur)
            cur = []
        else:
            cur.append(t)
    if cur:
        out.append(cur)
    return out


def parse_tables(text, elem_type):
    """{array_name: [row]} for every `... elem_type name[] = { {..}, {..} };` of a generated .inc file.
    row = {'cells': [token lists], 'off': offset of the row's opening brace}."""
    toks = tokenize(text)
    tables = {}
    i = 0
    n = len(toks)
    while i < n:
        if toks[i][1] == elem_type and i + 5 < n and toks[i + 1][0] == "id" and toks[i + 2][1] == "[":
            name = toks[i + 1][1]
            j = i + 2
            while j < n and toks[j][1] != "=" and toks[j][1] != ";":
                j += 1
            if j < n and toks[j][1] == "=" and j + 1 < n and toks[j + 1][1] == "{":
                # find matching brace
                depth = 0
                k = j + 1
                while k < n:
                    if toks[k][1] == "{":
                        depth += 1
                    elif toks[k][1] == "}":
                        depth -= 1
                        if depth == 0:
                            break
                    k += 1
                if k >= n:
                    raise AnalysisError(f"unterminated initialiser of table {name}")
                inner = toks[j + 2:k]
                rows = []
                for cell in _split_commas(inner):
                    if not cell:
                        continue
                    if cell[0][1] != "{" or cell[-1][1] != "}":
                        raise AnalysisError(f"table {name}: row is not a braced initialiser")
                    rows.append({"cells": _split_commas(cell[1:-1]), "off": cell[0][2]})
                if name in tables:
                    raise AnalysisError(f"table {name} defined twice")
                tables[name] = rows
                i = k
        i += 1
    return tables


def parse_offsetof(toks):
    """`(int)offsetof(S, a.b[2])` / `(int)__builtin_offsetof(S, a)` / `-1`  ->  (S, designator) | None (for -1)."""
    txt = [t[1] for t in toks]
    if txt == ["-", "1"]:
        return None
    # strip a leading cast
    i = 0
    if txt and txt[0] == "(":
        d = 0
        for j, x in enumerate(txt):
            if x == "(":
                d += 1
            elif x == ")":
                d -= 1
                if d == 0:
                    # cast only if followed by more tokens and the parenthesised part is a type name
                    if j + 1 < len(txt) and all(re.fullmatch(r"[A-Za-z_]\w*|::", y) for y in txt[1:j]):
                        i = j + 1
                    break
    rest = txt[i:]
    if len(rest) < 6 or rest[0] not in ("offsetof", "__builtin_offsetof") or rest[1] != "(" or rest[-1] != ")":
        raise AnalysisError(f"offset cell is not offsetof(...): {' '.join(txt)}")
    inner = rest[2:-1]
    if "," not in inner:
        raise AnalysisError(f"offsetof without member: {' '.join(txt)}")
    c = inner.index(",")
    struct = "".join(x for x in inner[:c] if x not in ("struct",))
    desig = "".join(inner[c + 1:])
    return struct, desig


def line_of(text, off):
    return text.count("\n", 0, off) + 1


# ---------------------------------------------------------------------------------------------------------------
# struct layout from clang records


class Layout:
    """Field types of the C structs of the public headers, from the header probe of sa.ctypeinfo (same cached IR).
    Nested unnamed structs are keyed by (file, line) of their definition, as clang spells them in the field type."""

    def __init__(self, repo=None):
        from . import ctypeinfo
        repo = repo or cfront.REPO
        ir = cfront.load_tu(ctypeinfo._probe_path(), repo, lang="c", types=True)
        self.records = {}       # tag or (file, line) -> [(name, type, desugared)]
        self.typedefs = {}
        for d in ir["decls"]:
            self._visit(d, d.get("file"))
        if "mjModel_" not in self.records:
            raise AnalysisError("struct mjModel_ not found in the header probe")

    def _visit(self, d, file):
        if d is None:
            return
        k = d.get("k")
        file = d.get("file") or file
        if k == "RecordDecl" and d.get("completeDefinition"):
            fields = []
            for c in cir.kids(d):
                if c is None:
                    continue
                if c.get("k") == "FieldDecl":
                    fields.append((c.get("n"), c.get("t"), c.get("dt") or c.get("t")))
                elif c.get("k") == "RecordDecl":
                    self._visit(c, file)
            if d.get("n"):
                self.records[d["n"]] = fields
            self.records[(file, d.get("line"))] = fields
        elif k == "TypedefDecl":
            self.typedefs[d.get("n")] = d.get("t")
        elif k == "LinkageSpecDecl":
            for c in cir.kids(d):
                self._visit(c, file)

    def record(self, name):
        """Fields of a struct named by tag, typedef or clang's spelling of an unnamed struct."""
        if not name:
            return None
        name = name.strip()
        m = re.search(r"\(unnamed (?:struct )?at ([^:()]+):(\d+):\d+\)", name)
        if m:
            return self.records.get((m.group(1), int(m.group(2))))
        name = re.sub(r"^(const\s+)?struct\s+", "", name).strip()
        if name in self.records:
            return self.records[name]
        t = self.typedefs.get(name)
        if t:
            m = re.fullmatch(r"struct (\w+)", t)
            if m and m.group(1) in self.records:
                return self.records[m.group(1)]
            if "unnamed" in t:
                return self.record(t)
        return None

    def resolve_scalar(self, t):
        """Follow typedefs of a scalar type to its canonical spelling ('enum X' for enums)."""
        t = re.sub(r"\bconst\b", "", t).strip()
        for _ in range(10):
            nt = self.typedefs.get(t)
            if nt is None or nt == t or nt.startswith("struct "):
                break
            t = nt.strip()
        return t

    def field_type(self, struct, desig):
        """Type string of S.designator (a.b[2].c); arrays keep their extents ('double[3]'); None if no such member."""
        rec = self.record(struct)
        if rec is None:
            raise AnalysisError(f"struct {struct} of a table row not found in the headers")
        parts = re.findall(r"[A-Za-z_]\w*|\[\s*\d+\s*\]", desig)
        if "".join(p.replace(" ", "") for p in parts) != desig.replace(" ", "").replace(".", ""):
            raise AnalysisError(f"unsupported designator {desig!r}")
        cur_t = None
        for p in parts:
            if p.startswith("["):
                m = re.fullmatch(r"(.*?)\[(\d+)\]((?:\[\d+\])*)", cur_t or "")
                if not m or int(p.strip("[] ")) >= int(m.group(2)):
                    return None
                cur_t = (m.group(1) + m.group(3)).strip()
                rec = self.record(cur_t)
                continue
            if rec is None:
                return None
            f = next((f for f in rec if f[0] == p), None)
            if f is None:
                return None
            cur_t = f[1]
            rec = self.record(re.sub(r"(\[\d+\])+$", "", cur_t).strip())
        return cur_t


def split_array(t):
    """'double[3][2]' -> ('double', [3, 2]); 'mjString *' -> ('mjString *', [])."""
    m = re.match(r"^(.*?)((?:\[\d+\])*)$", t.strip())
    base = m.group(1).strip()
    dims = [int(x) for x in re.findall(r"\[(\d+)\]", m.group(2))]
    return base, dims


# ---------------------------------------------------------------------------------------------------------------
# locals


def local_defs(fn):
    """{decl id: [defining expression nodes]} for locals/params: VarDecl inits and plain assignments
    (compound assignments and ++/-- are recorded as ('step', node))."""
    defs = {}
    for n in cir.walk(fn):
        k = n.get("k")
        if k == "VarDecl" and n.get("id"):
            init = [c for c in cir.kids(n) if c is not None and not (c.get("k") or "").endswith("Attr")]
            defs.setdefault(n["id"], [])
            if init:
                defs[n["id"]].append(init[-1])
        elif k == "BinaryOperator" and n.get("op") == "=":
            l = cir.strip(cir.kids(n)[0])
            if l is not None and l.get("k") == "DeclRefExpr":
                defs.setdefault((l.get("ref") or {}).get("id"), []).append(cir.kids(n)[1])
    return defs


def decl_nodes(fn):
    out = {}
    for n in cir.walk(fn):
        if n.get("k") in ("VarDecl", "ParmVarDecl") and n.get("id"):
            out[n["id"]] = n
    return out


def alpha_text(n, decls):
    """Canonical text with locals/params replaced by placeholders $1,$2.. (by first occurrence, with their type)."""
    order = {}

    def sub(x):
        k = x.get("k")
        if k == "DeclRefExpr":
            r = x.get("ref") or {}
            if r.get("k") in ("VarDecl", "ParmVarDecl") and r.get("id") in decls:
                if r["id"] not in order:
                    order[r["id"]] = f"${len(order) + 1}:{base_type(r.get('t')) or r.get('t')}"
                return {"k": "DeclRefExpr", "ref": {"n": order[r["id"]], "k": "VarDecl"}}
            return x
        c = x.get("i")
        if not c:
            return x
        y = dict(x)
        y["i"] = [sub(z) if z is not None else None for z in c]
        return y
    return cir.text(sub(n))


def member_chain(n):
    """['config_', 'i_max'] for this->config_.i_max ; ['state', 'integral'] for state.integral; None otherwise."""
    n = cir.strip(n)
    out = []
    while n is not None:
        k = n.get("k")
        if k == "MemberExpr":
            out.append(n.get("n"))
            c = cir.kids(n)
            n = cir.strip(c[0]) if c else None
            continue
        if k == "DeclRefExpr":
            out.append((n.get("ref") or {}).get("n"))
            break
        if k == "CXXThisExpr":
            break
        return None
    return list(reversed(out))


def mentions_member(n, name):
    for x in cir.walk(n):
        if x.get("k") == "MemberExpr" and x.get("n") == name:
            return True
    return False


def optional_test(cond):
    """If `cond` tests an std::optional (x.has_value(), bool(x), x != nullopt) return the member chain of x."""
    s = cir.strip(cond)
    if s is None:
        return None
    if s.get("k") == "CXXMemberCallExpr":
        f = cir.strip(cir.kids(s)[0])
        if f is not None and f.get("k") == "MemberExpr" and f.get("n") in ("has_value", "operator bool"):
            obj = cir.kids(f)[0] if cir.kids(f) else None
            if obj is not None and "optional" in (cir.strip(obj, casts=False).get("t") or ""):
                return member_chain(obj)
    return None


def optional_deref(n):
    """member chain of x for `*x` / `x.value()` on an optional, else None."""
    s = cir.strip(n)
    if s is None:
        return None
    if s.get("k") == "CXXOperatorCallExpr":
        c = cir.kids(s)
        f = cir.strip(c[0]) if c else None
        if f is not None and (f.get("ref") or {}).get("n") == "operator*" and len(c) == 2:
            if "optional" in (cir.strip(c[1], casts=False).get("t") or ""):
                return member_chain(c[1])
    if s.get("k") == "CXXMemberCallExpr":
        f = cir.strip(cir.kids(s)[0])
        if f is not None and f.get("k") == "MemberExpr" and f.get("n") == "value":
            obj = cir.kids(f)[0] if cir.kids(f) else None
            if obj is not None and "optional" in (cir.strip(obj, casts=False).get("t") or ""):
                return member_chain(obj)
    return None


# ---------------------------------------------------------------------------------------------------------------
# canonical views of C++ bodies: same-TU helpers, own-class methods called on `this` and lambdas are analysed inside
# their callers (sa.norm.Inliner with a C++ call resolver).  A rule that runs on a view decides on what the code does:
# whether a loop is written out seventeen times or driven by one lambda, whether a clip sits in the method or in a helper
# the value flows through, makes no difference to it.

_EXPLICIT_CASTS = ("CStyleCastExpr", "CXXStaticCastExpr", "CXXReinterpretCastExpr", "CXXFunctionalCastExpr",
                   "CXXConstCastExpr")


def nested_functions(root):
    """Function-like declarations with a body strictly inside `root`: operator() of lambdas (for a generic lambda: the
    pattern and every instantiation), methods of local classes."""
    out = []
    stack = [c for c in cir.kids(root) if c]
    while stack:
        x = stack.pop()
        if not x:
            continue
        if x.get("k") in FUNC_KINDS and cir.body(x) is not None:
            out.append(x)
        c = x.get("i")
        if c:
            stack.extend(c)
    return out


def walk_outer(n):
    """Preorder over the part of a body that executes when control passes through it: bodies of lambdas and local
    classes are left out (they run when called)."""
    stack = [n]
    while stack:
        x = stack.pop()
        if not x:
            continue
        yield x
        if x.get("k") == "LambdaExpr" or (x.get("k") in FUNC_KINDS + ("CXXRecordDecl",) and x is not n):
            continue
        c = x.get("i")
        if c:
            stack.extend(reversed(c))


def lambda_captures(lam):
    """[(captured decl id | 'this', by_copy)] of a LambdaExpr: capture fields of the closure class paired with the
    capture initialisers."""
    kids_ = [c for c in cir.kids(lam) if c is not None]
    rec = next((c for c in kids_ if c.get("k") == "CXXRecordDecl"), None)
    fields = [c for c in cir.kids(rec) if c is not None and c.get("k") == "FieldDecl"] if rec else []
    inits = [c for c in kids_ if c.get("k") not in ("CXXRecordDecl", "CompoundStmt")]
    out = []
    for i, e in enumerate(inits):
        s = cir.strip(e)
        ft = (fields[i].get("t") or "") if i < len(fields) else ""
        by_copy = not ft.rstrip().endswith("&")
        if s is not None and s.get("k") == "CXXThisExpr":
            out.append(("this", False))
        elif s is not None and s.get("k") == "DeclRefExpr":
            out.append(((s.get("ref") or {}).get("id"), by_copy))
        else:
            out.append((None, by_copy))         # init-capture `[x = expr]`
    return out


def _alias_arg(a):
    """The lvalue a reference parameter is bound to, or None when the argument is a temporary / converted value."""
    n = a
    while n is not None and n.get("k") in cir.TRANSPARENT:
        if n["k"] in ("MaterializeTemporaryExpr", "CXXBindTemporaryExpr") + _EXPLICIT_CASTS:
            return None
        if n["k"] == "ImplicitCastExpr" and n.get("ck") not in ("NoOp", "DerivedToBase", "UncheckedDerivedToBase", None):
            return None
        c = [x for x in cir.kids(n) if x is not None]
        if not c:
            return None
        n = c[0]
    if n is None:
        return None
    if n.get("k") in ("DeclRefExpr", "MemberExpr", "ArraySubscriptExpr") or \
            (n.get("k") == "UnaryOperator" and n.get("op") == "*"):
        return n
    return None


class _NoUnit:
    def __init__(self, tu):
        self.tu = tu
        self.funcs = {}


def _make_inliner():
    from . import norm

    class CxxInliner(norm.Inliner):
        """norm.Inliner for C++: callees are resolved through declaration ids (functions and static methods of the TU,
        methods called on `this`, operator() of lambdas — also generic ones, per instantiation).  `pred(h)` chooses the
        helpers, `exclude` names the anchors of the rule that must stay calls.  Reference parameters bound to an
        lvalue are aliases (substituted); locals of an inlined body get fresh declaration ids per inlining, so that two
        expansions of one helper do not share variables."""

        def __init__(self, fns, tu, depth=6, pred=None, exclude=()):
            super().__init__(_NoUnit(tu), depth=depth, pred=pred or (lambda h: True), exclude=exclude)
            self.bodies = {}
            self.lambda_ids = set()
            self._norm = {}
            self._seen_nested = set()
            self._fresh = 0
            for f in fns:
                self._add(f)

        # -- registry
        def _add(self, node, lam=False):
            for key in (node.get("id"), node.get("prev")):
                if key:
                    self.bodies.setdefault(key, node)
            if lam and node.get("id"):
                self.lambda_ids.add(node["id"])

        def register_nested(self, fn):
            if id(fn) in self._seen_nested:
                return
            self._seen_nested.add(id(fn))
            unsafe = set()
            changed = norm.modified_vars(fn)
            for x in cir.walk(fn):
                if x.get("k") != "LambdaExpr":
                    continue
                caps = lambda_captures(x)
                bad = any(by_copy and (vid is None or vid in changed) for vid, by_copy in caps if vid != "this")
                if bad:
                    # a by-copy capture of a variable that changes later: the body sees the old value — not followed
                    for g in nested_functions(x):
                        unsafe.add(id(g))
            for g in nested_functions(fn):
                if id(g) in unsafe:
                    continue
                if g.get("n") == "operator()":
                    g = dict(g, n=f"<lambda:{g.get('line')}>", islambda=True)
                    self._add(g, lam=True)
                else:
                    self._add(g)

        # -- lambda calls `f(a, b)` are CXXOperatorCallExpr(operator(), f, a, b): drop the closure object, so that
        #    arguments and parameters line up like for any other call
        def normalise(self, n):
            if not isinstance(n, dict):
                return n
            out = {k: v for k, v in n.items() if k != "i"}
            if "i" in n:
                out["i"] = [self.normalise(c) if c is not None else None for c in n["i"]]
            if out.get("k") == "CXXOperatorCallExpr" and len(out.get("i") or ()) >= 2:
                f = cir.strip(out["i"][0])
                if f is not None and f.get("k") == "DeclRefExpr" and (f.get("ref") or {}).get("n") == "operator()" and \
                        (f.get("ref") or {}).get("id") in self.lambda_ids:
                    obj = cir.strip(out["i"][1], casts=False)
                    if obj is not None and obj.get("k") in ("DeclRefExpr", "LambdaExpr"):
                        out["k"] = "CallExpr"
                        out["lam"] = True
                        out["i"] = [out["i"][0]] + out["i"][2:]
            return out

        def target(self, call):
            """The function node (normalised) a call reaches, or None."""
            k = call.get("k")
            c = cir.kids(call)
            if not c:
                return None
            f = cir.strip(c[0])
            h = None
            if f is None:
                return None
            if k == "CallExpr" and f.get("k") == "DeclRefExpr":
                r = f.get("ref") or {}
                if r.get("k") in ("FunctionDecl", "CXXMethodDecl"):
                    h = self.bodies.get(r.get("id"))
            elif k == "CXXMemberCallExpr" and f.get("k") == "MemberExpr" and f.get("mid"):
                b = cir.kids(f)
                base = cir.strip(b[0]) if b else None
                if base is not None and base.get("k") == "CXXThisExpr":
                    h = self.bodies.get(f.get("mid"))
            if h is None:
                return None
            key = id(h)
            if key not in self._norm:
                self.register_nested(h)
                self._norm[key] = (h, self.normalise(h))
            return self._norm[key][1]

        def helper(self, call, stack):
            h = self.target(call)
            if h is None or h.get("variadic"):
                return None
            name = h.get("n")
            if not name or name in self.exclude or name in stack:
                return None
            if not (h.get("islambda") or self.pred(h)):
                return None
            if len(cir.params(h)) != len(cir.args(call)):
                return None
            return h

        def _bind(self, h, call):
            mapping, pro = super()._bind(h, call)
            mod = norm.modified_vars(cir.body(h))
            keep = []
            for st in pro:
                d = cir.kids(st)[0]
                t = (d.get("t") or "").rstrip()
                a = cir.kids(d)[0]
                tgt = _alias_arg(a) if (t.endswith("&") and not t.endswith("&&")) else None
                if tgt is not None and cir.is_pure(tgt) and not any(
                        x.get("k") == "DeclRefExpr" and (x.get("ref") or {}).get("id") in mod for x in cir.walk(tgt)):
                    mapping[d.get("id")] = tgt
                else:
                    keep.append(st)
            if len(keep) != len(pro):
                return mapping, keep
            return mapping, pro

        def _inline(self, h, call, mode, target, stack, depth):
            out = super()._inline(h, call, mode, target, stack, depth)
            self._fresh += 1
            return [_fresh_ids(b, f"#{self._fresh}") for b in out]

        def expand(self, fn):
            self.register_nested(fn)
            return super().expand(self.normalise(fn))

    return CxxInliner


def _fresh_ids(block, tag):
    """Rename the declaration ids of the variables declared inside an inlined block (not those a lambda inside the
    block refers to: its body is looked up in the original tree)."""
    declared = {x.get("id") for x in cir.walk(block) if x.get("k") == "VarDecl" and x.get("id")}
    if not declared:
        return block
    held = set()
    for x in cir.walk(block):
        if x.get("k") == "LambdaExpr":
            for y in cir.walk(x):
                if y.get("k") == "DeclRefExpr":
                    held.add((y.get("ref") or {}).get("id"))
    ren = {i: f"{i}{tag}" for i in declared - held}
    if not ren:
        return block

    def rec(n):
        if not isinstance(n, dict):
            return n
        out = {k: v for k, v in n.items() if k != "i"}
        if out.get("k") == "VarDecl" and out.get("id") in ren:
            out["id"] = ren[out["id"]]
        elif out.get("k") == "DeclRefExpr" and (out.get("ref") or {}).get("id") in ren:
            out["ref"] = dict(out["ref"], id=ren[out["ref"]["id"]])
        if out.get("decl_init") in ren:
            out["decl_init"] = ren[out["decl_init"]]
        if "i" in n:
            out["i"] = [rec(c) if c is not None else None for c in n["i"]]
        return out
    return rec(block)


class View:
    """Canonical view of one function: `fn` (helpers / lambdas inlined), `nested` (early exits folded into if/else, lazily),
    `inlined` (names), and the inliner for follow-up questions about what was left as a call."""

    def __init__(self, fn_node, fns, tu, pred=None, exclude=(), depth=6):
        self.orig = fn_node
        self.inliner = _make_inliner()(fns, tu, depth=depth, pred=pred, exclude=exclude)
        self.fn = self.inliner.expand(fn_node)
        self.fn.setdefault("file", fn_node.get("file"))
        self.inlined = sorted({h for _c, h, _l in self.inliner.inlined})
        self._nested = None

    @property
    def nested(self):
        if self._nested is None:
            from . import norm
            self._nested = norm.nest(self.fn)
        return self._nested

    def residual_targets(self, root=None):
        """[(call node, target function node)] for the calls left in the view whose callee has a body the inliner
        knows (a helper or lambda of the TU that was *not* expanded at that site)."""
        out = []
        for x in walk_outer(root if root is not None else self.fn):
            if cir.is_call(x):
                h = self.inliner.target(x)
                if h is not None:
                    out.append((x, h))
        return out

    def reaches(self, call_or_fn, pred_node, seen=None):
        """Does the body a residual call reaches contain (transitively, through calls the inliner can resolve) a node
        for which pred_node holds?"""
        seen = seen if seen is not None else set()
        h = self.inliner.target(call_or_fn) if cir.is_call(call_or_fn) else call_or_fn
        if h is None or id(h) in seen:
            return False
        seen.add(id(h))
        for x in cir.walk(cir.body(h)):
            if pred_node(x):
                return True
            if cir.is_call(x) and self.reaches(x, pred_node, seen):
                return True
        return False


def guard_atoms(view_nested, node, decls=None):
    """Guard of `node` in a nested view as a tuple of (alpha-normalised condition text, polarity): atoms contributed by
    if statements, `?:`, `&&`, `||` (loop conditions are left out: an index loop and a range-for guard alike)."""
    from . import norm
    g = norm.guards(view_nested, node, stmts=True)
    if g is None:
        return None
    out = []
    for cond, pol, st in g:
        if st is not None and st.get("k") != "IfStmt":
            continue
        out.append((alpha_text(cir.strip(cond), decls or {}), pol))
    return tuple(out)


# ---------------------------------------------------------------------------------------------------------------
# self-test driver (scratch copies of the repository, anchored text edits)


def run_mutants(pid, res, mutants, parts=("include", "src", "cmake", "CMakeLists.txt", "plugin")):
    """mutants: dicts {id, group, edits: [(file, old, new[, count])], expect: (rule, construct substring) | None}.
    All mutants of a group are applied to one scratch copy (they touch different constructs) and the check is run once
    per group.  A must-fire mutant has to add a (rule, construct) report that the unmutated tree does not have; a
    group of controls (expect None) has to reproduce exactly the unmutated set of reports."""
    from . import scratch
    base = {(v["rule"], v["construct"]) for v in res.violations}
    groups = {}
    for m in mutants:
        groups.setdefault(m.get("group", m["id"]), []).append(m)
    res.rule("SELFTEST", "scratch-copy mutants are reported naming the construct; controls reproduce the unmutated "
             "result exactly", floor=0)
    summary, bad = {}, []
    for g, ms in sorted(groups.items()):
        with scratch.scratch(list(parts)) as root:
            stale = []
            for m in ms:
                for e in m["edits"]:
                    try:
                        scratch.edit(root, e[0], e[1], e[2], e[3] if len(e) > 3 else 1)
                    except RuntimeError:
                        stale.append(m["id"])
            rc, out = scratch.run_check(pid, root)
        got = set()
        for line in out.splitlines():
            mm = re.search(r"rule=(\S+) construct=(\S+)", line)
            if mm and not line.startswith("NOTE"):
                got.add((mm.group(1), mm.group(2).rstrip(":")))
        controls = [m for m in ms if m["expect"] is None]
        if rc == 2 and "clang could not parse" in out:
            # a mutant that no longer compiles is stale, not "refused": it would hide every other mutant of its group
            bad.append((g, "a mutant of this group does not compile (stale edit)", out[out.find("clang could not parse"):][:300]))
            for m in ms:
                summary[m["id"]] = "does-not-compile"
            continue
        for m in ms:
            if m["id"] in stale:
                if m.get("fixes"):
                    summary[m["id"]] = "fix-in-tree"
                    res.ok("SELFTEST", m["id"], {"status": "fix already in tree"})
                    continue
                summary[m["id"]] = "stale"
                bad.append((m["id"], "stale anchor", ""))
                continue
            if m["expect"] is None:
                continue
            if rc == 2:
                summary[m["id"]] = "refused"
                res.ok("SELFTEST", m["id"], {"status": "refused (analysis error, fail-closed)"})
                continue
            hit = [x for x in got - base if x[0] == m["expect"][0] and m["expect"][1] in x[1]]
            if hit:
                summary[m["id"]] = "fired"
                res.ok("SELFTEST", m["id"], {"status": "fired", "report": list(hit[0])})
            else:
                summary[m["id"]] = "missed"
                bad.append((m["id"], "missed", f"new reports: {sorted(got - base)[:6]}"))
        if controls and len(controls) == len(ms):
            # a control may be a *fix*: the listed (rule, construct substring) reports must disappear, nothing else change
            fixes = [f for m in controls for f in m.get("fixes", ()) if m["id"] not in stale]
            if not fixes and all(m.get("fixes") for m in controls):
                continue
            want = {b for b in base if not any(b[0] == f[0] and f[1] in b[1] for f in fixes)}
            # (when the repair has since been committed to the tree the control must simply leave the result unchanged)
            if rc == 2:
                for m in controls:
                    summary[m["id"]] = "control-refused"
                bad.append((g, "control group refused", out[-300:]))
            elif got == want:
                for m in controls:
                    summary[m["id"]] = "silent"
                    res.ok("SELFTEST", m["id"], {"status": "silent"})
            else:
                for m in controls:
                    summary[m["id"]] = "control-fired"
                bad.append((g, "control group changed the result",
                            f"extra={sorted(got - want)[:5]} missing={sorted(want - got)[:5]}"))
    res.extra["selftest"] = summary
    if bad:
        raise AnalysisError("checker self-test failed: " + "; ".join(f"{m}: {s} [{d[:300]}]" for m, s, d in bad))
    return summary
