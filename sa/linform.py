"""Linear forms over symbolic atoms: an abstract domain for 'the amount tested equals the amount consumed' rules.

linform(expr, defs) -> {atom_text: integer coefficient, "1": constant}; locals with a single definition (defs: name ->
initialiser node) are substituted; anything non-linear (bit operations, calls, ?:, products of two non-constants)
becomes an opaque atom named by its canonical text.
"""
from __future__ import annotations

from . import cir


def _add(a, b, k=1):
    out = dict(a)
    for t, c in b.items():
        out[t] = out.get(t, 0) + k * c
        if out[t] == 0:
            del out[t]
    return out


def linform(n, defs=None, _depth=0):
    defs = defs or {}
    n = cir.strip(n)
    if n is None:
        return {}
    k = n.get("k")
    if k == "IntegerLiteral":
        try:
            v = int(str(n.get("v")), 0)
        except ValueError:
            return {cir.text(n): 1}
        return {"1": v} if v else {}
    if k == "DeclRefExpr":
        name = (n.get("ref") or {}).get("n")
        if name in defs and _depth < 6:
            return linform(defs[name], defs, _depth + 1)
        return {name: 1}
    if k == "UnaryOperator" and n.get("op") in ("-", "+"):
        f = linform(cir.kids(n)[0], defs, _depth)
        return f if n.get("op") == "+" else {t: -c for t, c in f.items()}
    if k == "BinaryOperator" and n.get("op") in ("+", "-"):
        a = linform(cir.kids(n)[0], defs, _depth)
        b = linform(cir.kids(n)[1], defs, _depth)
        return _add(a, b, 1 if n.get("op") == "+" else -1)
    if k == "BinaryOperator" and n.get("op") == "*":
        a = linform(cir.kids(n)[0], defs, _depth)
        b = linform(cir.kids(n)[1], defs, _depth)
        for x, y in ((a, b), (b, a)):
            if set(x) <= {"1"}:
                c = x.get("1", 0)
                return {t: c * v for t, v in y.items() if c * v}
        return {cir.text(n): 1}
    if k == "CallExpr" and cir.callee(n) == "__builtin_expect":
        return linform(cir.args(n)[0], defs, _depth)
    return {cir.text(n): 1}


def single_defs(fn):
    """locals of fn with an initialiser that are never reassigned and whose initialiser is not a conditional"""
    assigned = set()
    for n in cir.walk(fn):
        if (n.get("k") == "BinaryOperator" and n.get("op") == "=") or n.get("k") == "CompoundAssignOperator" or \
                (n.get("k") == "UnaryOperator" and n.get("op") in ("++", "--")):
            t = cir.strip(cir.kids(n)[0])
            if t is not None and t.get("k") == "DeclRefExpr":
                assigned.add((t.get("ref") or {}).get("n"))
    out = {}
    for n in cir.walk(fn):
        if n.get("k") == "VarDecl" and n.get("init") and n.get("n") not in assigned:
            init = [c for c in cir.kids(n) if c is not None][-1]
            s = cir.strip(init)
            if s is not None and s.get("k") not in ("ConditionalOperator", "CallExpr", "AtomicExpr"):
                out[n.get("n")] = init
    return out


def fmt(f):
    return " + ".join(f"{c}*{t}" if t != "1" else str(c) for t, c in sorted(f.items())) or "0"


def relation(cond, pol=True, defs=None):
    """(form, strict) such that `form > 0` (strict) or `form >= 0` holds when the comparison `cond` has truth value pol;
    None for anything that is not an ordering comparison."""
    n = cir.strip(cond)
    if n is None or n.get("k") != "BinaryOperator" or n.get("op") not in ("<", "<=", ">", ">="):
        return None
    a = linform(cir.kids(n)[0], defs)
    b = linform(cir.kids(n)[1], defs)
    op = n.get("op")
    if not pol:
        op = {"<": ">=", "<=": ">", ">": "<=", ">=": "<"}[op]
    if op in (">", ">="):
        return _add(a, b, -1), op == ">"
    return _add(b, a, -1), op == "<"
