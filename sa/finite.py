"""Finite evaluation of C expressions / small functions from the pruned clang AST (R-FINITE, R-CMP).

Nothing is compiled or run: `Interp` is an abstract interpreter over the IR of `cfront`.  Its inputs are *keys*:
the memory cells a function reads through its parameters (`c1->geom[0]`, `context->geom_type[1]`, `i[0]`) and
free scalars (parameters and locals that are not defined in the evaluated region).  Keys are discovered lazily:
reading a key that has no value raises `NeedKey`, and `leaves()` re-runs the evaluation once per value of the
key's finite domain.  The domains are chosen so that every order type of the keys (and of the literals they are
compared with) is realised:

    integers        -1, 0, 1           (sentinel / equal / greater; casts to unsigned see a negative value)
    floating point  0.0, 1.0, NaN      (NaN wherever the expression can see one; callers may restrict)
    booleans        0, 1

so the truth table of a comparison-only expression over the domain is its truth table over all inputs.  Keys are
rooted in parameter names and model field names, never in the names of locals: renaming locals, rewriting
`a <= 0` as `!(a > 0)`, reordering independent statements or extracting a helper leave every table unchanged.

Pointers are symbolic (`Ptr(key, offset)`); `p->f` is the cell `key->f`, `p[i]` the cell `key[i]`; a cell of
pointer or array type evaluates to the pointer named after the cell, so `m->geom_type[g]` is the cell
`m->geom_type[<value of g>]`.

Helpers built on the interpreter:
    leaves(run, domain)                       all (inputs, result) pairs of a lazily enumerated evaluation
    eval_expr(unit, expr, env, terms)         one evaluation; `terms` binds opaque sub-expressions by canonical text
    truth_table(unit, expr)                   table of an expression over the finite domain of everything it reads
    comparator_report(unit, fn)               R-CMP: antisymmetry (and transitivity for small comparators)
    conjuncts / disjuncts / enclosing         small structural helpers shared by c14 / c16 / c22
"""
from __future__ import annotations

import math
import re

from . import cir
from .cfront import AnalysisError

NAN = float("nan")
INT_DOMAIN = (-1, 0, 1)
FLOAT_DOMAIN = (0.0, 1.0, NAN)
BOOL_DOMAIN = (0, 1)

_FLOAT_T = ("double", "float", "mjtNum", "long double")
_UNSIGNED32 = ("unsigned int", "unsigned", "uint32_t", "mjtSize32")
_SIGNED32 = ("int", "int32_t")


class NeedKey(Exception):
    def __init__(self, key, ctype):
        Exception.__init__(self, key)
        self.key = key
        self.ctype = ctype or "int"


class Unsupported(AnalysisError):
    """The interpreter met a construct outside its fragment: the caller's rule cannot be decided."""


class Ptr:
    __slots__ = ("key", "off")

    def __init__(self, key, off=0):
        self.key = key
        self.off = off

    def __eq__(self, o):
        return isinstance(o, Ptr) and o.key == self.key and o.off == self.off

    def __ne__(self, o):
        return not self.__eq__(o)

    def __hash__(self):
        return hash((self.key, self.off))

    def __repr__(self):
        return f"&{self.key}[{self.off}]" if self.off else f"&{self.key}"

    def cell(self, idx=0):
        return f"{self.key}[{self.off + idx}]"


NULL = Ptr(None, 0)


def is_float_type(t):
    t = (t or "").replace("const ", "").strip()
    return t in _FLOAT_T


def is_pointer_type(t):
    t = (t or "").strip()
    while True:
        for q in ("const", "restrict", "__restrict", "volatile"):
            if t.endswith(q) and (len(t) == len(q) or not (t[-len(q) - 1].isalnum() or t[-len(q) - 1] == "_")):
                t = t[:-len(q)].rstrip()
                break
        else:
            break
    return t.endswith("*") or t.endswith("]") or "(*)" in t


def base_type(t):
    return (t or "").replace("const ", "").replace("volatile ", "").strip()


def default_domain(key, ctype):
    t = base_type(ctype)
    if t.startswith("ptr:"):
        return (NULL, Ptr(t[4:], 0))
    if key.startswith("call:"):
        return (0.0, 1.0) if is_float_type(t) else BOOL_DOMAIN
    if is_float_type(t):
        return FLOAT_DOMAIN
    if t in ("mjtBool", "mjtByte", "_Bool", "unsigned char", "bool"):
        return BOOL_DOMAIN
    return INT_DOMAIN


def _wrap(v, t):
    """Reduce an integer result to the range of the C type `t` (32-bit int / unsigned)."""
    if not isinstance(v, int) or isinstance(v, bool):
        return v
    t = base_type(t)
    if t in _UNSIGNED32:
        return v & 0xFFFFFFFF
    if t in _SIGNED32:
        v &= 0xFFFFFFFF
        return v - (1 << 32) if v & 0x80000000 else v
    if t in ("unsigned long", "size_t", "unsigned long long", "uint64_t"):
        return v & 0xFFFFFFFFFFFFFFFF
    if t in ("unsigned char", "mjtByte", "uint8_t"):
        return v & 0xFF
    return v


class _Return(Exception):
    def __init__(self, v):
        self.v = v


class _Break(Exception):
    pass


class _Continue(Exception):
    pass


class Interp:
    """Abstract interpreter for one evaluation.

    env      key -> value of the inputs chosen so far (missing: NeedKey)
    terms    canonical expression text -> value: sub-expressions treated as opaque inputs (checked first)
    call_abs callable(name, call_node, interp) -> value | NotImplemented for calls that are not interpreted
    inline   names of unit functions whose bodies may be interpreted (None: every function of the unit)
    """

    def __init__(self, unit, env=None, terms=None, call_abs=None, inline=None, max_steps=200000, enum=None):
        self.unit = unit
        self.env = env if env is not None else {}
        self.terms = terms or {}
        self.call_abs = call_abs
        self.inline = inline
        self.steps = 0
        self.max_steps = max_steps
        self.frames = []
        self.enum = enum
        self.abstract_calls = False     # True: calls that are not interpreted are inputs `call:<text>` in {0, 1}
        self.abstract_once = False      # True: each dynamic occurrence of such a call is a separate input
        self.read = []       # keys read, in order
        self.trace = []      # (callee name or text, call node, result) of abstracted calls, in order

    # ------------------------------------------------------------------ inputs
    def input(self, key, ctype):
        if key in self.env:
            if key not in self.read:
                self.read.append(key)
            return self.env[key]
        raise NeedKey(key, ctype)

    def tick(self, n):
        self.steps += 1
        if self.steps > self.max_steps:
            raise Unsupported(f"evaluation does not terminate within {self.max_steps} steps at line {n.get('line')}")

    # ------------------------------------------------------------------ functions
    def call_function(self, fn, argvals):
        frame = {}
        ps = cir.params(fn)
        if len(ps) != len(argvals):
            raise Unsupported(f"arity mismatch calling {fn.get('n')}")
        for p, v in zip(ps, argvals):
            frame[p.get("id")] = v
        self.frames.append(frame)
        try:
            self.stmt(cir.body(fn))
            return None
        except _Return as r:
            return r.v
        finally:
            self.frames.pop()

    def run_function(self, fn, bind=None):
        """Call `fn` with symbolic arguments: pointer parameters point to cells named after the parameter,
        scalar parameters are inputs named after the parameter.  `bind` overrides by parameter name."""
        bind = bind or {}
        args = []
        for p in cir.params(fn):
            name = p.get("n")
            if name in bind:
                args.append(bind[name])
            elif is_pointer_type(p.get("dt") or p.get("t")):
                args.append(Ptr(name, 0))
            else:
                args.append(_LazyScalar(name, p.get("dt") or p.get("t")))
        return self.call_function(fn, args)

    # ------------------------------------------------------------------ statements
    def stmt(self, n):
        if n is None:
            return
        self.tick(n)
        k = n.get("k")
        if k == "CompoundStmt":
            for c in cir.kids(n):
                self.stmt(c)
        elif k == "DeclStmt":
            for d in cir.kids(n):
                if d is not None and d.get("k") == "VarDecl":
                    init = [c for c in cir.kids(d) if c is not None and not c.get("k", "").endswith("Attr")]
                    if init and d.get("init"):
                        self.frames[-1][d.get("id")] = self._coerce(self.rvalue(init[-1]), d.get("dt") or d.get("t"))
                    else:
                        self.frames[-1][d.get("id")] = _UNINIT
        elif k == "IfStmt":
            c = list(cir.kids(n))
            idx = 0
            if n.get("hasInit"):
                self.stmt(c[0])
                idx = 1
            if n.get("hasVar"):
                self.stmt(c[idx])
                idx += 1
            if self.truth(self.rvalue(c[idx])):
                self.stmt(c[idx + 1] if len(c) > idx + 1 else None)
            elif len(c) > idx + 2:
                self.stmt(c[idx + 2])
        elif k == "ReturnStmt":
            c = [x for x in cir.kids(n) if x is not None]
            raise _Return(self.rvalue(c[0]) if c else None)
        elif k in ("ForStmt", "WhileStmt", "DoStmt"):
            self._loop(n)
        elif k == "BreakStmt":
            raise _Break()
        elif k == "ContinueStmt":
            raise _Continue()
        elif k == "NullStmt":
            pass
        elif k == "SwitchStmt":
            self._switch(n)
        elif k in ("CaseStmt", "DefaultStmt"):
            self.stmt(cir.kids(n)[-1])
        elif k == "AttributedStmt":
            c = [x for x in cir.kids(n) if x is not None and not x.get("k", "").endswith("Attr")]
            if c:
                self.stmt(c[-1])
        elif k.endswith("Stmt"):
            raise Unsupported(f"statement {k} at line {n.get('line')}")
        else:
            self.rvalue(n)

    def _loop(self, n):
        k = n.get("k")
        c = list(cir.kids(n))
        if k == "ForStmt":
            c = c + [None] * (5 - len(c))
            init, _v, cond, inc, body = c[:5]
            self.stmt(init)
        elif k == "WhileStmt":
            init, cond, inc, body = None, c[0], None, c[-1]
        else:
            init, cond, inc, body = None, c[1], None, c[0]
        first = (k == "DoStmt")
        while True:
            self.tick(n)
            if not first and cond is not None and not self.truth(self.rvalue(cond)):
                break
            first = False
            try:
                self.stmt(body)
            except _Break:
                break
            except _Continue:
                pass
            if inc is not None:
                self.rvalue(inc)

    def _switch(self, n):
        c = [x for x in cir.kids(n) if x is not None]
        v = self.rvalue(c[0])
        body = c[-1]
        flat = []

        def add(st):
            if st is None:
                return
            if st.get("k") == "CaseStmt":
                flat.append(("case", cir.kids(st)[0]))
                add(cir.kids(st)[-1])
            elif st.get("k") == "DefaultStmt":
                flat.append(("default", None))
                add(cir.kids(st)[-1])
            else:
                flat.append(("stmt", st))
        for st in (cir.kids(body) if body.get("k") == "CompoundStmt" else [body]):
            add(st)
        start = None
        for i, (t, x) in enumerate(flat):
            if t == "case" and self.rvalue(x) == v:
                start = i
                break
        if start is None:
            for i, (t, x) in enumerate(flat):
                if t == "default":
                    start = i
                    break
        if start is None:
            return
        try:
            for t, x in flat[start:]:
                if t == "stmt":
                    self.stmt(x)
        except _Break:
            pass

    # ------------------------------------------------------------------ expressions
    @staticmethod
    def truth(v):
        if isinstance(v, Ptr):
            return v.key is not None
        if v is _UNINIT:
            raise Unsupported("branch on an uninitialised local")
        if isinstance(v, _LazyScalar):
            raise Unsupported("unresolved scalar")
        return bool(v)          # NaN is true in C as in Python

    def _coerce(self, v, t):
        if isinstance(v, _LazyScalar):
            v = self.input(v.key, v.ctype)
        if isinstance(v, Ptr) or v is _UNINIT or v is None:
            return v
        t = base_type(t)
        if is_float_type(t):
            return float(v)
        if isinstance(v, float) and not is_pointer_type(t) and t:
            if math.isnan(v) or math.isinf(v):
                raise Unsupported("conversion of NaN/inf to an integer type")
            return _wrap(int(v), t)
        return _wrap(v, t) if isinstance(v, int) else v

    def lookup(self, ref):
        rid = ref.get("id")
        for fr in (self.frames[-1],) if self.frames else ():
            if rid in fr:
                v = fr[rid]
                if isinstance(v, _LazyScalar):
                    v = self.input(v.key, v.ctype)
                    fr[rid] = v
                return v
        return _MISSING

    def location(self, n):
        """('var', id, node) | ('mem', key, ctype) for an lvalue expression."""
        n = cir.strip(n, casts=False)
        k = n.get("k")
        if k == "DeclRefExpr":
            r = n.get("ref") or {}
            if r.get("k") == "VarDecl" and not any(r.get("id") in fr for fr in self.frames[-1:]) \
                    and r.get("n") in (self.unit.vars if self.unit else ()):
                return ("mem", r.get("n"), n.get("dt") or n.get("t") or r.get("t"))     # file-scope variable
            return ("var", r.get("id"), n)
        if k == "MemberExpr":
            base = cir.kids(n)[0]
            if n.get("arrow"):
                p = self.rvalue(base)
                if not isinstance(p, Ptr) or p.key is None:
                    raise Unsupported(f"-> on a non-symbolic pointer at line {n.get('line')}")
                root = p.key if p.off == 0 else p.cell()
                return ("mem", f"{root}->{n.get('n')}", n.get("dt") or n.get("t"))
            loc = self.location(base)
            if loc[0] != "mem":
                raise Unsupported(f"member of a local aggregate at line {n.get('line')}")
            return ("mem", f"{loc[1]}.{n.get('n')}", n.get("dt") or n.get("t"))
        if k == "ArraySubscriptExpr":
            a, b = cir.kids(n)
            p = self.rvalue(a)
            i = self.rvalue(b)
            if isinstance(i, Ptr):
                p, i = i, p
            if not isinstance(p, Ptr) or p.key is None or not isinstance(i, int):
                raise Unsupported(f"subscript of a non-symbolic pointer at line {n.get('line')}")
            return ("mem", p.cell(i), n.get("dt") or n.get("t"))
        if k == "UnaryOperator" and n.get("op") == "*":
            p = self.rvalue(cir.kids(n)[0])
            if not isinstance(p, Ptr) or p.key is None:
                raise Unsupported(f"* of a non-symbolic pointer at line {n.get('line')}")
            return ("mem", p.cell(0), n.get("dt") or n.get("t"))
        raise Unsupported(f"lvalue {k} at line {n.get('line')}")

    def load(self, loc):
        if loc[0] == "var":
            v = self.lookup(loc[2]["ref"])
            if v is _MISSING:
                r = loc[2]["ref"]
                if r.get("k") == "EnumConstantDecl":
                    return self._enum(r.get("n"))
                if r.get("k") == "FunctionDecl":
                    return Ptr("fn:" + str(r.get("n")), 0)
                t = loc[2].get("dt") or loc[2].get("t") or r.get("t")
                if is_pointer_type(t):
                    return Ptr(r.get("n"), 0)
                return self.input(r.get("n"), t)       # free scalar: an input named after the variable
            if v is _UNINIT:
                raise Unsupported(f"read of uninitialised local {loc[2]['ref'].get('n')}")
            return v
        _, key, t = loc
        if is_pointer_type(t):
            if self.unit is not None and key in self.unit.vars and not (t or "").rstrip().endswith("]"):
                return self.input(key, "ptr:" + key)          # a global pointer (callback): NULL or set
            return Ptr(key, 0)
        return self.input(key, t)

    def store(self, loc, v):
        if loc[0] == "var":
            rid = loc[1]
            self.frames[-1][rid] = self._coerce(v, loc[2].get("dt") or loc[2].get("t"))
            return
        raise Unsupported(f"store to input memory {loc[1]} (the evaluated function is not pure)")

    def _enum(self, name):
        if self.enum is None:
            from . import ctypeinfo
            self.enum = ctypeinfo.load()["enumerators"]
        if name in self.enum:
            return self.enum[name]
        # enumerators of enums local to the TU
        for e in self.unit.enums.values() if self.unit else ():
            nxt = 0
            for c in cir.kids(e):
                if c is None or c.get("k") != "EnumConstantDecl":
                    continue
                if c.get("n") == name:
                    return nxt
                nxt += 1
        raise Unsupported(f"unknown enumerator {name}")

    def rvalue(self, n):
        self.tick(n)
        if self.terms:
            s = cir.strip(n)
            if s is not None and s.get("k") not in ("IntegerLiteral", "FloatingLiteral"):
                t = cir.text(s)
                if t in self.terms:
                    return self.terms[t]
        k = n.get("k")
        if k == "ImplicitCastExpr" or k == "CStyleCastExpr":
            return self._cast(n)
        if k in ("ParenExpr", "ConstantExpr"):
            return self.rvalue(cir.kids(n)[0])
        if k == "IntegerLiteral":
            return _wrap(int(str(n.get("v")), 0), n.get("t"))
        if k == "FloatingLiteral":
            return float(n.get("v"))
        if k == "CharacterLiteral":
            return int(n.get("v"))
        if k in ("DeclRefExpr", "MemberExpr", "ArraySubscriptExpr"):
            t = n.get("dt") or n.get("t") or ""
            if k == "DeclRefExpr" and (n.get("ref") or {}).get("k") in ("EnumConstantDecl", "FunctionDecl"):
                return self.load(("var", None, n))
            loc = self.location(n)
            if t.endswith("]"):          # array lvalue: decays to the pointer named after the cell
                if loc[0] == "mem":
                    return Ptr(loc[1], 0)
                raise Unsupported(f"local array at line {n.get('line')}")
            return self.load(loc)
        if k == "UnaryOperator":
            return self._unary(n)
        if k == "BinaryOperator":
            return self._binary(n)
        if k == "CompoundAssignOperator":
            loc = self.location(cir.kids(n)[0])
            a = self.load(loc)
            b = self.rvalue(cir.kids(n)[1])
            v = self._arith(n.get("op")[:-1], a, b, n)
            self.store(loc, v)
            return self.load(loc)
        if k == "ConditionalOperator":
            c = cir.kids(n)
            return self.rvalue(c[1]) if self.truth(self.rvalue(c[0])) else self.rvalue(c[2])
        if k == "CallExpr":
            return self._call(n)
        if k == "UnaryExprOrTypeTraitExpr":
            return _SizeOf(n.get("argt") or cir.text(n))
        if k in ("GNUNullExpr",):
            return NULL
        raise Unsupported(f"expression {k} at line {n.get('line')}")

    def _cast(self, n):
        ck = n.get("ck")
        inner = cir.kids(n)[0]
        if ck == "LValueToRValue":
            return self.rvalue(inner)
        if ck == "ArrayToPointerDecay":
            s = cir.strip(inner, casts=False)
            if s.get("k") == "StringLiteral":
                return Ptr("str:" + str(s.get("v")), 0)
            loc = self.location(inner)
            if loc[0] == "mem":
                return Ptr(loc[1], 0)
            raise Unsupported(f"local array at line {n.get('line')}")
        if ck == "FunctionToPointerDecay":
            s = cir.strip(inner)
            return Ptr("fn:" + str((s.get("ref") or {}).get("n")), 0)
        if ck == "NullToPointer":
            return NULL
        v = self.rvalue(inner)
        if ck in ("IntegralCast", "FloatingToIntegral", "IntegralToFloating", "FloatingCast", "IntegralToBoolean",
                  "FloatingToBoolean"):
            return self._coerce(v, n.get("dt") or n.get("t"))
        if ck == "PointerToBoolean":
            return int(self.truth(v))
        if ck in ("BitCast", "NoOp", "ToVoid", None):
            if ck is None and not isinstance(v, Ptr):
                return self._coerce(v, n.get("dt") or n.get("t"))
            return v
        if ck == "IntegralToPointer":
            return NULL if v == 0 else Ptr(f"int:{v}", 0)
        raise Unsupported(f"cast {ck} at line {n.get('line')}")

    def _unary(self, n):
        op = n.get("op")
        x = cir.kids(n)[0]
        if op == "!":
            return int(not self.truth(self.rvalue(x)))
        if op in ("++", "--"):
            loc = self.location(x)
            old = self.load(loc)
            new = self._arith("+" if op == "++" else "-", old, 1, n)
            self.store(loc, new)
            return old if n.get("isPostfix") else self.load(loc)
        if op == "*":
            t = n.get("dt") or n.get("t") or ""
            return self.load(self.location(n))
        if op == "&":
            loc = self.location(x)
            if loc[0] == "mem":
                m = re.fullmatch(r"(.*)\[(-?\d+)\]", loc[1])
                if m:
                    return Ptr(m.group(1), int(m.group(2)))
                return Ptr(loc[1], 0)
            raise Unsupported(f"address of a local at line {n.get('line')}")
        v = self.rvalue(x)
        if op == "-":
            return _wrap(-v, n.get("t"))
        if op == "+":
            return v
        if op == "~":
            return _wrap(~v, n.get("t"))
        raise Unsupported(f"unary {op}")

    def _binary(self, n):
        op = n.get("op")
        a, b = cir.kids(n)
        if op == "&&":
            return int(self.truth(self.rvalue(a)) and self.truth(self.rvalue(b)))
        if op == "||":
            return int(self.truth(self.rvalue(a)) or self.truth(self.rvalue(b)))
        if op == ",":
            self.rvalue(a)
            return self.rvalue(b)
        if op == "=":
            loc = self.location(a)
            v = self.rvalue(b)
            self.store(loc, v)
            return self.load(loc)
        x = self.rvalue(a)
        y = self.rvalue(b)
        return self._arith(op, x, y, n)

    def _arith(self, op, x, y, n):
        if x is _UNINIT or y is _UNINIT:
            raise Unsupported(f"arithmetic on an uninitialised local at line {n.get('line')}")
        if isinstance(x, Ptr) or isinstance(y, Ptr):
            if op in ("==", "!="):
                return int((x == y) if op == "==" else (x != y))
            if op == "+" and isinstance(y, int):
                return Ptr(x.key, x.off + y)
            if op == "+" and isinstance(x, int):
                return Ptr(y.key, y.off + x)
            if op == "-" and isinstance(y, int):
                return Ptr(x.key, x.off - y)
            if op == "-" and isinstance(x, Ptr) and isinstance(y, Ptr) and x.key == y.key:
                return x.off - y.off
            raise Unsupported(f"pointer arithmetic {op} at line {n.get('line')}")
        if isinstance(x, _SizeOf) or isinstance(y, _SizeOf):
            if op == "*":
                s, v = (x, y) if isinstance(x, _SizeOf) else (y, x)
                return _Bytes(v, s.what)
            raise Unsupported("sizeof arithmetic")
        if op in ("<", ">", "<=", ">=", "==", "!="):
            return int({"<": x < y, ">": x > y, "<=": x <= y, ">=": x >= y, "==": x == y, "!=": x != y}[op])
        t = n.get("t")
        try:
            if op == "+":
                v = x + y
            elif op == "-":
                v = x - y
            elif op == "*":
                v = x * y
            elif op == "/":
                if isinstance(x, float) or isinstance(y, float):
                    v = (x / y) if y != 0 else (NAN if (x == 0 or x != x) else math.copysign(math.inf, x) * (1 if y == 0 else 1))
                else:
                    if y == 0:
                        raise Unsupported("integer division by zero")
                    v = abs(x) // abs(y) * (1 if (x >= 0) == (y >= 0) else -1)
            elif op == "%":
                if y == 0:
                    raise Unsupported("integer modulo by zero")
                v = abs(x) % abs(y) * (1 if x >= 0 else -1)
            elif op == "&":
                v = x & y
            elif op == "|":
                v = x | y
            elif op == "^":
                v = x ^ y
            elif op == "<<":
                v = x << y
            elif op == ">>":
                v = x >> y
            else:
                raise Unsupported(f"operator {op}")
        except TypeError:
            raise Unsupported(f"operator {op} on {type(x).__name__}/{type(y).__name__} at line {n.get('line')}")
        return _wrap(v, t)

    def _call(self, n):
        name = cir.callee(n)
        if self.call_abs is not None:
            r = self.call_abs(name, n, self)
            if r is not NotImplemented:
                return r
        if name == "__builtin_expect":
            return self.rvalue(cir.args(n)[0])
        fn = self.unit.funcs.get(name) if (self.unit and name) else None
        if fn is not None and (self.inline is None or name in self.inline) and len(self.frames) < 6:
            argv = [self.rvalue(a) for a in cir.args(n)]
            return self._coerce(self.call_function(fn, argv), n.get("dt") or n.get("t"))
        if self.abstract_calls:
            # an uninterpreted call is a fresh input (its arguments are not evaluated: they are texts)
            key = "call:" + cir.text(n)
            if self.abstract_once:
                key += f"#{sum(1 for t in self.trace if t[1] is n)}"
            v = self.input(key, n.get("dt") or n.get("t"))
            self.trace.append((name or cir.text(cir.callee_expr(n)), n, v))
            return v
        raise Unsupported(f"call of {name or cir.text(n)} at line {n.get('line')} is not in the finite fragment")


class _LazyScalar:
    __slots__ = ("key", "ctype")

    def __init__(self, key, ctype):
        self.key = key
        self.ctype = ctype


class _SizeOf:
    __slots__ = ("what",)

    def __init__(self, what):
        self.what = what


class _Bytes:
    """n * sizeof(T): the value of a byte count, kept as (element count, element type)."""
    __slots__ = ("count", "what")

    def __init__(self, count, what):
        self.count = count
        self.what = what


_UNINIT = object()
_MISSING = object()


# ------------------------------------------------------------------------------------------------------------
# lazy exhaustive enumeration


def leaves(run, domain=default_domain, start=None, limit=400000):
    """All completed evaluations of `run(env)`.

    run(env) -> result; it raises NeedKey for an input it needs.  Yields (env, result) where env holds exactly
    the inputs the evaluation read.  Every assignment of the domain values to the inputs extends exactly one
    yielded env, so a check over the yielded leaves is a check over the whole finite domain.
    """
    stack = [dict(start or {})]
    count = 0
    while stack:
        env = stack.pop()
        try:
            r = run(env)
        except NeedKey as nk:
            dom = domain(nk.key, nk.ctype)
            for v in reversed(tuple(dom)):
                e = dict(env)
                e[nk.key] = v
                stack.append(e)
            continue
        count += 1
        if count > limit:
            raise AnalysisError(f"finite evaluation exceeds {limit} leaves")
        yield env, r


def eval_expr(unit, expr, env=None, terms=None, call_abs=None, inline=None):
    """Evaluate one expression with free variables as inputs (NeedKey when an input is missing)."""
    it = Interp(unit, env=env or {}, terms=terms, call_abs=call_abs, inline=inline)
    it.frames.append({})
    return it.rvalue(expr)


def truth_table(unit, expr, domain=default_domain, call_abs=None, inline=None):
    """[(env, value)] of an expression over the finite domain of everything it reads."""
    def run(env):
        return eval_expr(unit, expr, env=env, call_abs=call_abs, inline=inline)
    return list(leaves(run, domain))


def is_nan(v):
    return isinstance(v, float) and v != v


def sign(v):
    return (v > 0) - (v < 0)


def fmt_env(env):
    return ", ".join(f"{k}={'NaN' if is_nan(v) else v}" for k, v in env.items())


# ------------------------------------------------------------------------------------------------------------
# R-CMP


def _swap_key(key, a, b):
    for x, y in ((a, b), (b, a)):
        if key == x or (key.startswith(x) and not (key[len(x)].isalnum() or key[len(x)] == "_")):
            return y + key[len(x):]
    return key


def comparator_report(unit, fn, domain=default_domain, trans_limit=30000):
    """Decide antisymmetry of a three-way comparator `int cmp(T* a, T* b, ctx)` by exhaustive finite evaluation.

    Returns dict(leaves=..., ordered=[violations], nan=[violations on inputs containing NaN], transitive=..).
    A violation is (env, r, env_swapped, r_swapped [, kind]).
    """
    ps = cir.params(fn)
    if len(ps) < 2:
        raise AnalysisError(f"comparator {fn.get('n')}: fewer than two parameters")
    a, b = ps[0].get("n"), ps[1].get("n")
    inline = {fn.get("n")}

    def run(env):
        it = Interp(unit, env=env, inline=inline)
        return it.run_function(fn)

    out = {"leaves": 0, "ordered": [], "nan": [], "pairs": 0, "keys": set(), "results": set(), "float_keys": set()}
    for env, r in leaves(run, domain):
        out["leaves"] += 1
        if not isinstance(r, int):
            raise AnalysisError(f"comparator {fn.get('n')} returns a non-integer value on {fmt_env(env)}")
        out["results"].add(sign(r))
        out["keys"].update(env)
        swapped = {_swap_key(k, a, b): v for k, v in env.items()}
        for env2, r2 in leaves(run, domain, start=swapped):
            out["pairs"] += 1
            if sign(r2) != -sign(r):
                back = {_swap_key(k, a, b): v for k, v in env2.items()}
                rec = (back, r, env2, r2)
                if any(is_nan(v) for v in env2.values()):
                    out["nan"].append(rec)
                else:
                    out["ordered"].append(rec)
    # transitivity over complete element valuations (for every valuation of the context cells), when small enough
    out["transitive"] = None
    elem_suffix = set()
    ctx_keys = set()
    for k in out["keys"]:
        s = _suffix(k, a, b)
        if s is None:
            ctx_keys.add(k)
        else:
            elem_suffix.add(s)
    out["elem_keys"] = sorted(elem_suffix)
    out["ctx_keys"] = sorted(ctx_keys)
    if elem_suffix and out["leaves"] <= 400:
        types = {}

        def probe(env):
            try:
                run(env)
            except NeedKey as nk:
                types[nk.key] = nk.ctype
                for v in domain(nk.key, nk.ctype):
                    e = dict(env)
                    e[nk.key] = v
                    probe(e)
        probe({})

        def ordered(dom):
            return tuple(v for v in dom if not is_nan(v))
        suffixes = sorted(elem_suffix)
        doms = [ordered(domain(a + s, types.get(a + s) or types.get(b + s) or "int")) for s in suffixes]
        elems = [()]
        for d in doms:
            elems = [e + (v,) for e in elems for v in d]
        ckeys = sorted(ctx_keys)
        ctxs = [()]
        for k in ckeys:
            ctxs = [c + (v,) for c in ctxs for v in ordered(domain(k, types.get(k, "int")))]
        if len(ctxs) * len(elems) ** 3 <= trans_limit:
            bad = []
            for cv in ctxs:
                base = dict(zip(ckeys, cv))

                def cmpv(x, y):
                    env = dict(base)
                    for s, v in zip(suffixes, x):
                        env[a + s] = v
                    for s, v in zip(suffixes, y):
                        env[b + s] = v
                    return sign(run(env))
                tab = {(x, y): cmpv(x, y) for x in elems for y in elems}
                for x in elems:
                    if tab[(x, x)] != 0:
                        bad.append(("cmp(x, x) != 0", x, x, x))
                    for y in elems:
                        for z in elems:
                            if tab[(x, y)] < 0 and tab[(y, z)] < 0 and not tab[(x, z)] < 0:
                                bad.append(("transitivity of <", x, y, z))
                            if tab[(x, y)] == 0 and tab[(y, z)] == 0 and tab[(x, z)] != 0:
                                bad.append(("transitivity of ==", x, y, z))
                if bad:
                    break
            out["transitive"] = {"elements": len(elems), "contexts": len(ctxs), "violations": bad[:3], "suffixes": suffixes}
    return out


def _suffix(key, a, b):
    for x in (a, b):
        if key == x:
            return ""
        if key.startswith(x) and not (key[len(x)].isalnum() or key[len(x)] == "_"):
            return key[len(x):]
    return None


# ------------------------------------------------------------------------------------------------------------
# structural helpers


def conjuncts(n):
    """Flatten `a && b && c` (through parentheses) into [a, b, c]."""
    s = cir.strip(n, casts=False)
    if s is not None and s.get("k") == "BinaryOperator" and s.get("op") == "&&":
        a, b = cir.kids(s)
        return conjuncts(a) + conjuncts(b)
    return [n]


def disjuncts(n):
    s = cir.strip(n, casts=False)
    if s is not None and s.get("k") == "BinaryOperator" and s.get("op") == "||":
        a, b = cir.kids(s)
        return disjuncts(a) + disjuncts(b)
    return [n]


def parents(root):
    """id(node) -> parent node for a subtree."""
    par = {}
    stack = [root]
    while stack:
        x = stack.pop()
        for c in cir.kids(x):
            if c is not None:
                par[id(c)] = x
                stack.append(c)
    return par


def if_parts(n):
    """(cond, then, else) of an IfStmt."""
    c = list(cir.kids(n))
    idx = int(bool(n.get("hasInit"))) + int(bool(n.get("hasVar")))
    return c[idx], (c[idx + 1] if len(c) > idx + 1 else None), (c[idx + 2] if len(c) > idx + 2 else None)


def contains(root, node):
    if root is None:
        return False
    for x in cir.walk(root):
        if x is node:
            return True
    return False


def assigned_vars(n):
    """names of variables assigned (=, op=, ++/--) inside a subtree, with the assigning nodes."""
    out = []
    for x in cir.walk(n):
        k = x.get("k")
        if (k == "BinaryOperator" and x.get("op") == "=") or k == "CompoundAssignOperator" or \
                (k == "UnaryOperator" and x.get("op") in ("++", "--")):
            t = cir.strip(cir.kids(x)[0])
            if t is not None and t.get("k") == "DeclRefExpr":
                out.append(((t.get("ref") or {}).get("n"), x))
        elif k == "VarDecl" and x.get("init"):
            out.append((x.get("n"), x))
    return out


def refs(n, kinds=("VarDecl", "ParmVarDecl")):
    out = []
    for x in cir.walk(n):
        if x.get("k") == "DeclRefExpr" and (x.get("ref") or {}).get("k") in kinds:
            out.append(x["ref"])
    return out


def ref_ids(n):
    return {r.get("id") for r in refs(n)}


def macro_name_at(fn, repo=None):
    """The identifier spelled at the expansion location of a macro-generated declaration."""
    import os
    from .cfront import REPO
    f = fn.get("file")
    off, end = fn.get("off"), fn.get("end")
    if f is None or off is None:
        return None
    try:
        with open(os.path.join(repo or REPO, f), "rb") as fh:
            fh.seek(off)
            data = fh.read(64)
    except OSError:
        return None
    m = re.match(rb"[A-Za-z_][A-Za-z0-9_]*", data)
    return m.group(0).decode() if m else None
