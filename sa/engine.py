"""Whole-engine conveniences: TU sets, parallel per-TU analysis."""
from __future__ import annotations

import concurrent.futures as cf
import importlib
import os

from . import cfront, cir
from .cfront import AnalysisError, REPO


def engine_tus(repo=REPO):
    return cfront.engine_c_tus(repo)


def unit(tu, repo=REPO, **kw):
    return cir.Unit(cfront.load_tu(tu, repo, **kw))


def _worker(args):
    modname, funcname, tu, repo, extra = args
    try:
        mod = importlib.import_module(modname)
        u = cir.Unit(cfront.load_tu(tu, repo))
        return tu, getattr(mod, funcname)(u, *extra), None
    except AnalysisError as e:
        return tu, None, f"{e}"
    except Exception as e:  # pragma: no cover
        import traceback
        return tu, None, "internal error: " + traceback.format_exc()


def map_tus(modname, funcname, tus, repo=REPO, extra=(), jobs=None):
    """Run `modname.funcname(Unit, *extra)` for every TU in worker processes.

    Results must be small and picklable.  Any failing TU is an AnalysisError.
    """
    tus = list(tus)
    # parse what is not cached yet first (longest first), then analyse
    cfront.load_tus(tus, repo, load=False)
    work = [(modname, funcname, t, repo, tuple(extra)) for t in tus]
    jobs = jobs or min(int(os.environ.get("VERIF_JOBS", "16")), os.cpu_count() or 4, len(work))
    out = {}
    errs = []
    if jobs <= 1:
        results = list(map(_worker, work))
    else:
        with cf.ProcessPoolExecutor(jobs) as ex:
            results = list(ex.map(_worker, work))
    for tu, r, err in results:
        if err:
            errs.append(f"{tu}: {err}")
        else:
            out[tu] = r
    if errs:
        raise AnalysisError("; ".join(errs)[:4000])
    return out


def nfunc(u, name, propagate=False, depth=4, pred=None, exclude=()):
    """Function `name` of unit u with same-TU static helpers inlined (and optionally locals propagated); None if absent.
    Rules that describe the behaviour of an entry point use this view so that extracting or merging static helper
    functions does not change what they see."""
    from . import norm
    fn = u.funcs.get(name)
    if fn is None:
        return None
    cache = u.__dict__.setdefault("_nfunc", {})
    key = (name, propagate, depth, tuple(sorted(exclude)), id(pred))
    if key not in cache:
        inl = norm.Inliner(u, depth=depth, pred=pred, exclude=exclude)
        f2 = inl.expand(fn)
        if propagate:
            f2 = norm.propagate_locals(f2)
        f2["inlined"] = sorted({h for _c, h, _l in inl.inlined})
        cache[key] = f2
    return cache[key]
