"""C47 System-identification inertia parameters are always physical (log-Cholesky parametrisation).

Static analysis (ast only) of python/mujoco/sysid/_src/model_modifier.py by an abstract interpreter (class Interp) that
executes what the code does rather than matching one layout: straight-line code; `for` over statically known sequences
(literal tuples / lists / dicts of index pairs or names, range / enumerate / zip / .items() of those) is unrolled; `if` is
executed when the bound constants decide its test (None tests, equality of constants and enum members) and skipped when it
only raises; helper functions (closures, functions of the module that are not anchors of a rule, module-level tables) are
evaluated by binding their parameters; comprehensions over static sequences are unrolled; setattr / getattr with constant
names are attribute stores / reads.  Whatever is outside that is an AnalysisError (exit 2), never a pass and never a
violation; a matrix handed to code the interpreter does not execute is "not decided", not "any value".

R-SIGN   abstract interpretation of `pi_from_theta` over the sign domain {ZERO, POS, NEG, ANY} with 2-D grids for
         matrices of literal shape: the factor U built from theta is triangular (every entry on one side of the
         diagonal is ZERO), every diagonal entry is POS (exp(..), positive literal, products/quotients of those),
         the pseudo-inertia is its Gram matrix (U @ U.T or U.T @ U), the mass (first element of the returned
         vector) is a diagonal element of that Gram matrix; `cholesky_decompose_upper` conjugates
         np.linalg.cholesky by the same index reversal on input and output (so that the inverse map factors J
         with the triangle and product order the forward map uses); the reversal is judged on the interpreted value
         flow (a square matrix with a rows-reversed / columns-reversed state through locals, helpers, index arrays
         n-1..0, `::-1` and np.flip), not on the spelling.
         Trusted theorem: U triangular with positive diagonal => U U^T positive definite => positive mass and the
         triangle inequalities of the rotational inertia.
R-TABLE  slot maps: for every theta slot i, (inverse map o forward map)(theta)[i] simplifies symbolically to
         theta[i] (exp/log/product/quotient normal form); forward-written and inverse-read positions of U coincide;
         the segments of the returned pi vector ([m], h, I_bar.flatten()) are read back at the same offsets by
         `pseudoinertia_from_pi` / `apply_body_theta_inertia` and land in the blocks of J they were taken from;
         the row groups of the parameter bounds built in `body_inertia_param` are in theta slot order.
R-APPLY  `apply_body_theta_inertia` writes the mass segment to body.mass, first moment / mass to body.ipos and
         I_bar + m S(ipos) S(ipos) (S = skew) to body.fullinertia in MuJoCo's order M11 M22 M33 M12 M13 M23; this is the
         inverse of `pi_from_body`, which forms I_bar = fullinertia - m S(ipos) S(ipos); `apply_body_inertia` hands
         `param.value` of a pseudo-inertia parameter (and of no other type) to it.  When it returns,
         spec.compiler.inertiafromgeom holds (stored unconditionally, directly or in a helper the interpreter follows,
         as an integer or an mjtInertiaFromGeom member) a value for which the compiler's own condition for replacing a
         body's inertial by its geoms' -- the `if (..) { InertiaFromGeom(); }` of src/user/user_objects.cc, evaluated
         three-valued per enumerator of include/mujoco/mjspec.h with ipos defined -- is false: otherwise the applied
         theta does not survive compilation.  Undecided branches that only store attributes are executed both ways and
         their stores count as "on some paths only".
R-BOUNDS for the pseudo-inertia type `body_inertia_param` constructs Parameter(nominal = theta, min_value = column 0,
         max_value = column 1 of the stacked [low, high] rows) and every row group is a non-decreasing function of its
         [low, high] pair (order domain UNIFORM / ORDERED / REVERSED over exp, log, positive / negative scaling, offsets),
         both for a pair supplied by the caller and for the built-in default pairs, so that lower <= upper.
Does not decide: floating-point overflow/underflow of exp, compiled mass properties of the spec, which bound pair belongs
to which slot group, that a row group equals theta at the neutral pair.
"""
from __future__ import annotations

import ast
import math
import os
import re

from .. import cfront
from ..cfront import AnalysisError

FILE = "python/mujoco/sysid/_src/model_modifier.py"
FWD = "pi_from_theta"
INV = "theta_from_pseudoinertia"
PI2J = "pseudoinertia_from_pi"
CHOL = "cholesky_decompose_upper"
APPLY = "apply_body_theta_inertia"
PARAMFN = "body_inertia_param"

BODYPI = "pi_from_body"
DISPATCH = "apply_body_inertia"
SKEW = "skew"
THETA_SOURCES = ("theta_inertia_from_body", INV)
PARAM_FILE = "python/mujoco/sysid/_src/parameter.py"
# MuJoCo's body/inertial/fullinertia attribute: M(1,1), M(2,2), M(3,3), M(1,2), M(1,3), M(2,3)  (doc/XMLreference.rst)
MJ_FULLINERTIA_ORDER = [(0, 0), (1, 1), (2, 2), (0, 1), (0, 2), (1, 2)]

FLOOR_SIGN = 15      # 6 off-triangle zeros, 4 positive diagonals, gram, mass-diagonal, 2 reversal conjugations, factor kind
FLOOR_TABLE = 21     # 10 slot round trips, position coverage, 3 pi segments x 2 readers, 4 bound row groups
FLOOR_APPLY = 12     # body.mass, body.ipos, parallel-axis term (apply and pi_from_body), 6 fullinertia entries, dispatch,
                     # compiler.inertiafromgeom
CXX_BODY = "src/user/user_objects.cc"       # mjCBody::Compile: the branch that replaces the inertial by the geoms'
CXX_ENUM = "include/mujoco/mjspec.h"        # mjtInertiaFromGeom
IFG = "inertiafromgeom"
FLOOR_BOUNDS = 10    # nominal, low/high columns, 4 row groups x (supplied pair, default pair)

Z, P, A = "ZERO", "POS", "ANY"


def dotted(e):
    parts = []
    while isinstance(e, ast.Attribute):
        parts.append(e.attr)
        e = e.value
    if isinstance(e, ast.Name):
        parts.append(e.id)
        return ".".join(reversed(parts))
    return ""


def txt(n):
    if isinstance(n, ast.Tuple):                      # index tuples print without parentheses
        return ", ".join(ast.unparse(e) for e in n.elts)
    return ast.unparse(n)


# ---------------------------------------------------------------------------------------------
# symbolic scalars: Term = coeff * prod(atom ** k)   atoms ("s", i) = theta_i, ("E", i) = exp(theta_i), ("U", r, c)
#                   Lin  = const + sum(k_i * theta_i)

class Term:
    def __init__(self, coeff=1.0, pw=None):
        self.coeff = coeff
        self.pw = {k: v for k, v in (pw or {}).items() if v != 0}

    def mul(self, o, sign=1):
        pw = dict(self.pw)
        for k, v in o.pw.items():
            pw[k] = pw.get(k, 0) + sign * v
        if sign < 0 and o.coeff == 0:
            return None
        return Term(self.coeff * (o.coeff if sign > 0 else 1.0 / o.coeff), pw if self.coeff != 0 else {})

    def as_lin(self):
        if not self.pw:
            return Lin(self.coeff, {})
        if self.coeff == 1 and len(self.pw) == 1:
            (k, v), = self.pw.items()
            if k[0] == "s" and v == 1:
                return Lin(0.0, {k[1]: 1})
        return None

    def is_slot(self):
        l = self.as_lin()
        return l.is_slot() if l is not None and self.pw else None

    def key(self):
        return ("T", round(self.coeff, 12), tuple(sorted(self.pw.items())))


class Lin:
    def __init__(self, const=0.0, co=None):
        self.const = const
        self.co = {k: v for k, v in (co or {}).items() if v != 0}

    def add(self, o, sign=1):
        co = dict(self.co)
        for k, v in o.co.items():
            co[k] = co.get(k, 0) + sign * v
        return Lin(self.const + sign * o.const, co)

    def is_slot(self):
        if abs(self.const) < 1e-12 and len(self.co) == 1:
            (k, v), = self.co.items()
            if v == 1:
                return k
        return None

    def key(self):
        return ("L", round(self.const, 12), tuple(sorted(self.co.items())))


def sym_exp(v):
    l = v if isinstance(v, Lin) else v.as_lin() if isinstance(v, Term) else None
    if l is None:
        return None
    return Term(math.exp(l.const), {("E", k): c for k, c in l.co.items()})


def sym_log(v):
    if isinstance(v, Lin):
        v = Term(v.const, {}) if not v.co else None
    if not isinstance(v, Term) or v.coeff <= 0:
        return None
    if any(k[0] != "E" for k in v.pw):
        return None
    return Lin(math.log(v.coeff), {k[1]: c for k, c in v.pw.items()})


def sym_mul(a, b, sign=1):
    ta = a if isinstance(a, Term) else (Term(a.const) if isinstance(a, Lin) and not a.co else
                                        Term(1.0, {("s", a.is_slot()): 1}) if isinstance(a, Lin) and a.is_slot() is not None else None)
    tb = b if isinstance(b, Term) else (Term(b.const) if isinstance(b, Lin) and not b.co else
                                        Term(1.0, {("s", b.is_slot()): 1}) if isinstance(b, Lin) and b.is_slot() is not None else None)
    if ta is None or tb is None:
        return None
    return ta.mul(tb, sign)


def sym_add(a, b, sign=1):
    la = a if isinstance(a, Lin) else a.as_lin() if isinstance(a, Term) else None
    lb = b if isinstance(b, Lin) else b.as_lin() if isinstance(b, Term) else None
    if la is None or lb is None:
        return None
    return la.add(lb, sign)


def slot_of(v):
    if isinstance(v, Lin):
        return v.is_slot()
    if isinstance(v, Term):
        return v.is_slot()
    return None


# ---------------------------------------------------------------------------------------------
# abstract values

NC = object()          # "no compile-time constant"
N = "NEG"              # fourth sign: strictly negative (only used to orient monotone maps; rules test ZERO / POS)
U_, ORD, REV, UNK = "UNIFORM", "ORDERED", "REVERSED", "?"      # order of a [low, high] pair along the last axis


class Val:
    """kind: scalar | mat | gram | seq | dict | none | other | ...   sign (uniform bound for every entry) / grid of
    (sign, sym, line) for matrices of literal shape.
    const   compile-time constant (int / float / str / None / tuple of those / ("sym", dotted) for enum members)
    of      static structure: element Vals of a seq, (key, value) pairs of a dict, operands of a product / sum
    fields  attribute values stored on the object by the interpreted code
    pair    how the value depends on a [low, high] bound pair: UNIFORM (not at all), ORDERED (low <= high is kept),
            REVERSED, "?"
    null    True: is None, False: is not None, None: unknown"""

    def __init__(self, kind="other", sign=A, sym=None, grid=None, shape=None, deps=None, of=None, order=None,
                 block=None, line=0, const=NC, null=None, pair=UNK, fn=None):
        self.kind, self.sign, self.sym, self.grid, self.shape = kind, sign, sym, grid, shape
        self.deps = set(deps or ())
        self.of, self.order, self.block, self.line = of, order, block, line
        self.const, self.null, self.pair, self.fn = const, null, pair, fn
        self.fields = None
        self.kw = None
        self.uninterp = None       # (line, why): a matrix changed by code the interpreter does not execute


def s_mul(a, b):
    if Z in (a, b):
        return Z
    if a == P and b == P or a == N and b == N:
        return P
    if {a, b} == {P, N}:
        return N
    return A


def s_add(a, b):
    if a == Z:
        return b
    if b == Z:
        return a
    return a if a == b and a in (P, N) else A


def s_neg(a):
    return {Z: Z, P: N, N: P}.get(a, A)


def s_div(a, b):
    if b not in (P, N):
        return A
    return s_mul(a, b)


def p_flip(p):
    return {ORD: REV, REV: ORD}.get(p, p)


def p_add(a, b):
    if a == U_:
        return b
    if b == U_:
        return a
    return a if a == b and a in (ORD, REV) else UNK


def p_scale(p, sign):
    """pair order of (value with order p) * (pair-independent factor of the given sign)"""
    if p == U_ or sign == Z:
        return U_
    if sign == P:
        return p
    if sign == N:
        return p_flip(p)
    return UNK


def p_all_uniform(vals):
    return U_ if all(v.pair == U_ for v in vals) else UNK


def const_int(e):
    if isinstance(e, ast.Constant) and isinstance(e.value, int) and not isinstance(e.value, bool):
        return e.value
    if isinstance(e, ast.UnaryOp) and isinstance(e.op, ast.USub) and isinstance(e.operand, ast.Constant) \
            and isinstance(e.operand.value, int):
        return -e.operand.value
    return None


def index_extent(ix, n):
    """(kind, start, stop) for an int or constant slice on an axis of length n (n may be None for open ends)"""
    c = const_int(ix)
    if c is not None:
        return ("int", c, c + 1)
    if isinstance(ix, ast.Slice) and ix.step is None:
        lo = const_int(ix.lower) if ix.lower is not None else 0
        hi = const_int(ix.upper) if ix.upper is not None else n
        if lo is None or (ix.upper is not None and hi is None):
            return None
        return ("slice", lo, hi)
    return None


def is_newaxis(e):
    return (isinstance(e, ast.Constant) and e.value is None) or \
           (isinstance(e, ast.Attribute) and e.attr == "newaxis")


def const_node(c):
    if isinstance(c, int) and not isinstance(c, bool) and c < 0:
        return ast.UnaryOp(op=ast.USub(), operand=ast.Constant(value=-c))
    return ast.Constant(value=c)


class _Return(Exception):
    def __init__(self, value):
        self.value = value


class _Break(Exception):
    pass


class _Continue(Exception):
    pass


class Ctx:
    """what one interpretation shares between the frames of the function and of the helpers it calls"""

    def __init__(self, mod, hooks=None, atoms=()):
        self.mod = mod
        self.np = mod.np
        self.hooks = dict(hooks or {})    # function name -> callable(interp, call node, args, kwargs) -> Val
        self.atoms = set(atoms)           # functions kept as opaque, named values (anchors of a rule)
        self.stores = []                  # (base name, index node, value Val, line, target Val)
        self.reads = []                   # (value Val, base name, index node, line)
        self.attr_stores = []             # dict(obj, name, attr, index, val, line, depth)
        self.calls = []                   # (function name, args, kwargs, line) of atoms / hooks / unknown callees
        self.unpack = {}                  # id(Val) -> number of names it was unpacked into
        self.inlined = set()
        self.np_hooks = {}                # numpy function name ("linalg.cholesky") -> callable, as hooks
        self.cond = 0                     # > 0 while both branches of an undecided, effects-only `if` are executed
        self.failed_inlines = []          # (function name, argument Vals, line): helpers that stayed opaque


MAX_DEPTH = 8
MAX_UNROLL = 4096


class Interp:
    """abstract interpreter for the forward / inverse maps and their readers.  Straight-line code is executed;
    `for` over a statically known sequence (literal tuple/list/dict, range/enumerate/zip/.items() of those) is unrolled;
    `if` is executed when its test is decided by the bound constants (None tests, equality of constants / enum
    members), skipped when it only raises (input validation); helper functions (closures, private or public functions
    of the module that are not anchors of a rule) are evaluated by binding their parameters; comprehensions over
    static sequences are unrolled.  Anything else is an AnalysisError."""

    def __init__(self, ctx, fn, param_vals=None, parent=None, depth=0):
        self.ctx, self.fn, self.parent, self.depth = ctx, fn, parent, depth
        self.mod, self.np = ctx.mod, ctx.np
        self.env = dict(param_vals or {})
        self.ret = None
        self.ret_node = None
        for n in ast.walk(fn):
            if isinstance(n, (ast.Global, ast.Nonlocal, ast.Yield, ast.YieldFrom, ast.Await)):
                raise AnalysisError(f"{FILE}:{n.lineno}: {type(n).__name__} in {fn.name} is not supported by the sign interpreter")

    # legacy accessors (the rules read these from the top frame)
    @property
    def stores(self):
        return self.ctx.stores

    @property
    def unpack(self):
        return self.ctx.unpack

    # ---- names
    def lookup(self, name):
        f = self
        while f is not None:
            if name in f.env:
                return f.env[name]
            f = f.parent
        return self.mod.global_val(name, self.ctx)

    def err(self, node, what):
        return AnalysisError(f"{FILE}:{getattr(node, 'lineno', 0)}: {what} in {self.fn.name} is not supported by the sign interpreter")

    # ---- statements
    def run(self):
        try:
            self.block(self.fn.body)
        except _Return as r:
            self.ret = r.value
        except (_Break, _Continue):
            raise self.err(self.fn, "break/continue outside a loop")
        return self

    def block(self, stmts):
        for st in stmts:
            self.stmt(st)

    def stmt(self, st):
        if isinstance(st, ast.Expr):
            if not isinstance(st.value, ast.Constant):
                self.ev(st.value)
        elif isinstance(st, ast.Assign):
            v = self.ev(st.value)
            for t in st.targets:
                self.assign(t, v, st, st.value)
        elif isinstance(st, ast.AnnAssign):
            if st.value is not None:
                self.assign(st.target, self.ev(st.value), st, st.value)
        elif isinstance(st, ast.AugAssign):
            fake = ast.BinOp(left=st.target, op=st.op, right=st.value)
            ast.copy_location(fake, st)
            ast.fix_missing_locations(fake)
            self.assign(st.target, self.ev(fake), st, None, aug=type(st.op).__name__)
        elif isinstance(st, ast.Return):
            if self.depth == 0:
                self.ret_node = st.value
            raise _Return(self.ev(st.value) if st.value is not None else Val("none", const=None, null=True, pair=U_))
        elif isinstance(st, ast.If):
            self.s_if(st)
        elif isinstance(st, ast.For):
            self.s_for(st)
        elif isinstance(st, ast.FunctionDef):
            self.env[st.name] = Val("function", fn=(st, self), null=False, pair=U_)
        elif isinstance(st, (ast.Assert, ast.Pass, ast.Import, ast.ImportFrom)):
            pass
        elif isinstance(st, ast.Break):
            raise _Break()
        elif isinstance(st, ast.Continue):
            raise _Continue()
        elif isinstance(st, ast.Raise):
            raise AnalysisError(f"{FILE}:{st.lineno}: the interpreted path of {self.fn.name} raises unconditionally")
        elif isinstance(st, ast.Try) and all(self.only_raises(h.body) for h in st.handlers):
            # the map is what the no-exception path computes: body; else; finally (handlers only re-raise).  A return
            # inside the protected region still runs the finally block.
            try:
                self.block(st.body)
                self.block(st.orelse)
            except (_Return, _Break, _Continue):
                self.block(st.finalbody)
                raise
            self.block(st.finalbody)
        elif isinstance(st, (ast.While, ast.Try, ast.With)):
            raise AnalysisError(f"{FILE}:{st.lineno}: control flow in {self.fn.name} is not supported by the sign interpreter")
        else:
            raise AnalysisError(f"{FILE}:{st.lineno}: statement {type(st).__name__} in {self.fn.name} is not supported")

    @staticmethod
    def only_raises(stmts):
        """every path through the statements ends in `raise` (input validation: does not change the map)"""
        if not stmts:
            return False
        last = stmts[-1]
        if isinstance(last, ast.Raise):
            return all(isinstance(s, (ast.Raise, ast.Expr, ast.Assign, ast.Pass)) for s in stmts)
        if isinstance(last, ast.If) and last.orelse:
            return Interp.only_raises(last.body) and Interp.only_raises(last.orelse)
        return False

    def s_if(self, st):
        t = self.truth(st.test)
        if t is True:
            self.block(st.body)
        elif t is False:
            self.block(st.orelse)
        elif not st.orelse and self.only_raises(st.body):
            return
        elif st.orelse and self.only_raises(st.orelse) and not self.only_raises(st.body):
            self.block(st.body)                  # `if ok: ... else: raise`
        elif self.only_raises(st.body) and st.orelse:
            self.block(st.orelse)                # `if bad: raise ... else: ...`
        elif self.effects_only(st.body) and self.effects_only(st.orelse):
            # an undecided test over branches that only store attributes / call helpers: both branches are executed and
            # every attribute store in them is recorded as conditional (it happens on some paths only); the attribute's
            # value afterwards is unknown.  Stores to matrices and containers are refused while this is active.
            self.ctx.cond += 1
            try:
                self.block(st.body)
                self.block(st.orelse)
            finally:
                self.ctx.cond -= 1
        else:
            raise AnalysisError(f"{FILE}:{st.lineno}: control flow in {self.fn.name} is not supported by the sign interpreter "
                                f"(the test `{txt(st.test)[:60]}` is not decided by the bound constants)")

    @staticmethod
    def effects_only(stmts):
        for st in stmts:
            if isinstance(st, (ast.Pass, ast.Expr)):
                continue
            if isinstance(st, (ast.Assign, ast.AugAssign)):
                tg = st.targets if isinstance(st, ast.Assign) else [st.target]
                if all(isinstance(t, ast.Attribute) or (isinstance(t, ast.Subscript) and isinstance(t.value, ast.Attribute))
                       for t in tg):
                    continue
                return False
            if isinstance(st, ast.If) and Interp.effects_only(st.body) and Interp.effects_only(st.orelse):
                continue
            return False
        return True

    def s_for(self, st):
        items = self.static_items(self.ev(st.iter))
        if items is None:
            raise AnalysisError(f"{FILE}:{st.lineno}: control flow in {self.fn.name} is not supported by the sign interpreter "
                                f"(loop over `{txt(st.iter)[:60]}`, which is not a statically known sequence)")
        if len(items) > MAX_UNROLL:
            raise self.err(st, "a loop with too many iterations")
        broke = False
        for it in items:
            self.assign(st.target, it, st, None)
            try:
                self.block(st.body)
            except _Continue:
                continue
            except _Break:
                broke = True
                break
        if not broke:
            self.block(st.orelse)

    # ---- static sequences
    def static_items(self, v):
        """element Vals when the value is a sequence known at analysis time, else None"""
        if v.kind == "seq" and v.of is not None:
            return list(v.of)
        if v.kind == "dict" and v.of is not None:
            return [k for k, _ in v.of]
        return None

    def mkseq(self, vals, line=0, tag="tuple"):
        """tag: "tuple" (an index made of it addresses one element) or "list" (fancy indexing: not interpreted)"""
        deps = set().union(*[v.deps for v in vals]) if vals else set()
        shape = (len(vals),) if all(v.shape == () for v in vals) else None
        const = tuple(v.const for v in vals) if all(v.const is not NC for v in vals) else NC
        pair = UNK
        if len(vals) == 2 and all(isinstance(v.const, (int, float)) and not isinstance(v.const, bool) for v in vals):
            pair = ORD if vals[0].const <= vals[1].const else REV
        elif vals and all(v.pair == U_ for v in vals) and len(vals) != 2:
            pair = U_
        sign = vals[0].sign if vals and all(v.sign == vals[0].sign for v in vals) else A
        return Val("seq", sign=sign, deps=deps, shape=shape, of=list(vals), const=const, null=False, pair=pair, line=line,
                   block=tag)

    def const_val(self, c, line=0):
        if c is None:
            return Val("none", const=None, null=True, pair=U_)
        if isinstance(c, bool):
            return Val("other", const=c, null=False, pair=U_)
        if isinstance(c, (int, float)):
            return Val("scalar", P if c > 0 else Z if c == 0 else N, Term(float(c)), shape=(), const=c, null=False,
                       pair=U_, line=line)
        if isinstance(c, tuple):
            return self.mkseq([self.const_val(x) for x in c])
        return Val("other", const=c, null=False, pair=U_)

    # ---- assignment
    def assign(self, t, v, st, rhs_node, aug=None):
        line = getattr(st, "lineno", 0)
        if isinstance(t, (ast.Tuple, ast.List)):
            if any(isinstance(e, ast.Starred) for e in t.elts):
                raise AnalysisError(f"{FILE}:{line}: unsupported unpacking target")
            if isinstance(rhs_node, ast.Name):
                self.ctx.unpack[id(v)] = len(t.elts)
            items = self.static_items(v)
            for i, e in enumerate(t.elts):
                if items is not None and len(items) == len(t.elts):
                    self.assign(e, items[i], st, None)
                elif v.kind == "theta":
                    self.assign(e, self.theta_slot(v, i, line), st, None)
                elif isinstance(e, ast.Name):
                    self.env[e.id] = Val("scalar", A, None, deps=v.deps)
                else:
                    raise AnalysisError(f"{FILE}:{line}: unsupported unpacking target")
            return
        if isinstance(t, ast.Name):
            self.env[t.id] = v
            return
        if isinstance(t, ast.Subscript):
            sl = self.resolve_slice(t.slice)
            if isinstance(t.value, ast.Attribute):
                obj = self.ev(t.value.value)
                self.ctx.attr_stores.append({"obj": obj, "name": txt(t.value.value), "attr": t.value.attr, "index": sl,
                                             "val": v, "line": line, "depth": self.depth, "aug": aug,
                                             "cond": self.ctx.cond > 0})
                return
            if not isinstance(t.value, ast.Name):
                self.ev(t.value)
                return
            base = t.value.id
            m = self.lookup(base)
            if self.ctx.cond and m.kind in ("mat", "seq", "dict"):
                raise AnalysisError(f"{FILE}:{line}: store to `{base}` under a condition the bound constants do not decide")
            self.ctx.stores.append((base, sl, v, line, m))
            if m.kind == "dict" and m.of is not None:
                k = self.ev(sl) if not isinstance(sl, ast.Slice) else Val()
                if k.const is NC:
                    m.of = None
                else:
                    m.of = [(a, b) for a, b in m.of if a.const != k.const] + [(k, v)]
                return
            if m.kind == "seq" and m.of is not None:
                c = const_int(sl)
                if c is not None and -len(m.of) <= c < len(m.of):
                    m.of[c] = v
                    m.const = NC
                else:
                    m.of = None
                return
            if m.kind == "mat":
                ix = sl.elts if isinstance(sl, ast.Tuple) else [sl]
                ints = [const_int(i) for i in ix]
                if len(ix) == 2 and all(i is not None for i in ints) and v.kind == "scalar":
                    r, c = ints
                    if not (0 <= r < m.shape[0] and 0 <= c < m.shape[1]):
                        raise AnalysisError(f"{FILE}:{line}: index out of the literal shape")
                    m.grid[r][c] = (v.sign, v.sym, line)
                else:
                    # non-constant or block store: every entry may have been overwritten with anything
                    ext = [index_extent(i, m.shape[k]) for k, i in enumerate(ix)] if len(ix) == 2 else [None, None]
                    if not all(ext):
                        m.uninterp = m.uninterp or (line, f"store at `{txt(sl)}`, which is not a constant position")
                    rows = range(*ext[0][1:]) if ext[0] else range(m.shape[0])
                    cols = range(*ext[1][1:]) if ext[1] else range(m.shape[1])
                    for r in rows:
                        for c in cols:
                            if 0 <= r < m.shape[0] and 0 <= c < m.shape[1]:
                                m.grid[r][c] = (A, None, line)
                m.deps |= v.deps
            return
        if isinstance(t, ast.Attribute):
            obj = self.ev(t.value)
            self.attr_store(obj, txt(t.value), t.attr, v, line, aug)
            return
        raise AnalysisError(f"{FILE}:{line}: unsupported assignment target")

    def attr_store(self, obj, name, attr, v, line, aug=None):
        self.ctx.attr_stores.append({"obj": obj, "name": name, "attr": attr, "index": None, "val": v, "line": line,
                                     "depth": self.depth, "aug": aug, "cond": self.ctx.cond > 0})
        if obj.fields is None:
            obj.fields = {}
        if self.ctx.cond:
            old = obj.fields.get(attr)
            v = Val(deps=v.deps | (old.deps if old is not None else set()))        # either value, or the one before
        obj.fields[attr] = v

    def theta_slot(self, v, i, line):
        return Val("scalar", A, Lin(0.0, {i: 1}), shape=(), deps={(v.block, str(i))}, line=line, null=False, pair=U_)

    # ---- index resolution: names bound to constants are replaced by the constants
    def const_of(self, e):
        """python constant of a side-effect-free index expression, or NC"""
        if isinstance(e, ast.Constant):
            return e.value if not isinstance(e.value, bool) else NC
        if isinstance(e, ast.Name):
            return self.lookup(e.id).const
        if isinstance(e, ast.UnaryOp) and isinstance(e.op, (ast.USub, ast.UAdd)):
            c = self.const_of(e.operand)
            return NC if not isinstance(c, (int, float)) else (-c if isinstance(e.op, ast.USub) else c)
        if isinstance(e, ast.BinOp) and isinstance(e.op, (ast.Add, ast.Sub, ast.Mult, ast.FloorDiv, ast.Mod)):
            a, b = self.const_of(e.left), self.const_of(e.right)
            if isinstance(a, int) and isinstance(b, int) and not isinstance(a, bool) and not isinstance(b, bool):
                if isinstance(e.op, ast.Add):
                    return a + b
                if isinstance(e.op, ast.Sub):
                    return a - b
                if isinstance(e.op, ast.Mult):
                    return a * b
                if b != 0:
                    return a // b if isinstance(e.op, ast.FloorDiv) else a % b
            return NC
        if isinstance(e, ast.Tuple):
            cs = [self.const_of(x) for x in e.elts]
            return tuple(cs) if all(c is not NC for c in cs) else NC
        if isinstance(e, ast.Subscript) and isinstance(e.value, ast.Name):
            base = self.lookup(e.value.id)
            k = self.const_of(e.slice) if not isinstance(e.slice, ast.Slice) else NC
            if base.const is not NC and isinstance(base.const, tuple) and isinstance(k, int) and -len(base.const) <= k < len(base.const):
                return base.const[k]
        return NC

    def resolve_slice(self, sl, top=True):
        if isinstance(sl, ast.Slice):
            def b(x):
                if x is None:
                    return None
                c = self.const_of(x)
                return const_node(c) if isinstance(c, int) and not isinstance(c, bool) else x
            return ast.Slice(lower=b(sl.lower), upper=b(sl.upper), step=b(sl.step))
        if isinstance(sl, ast.Tuple):
            return ast.Tuple(elts=[self.resolve_slice(x, False) for x in sl.elts], ctx=ast.Load())
        c = self.const_of(sl)
        if isinstance(c, int) and not isinstance(c, bool):
            return const_node(c)
        if top and isinstance(c, tuple) and c and all(isinstance(x, int) and not isinstance(x, bool) for x in c):
            v = self.lookup(sl.id) if isinstance(sl, ast.Name) else None
            if v is None or (v.kind == "seq" and v.block == "tuple"):
                return ast.Tuple(elts=[const_node(x) for x in c], ctx=ast.Load())   # U[index] with index = (r, c)
        return sl

    # ---- conditions
    def truth(self, e):
        """True / False when the bound constants decide the test, else None"""
        if isinstance(e, ast.UnaryOp) and isinstance(e.op, ast.Not):
            t = self.truth(e.operand)
            return None if t is None else not t
        if isinstance(e, ast.BoolOp):
            ts = [self.truth(v) for v in e.values]
            if isinstance(e.op, ast.And):
                return False if any(t is False for t in ts) else True if all(t is True for t in ts) else None
            return True if any(t is True for t in ts) else False if all(t is False for t in ts) else None
        if isinstance(e, ast.Compare) and len(e.ops) == 1:
            a, b = self.ev(e.left), self.ev(e.comparators[0])
            op = e.ops[0]
            if isinstance(op, (ast.Is, ast.IsNot)):
                for x, y in ((a, b), (b, a)):
                    if y.null is True and x.null is not None:
                        return (x.null is True) == isinstance(op, ast.Is)
                return None
            if isinstance(op, (ast.Eq, ast.NotEq)) and a.const is not NC and b.const is not NC:
                return (a.const == b.const) == isinstance(op, ast.Eq)
            if isinstance(op, (ast.Lt, ast.LtE, ast.Gt, ast.GtE)) and all(isinstance(x.const, (int, float)) and
                                                                           not isinstance(x.const, bool) for x in (a, b)):
                return {ast.Lt: a.const < b.const, ast.LtE: a.const <= b.const, ast.Gt: a.const > b.const,
                        ast.GtE: a.const >= b.const}[type(op)]
            if isinstance(op, (ast.In, ast.NotIn)) and a.const is not NC and isinstance(b.const, tuple):
                return (a.const in b.const) == isinstance(op, ast.In)
            return None
        v = self.ev(e)
        if isinstance(v.const, bool):
            return v.const
        if v.null is True:
            return False
        return None

    # ---- expressions
    def npname(self, e):
        if isinstance(e, ast.Call):
            d = dotted(e.func)
            if d and d.split(".")[0] in self.np:
                return ".".join(d.split(".")[1:])
        return None

    def shape_lit(self, e):
        c = self.const_of(e)
        if isinstance(c, tuple) and all(isinstance(x, int) and not isinstance(x, bool) for x in c):
            return tuple(c)
        return (c,) if isinstance(c, int) and not isinstance(c, bool) else None

    def ev(self, e) -> Val:
        if isinstance(e, ast.Constant):
            if isinstance(e.value, (int, float, str, tuple)) or e.value is None:
                return self.const_val(e.value, getattr(e, "lineno", 0))
            return Val()
        if isinstance(e, ast.Name):
            return self.lookup(e.id)
        if isinstance(e, ast.UnaryOp):
            v = self.ev(e.operand)
            if isinstance(e.op, ast.UAdd):
                return v
            if isinstance(e.op, ast.Not):
                t = self.truth(e)
                return Val(const=t if t is not None else NC, deps=v.deps, null=False, pair=p_all_uniform([v]))
            if isinstance(e.op, ast.USub) and v.kind == "scalar":
                c = -v.const if isinstance(v.const, (int, float)) and not isinstance(v.const, bool) else NC
                return Val("scalar", s_neg(v.sign), sym_mul(Term(-1.0), v.sym) if v.sym else None,
                           shape=(), deps=v.deps, const=c, null=False, pair=p_flip(v.pair))
            if isinstance(e.op, ast.USub):
                return Val("neg", sign=s_neg(v.sign), deps=v.deps, shape=v.shape, of=[v], null=False, pair=p_flip(v.pair))
            return Val(deps=v.deps, shape=v.shape)
        if isinstance(e, ast.Attribute):
            return self.attribute(e)
        if isinstance(e, ast.BinOp):
            return self.binop(e)
        if isinstance(e, ast.Subscript):
            return self.subscript(e)
        if isinstance(e, (ast.List, ast.Tuple, ast.Set)):
            vs = []
            for x in e.elts:
                if isinstance(x, ast.Starred):
                    items = self.static_items(self.ev(x.value))
                    if items is None:
                        deps = set().union(*[self.ev(y.value if isinstance(y, ast.Starred) else y).deps for y in e.elts])
                        return Val(deps=deps, null=False)
                    vs.extend(items)
                else:
                    vs.append(self.ev(x))
            return self.mkseq(vs, getattr(e, "lineno", 0), tag="tuple" if isinstance(e, ast.Tuple) else "list")
        if isinstance(e, ast.Dict):
            if any(k is None for k in e.keys):
                return Val(deps=set().union(*[self.ev(v).deps for v in e.values]) if e.values else set(), null=False)
            pairs = [(self.ev(k), self.ev(v)) for k, v in zip(e.keys, e.values)]
            static = all(k.const is not NC for k, _ in pairs)
            deps = set().union(*[v.deps for _, v in pairs]) if pairs else set()
            out = []
            for k, v in pairs:                              # a repeated key keeps its first position, last value
                hit = [i for i, (a, _) in enumerate(out) if a.const == k.const]
                if hit and static:
                    out[hit[0]] = (out[hit[0]][0], v)
                else:
                    out.append((k, v))
            return Val("dict", deps=deps, of=out if static else None, null=False)
        if isinstance(e, ast.Call):
            return self.call(e)
        if isinstance(e, (ast.ListComp, ast.SetComp, ast.GeneratorExp, ast.DictComp)):
            return self.comprehension(e)
        if isinstance(e, ast.IfExp):
            t = self.truth(e.test)
            if t is not None:
                return self.ev(e.body if t else e.orelse)
            a, b = self.ev(e.body), self.ev(e.orelse)
            return Val(deps=a.deps | b.deps | self.ev(e.test).deps)
        if isinstance(e, (ast.Compare, ast.BoolOp)):
            t = self.truth(e)
            deps = set()
            for n in ast.walk(e):
                if isinstance(n, ast.Name):
                    deps |= self.lookup(n.id).deps
            return Val(const=t if t is not None else NC, deps=deps, null=False)
        if isinstance(e, ast.NamedExpr):
            v = self.ev(e.value)
            self.env[e.target.id] = v
            return v
        if isinstance(e, ast.JoinedStr):
            return Val(null=False, pair=U_)
        deps = set()
        for n in ast.walk(e):
            if isinstance(n, ast.Name):
                deps |= self.lookup(n.id).deps
        return Val(deps=deps)

    def attribute(self, e):
        # enum members / constants of imported names: symbolic constants that compare by their dotted text
        d = dotted(e)
        if d:
            root = d.split(".")[0]
            f, bound = self, False
            while f is not None and not bound:
                bound = root in f.env
                f = f.parent
            if not bound and root not in self.np and not self.mod.has_global(root):
                return Val("other", const=("sym", d), null=False, pair=U_, deps={("sym", d)})
        v = self.ev(e.value)
        if v.fields is not None and e.attr in v.fields:
            return v.fields[e.attr]
        if v.kind == "sq" and e.attr == "shape":
            return Val("sqshape", of=v, null=False, pair=U_)
        if v.kind == "sq" and e.attr == "T":
            return self.sq(v.of, v.block[1], v.block[0], v.line, like=v, t=not v.t)
        if e.attr == "T":
            if v.kind == "mat":
                return Val("matT", of=v, shape=(v.shape[1], v.shape[0]), deps=v.deps, null=False)
            return Val("transposed", sign=v.sign, of=[v], deps=v.deps, null=False, pair=v.pair if v.pair == U_ else UNK,
                       shape=tuple(reversed(v.shape)) if v.shape else v.shape)
        return Val(deps=v.deps | {("attr", e.attr)}, pair=p_all_uniform([v]))

    def binop(self, e):
        a, b = self.ev(e.left), self.ev(e.right)
        deps = a.deps | b.deps
        op = e.op
        line = getattr(e, "lineno", 0)
        if isinstance(op, ast.MatMult):
            # Gram matrix: M @ M.T or M.T @ M with the very same matrix object
            if a.kind == "mat" and b.kind == "matT" and b.of is a:
                return Val("gram", of=a, order="UUT", shape=(a.shape[0], a.shape[0]), deps=deps, line=line, null=False)
            if a.kind == "matT" and b.kind == "mat" and a.of is b:
                return Val("gram", of=b, order="UTU", shape=(b.shape[1], b.shape[1]), deps=deps, line=line, null=False)
            sa = a.shape if a.shape and len(a.shape) == 2 else None
            sb = b.shape if b.shape and len(b.shape) == 2 else None
            return Val("matprod", deps=deps, shape=(sa[0], sb[1]) if sa and sb else None, line=line, block="prod",
                       of=[a, b], null=False, pair=p_all_uniform([a, b]))
        if a.kind == "sqdim" and isinstance(op, ast.Sub) and b.const == 1 and not isinstance(b.const, bool):
            return Val("sqdim-1", shape=(), deps=deps, null=False, pair=U_)
        if a.kind in ("sq", "sqeye") or b.kind in ("sq", "sqeye"):
            r = self.sq_arith(op, a, b, line)
            if r is not None:
                return r
        if a.kind == "scalar" and b.kind == "scalar":
            ca = a.const if isinstance(a.const, (int, float)) and not isinstance(a.const, bool) else None
            cb = b.const if isinstance(b.const, (int, float)) and not isinstance(b.const, bool) else None
            const = NC
            if ca is not None and cb is not None:
                try:
                    const = {ast.Add: lambda: ca + cb, ast.Sub: lambda: ca - cb, ast.Mult: lambda: ca * cb,
                             ast.Div: lambda: ca / cb, ast.FloorDiv: lambda: ca // cb, ast.Mod: lambda: ca % cb,
                             ast.Pow: lambda: ca ** cb}.get(type(op), lambda: NC)()
                except (ZeroDivisionError, OverflowError, ValueError):
                    const = NC
            kw = {"shape": (), "deps": deps, "const": const, "null": False}
            if isinstance(op, ast.Mult):
                pair = p_scale(a.pair, b.sign) if b.pair == U_ else p_scale(b.pair, a.sign) if a.pair == U_ else UNK
                return Val("scalar", s_mul(a.sign, b.sign), sym_mul(a.sym, b.sym) if a.sym and b.sym else None, pair=pair, **kw)
            if isinstance(op, ast.Div):
                pair = p_scale(a.pair, b.sign) if b.pair == U_ else UNK
                return Val("scalar", s_div(a.sign, b.sign) if a.sign != Z or b.sign not in (P, N) else Z,
                           sym_mul(a.sym, b.sym, -1) if a.sym and b.sym else None, pair=pair, **kw)
            if isinstance(op, ast.Add):
                return Val("scalar", s_add(a.sign, b.sign), sym_add(a.sym, b.sym) if a.sym and b.sym else None,
                           pair=p_add(a.pair, b.pair), **kw)
            if isinstance(op, ast.Sub):
                return Val("scalar", s_add(a.sign, s_neg(b.sign)), sym_add(a.sym, b.sym, -1) if a.sym and b.sym else None,
                           pair=p_add(a.pair, p_flip(b.pair)), **kw)
            if isinstance(op, ast.Pow):
                return Val("scalar", P if a.sign == P else A, None, pair=p_all_uniform([a, b]), **kw)
            return Val("scalar", A, None, pair=p_all_uniform([a, b]), **kw)
        # matrix scaled by a scalar keeps its zero pattern; positive scalar keeps positive entries
        for m, s in ((a, b), (b, a)):
            if m.kind == "mat" and s.kind == "scalar" and isinstance(op, (ast.Mult, ast.Div)) and not (m is b and isinstance(op, ast.Div)):
                grid = [[(s_mul(x[0], s.sign) if isinstance(op, ast.Mult) else s_div(x[0], s.sign) if x[0] != Z or s.sign not in (P, N) else Z,
                          (sym_mul(x[1], s.sym, 1 if isinstance(op, ast.Mult) else -1) if x[1] is not None and s.sym is not None else None),
                          x[2]) for x in row] for row in m.grid]
                r = Val("mat", grid=grid, shape=m.shape, deps=deps, null=False)
                r.uninterp = m.uninterp
                return r
        shape = a.shape if a.shape == b.shape else a.shape if b.shape == () else b.shape if a.shape == () else None
        if isinstance(op, ast.Mult):
            pair = p_scale(a.pair, b.sign) if b.pair == U_ else p_scale(b.pair, a.sign) if a.pair == U_ else UNK
            return Val("prod", sign=s_mul(a.sign, b.sign), deps=deps, shape=shape, of=[a, b], null=False, pair=pair, line=line)
        if isinstance(op, ast.Div):
            pair = p_scale(a.pair, b.sign) if b.pair == U_ else UNK
            return Val("quot", sign=s_div(a.sign, b.sign), deps=deps, shape=shape, of=[a, b], null=False, pair=pair, line=line)
        if isinstance(op, (ast.Add, ast.Sub)):
            sg = 1 if isinstance(op, ast.Add) else -1
            terms = []
            for k, v in ((1, a), (sg, b)):
                if v.kind == "sum":
                    terms.extend((k * s, t) for s, t in v.of)
                else:
                    terms.append((k, v))
            return Val("sum", sign=s_add(a.sign, b.sign if sg > 0 else s_neg(b.sign)), deps=deps, shape=shape, of=terms,
                       null=False, pair=p_add(a.pair, b.pair if sg > 0 else p_flip(b.pair)), line=line)
        return Val(deps=deps, shape=shape, null=False, pair=p_all_uniform([a, b]))

    def subscript(self, e):
        v = self.ev(e.value)
        sl = self.resolve_slice(e.slice)
        ix = sl.elts if isinstance(sl, ast.Tuple) else [sl]
        line = getattr(e, "lineno", 0)
        self.ctx.reads.append((v, e.value.id if isinstance(e.value, ast.Name) else "", sl, line))
        if v.kind == "sqshape" and len(ix) == 1 and const_int(ix[0]) is not None:
            return Val("sqdim", shape=(), null=False, pair=U_)            # the side length n of the square matrix
        if v.kind == "sq":
            r = self.sq_index(v, ix)
            if r is not None:
                return r
        if v.kind == "theta" or v.kind == "vecparam":
            main, rest = ix[0], ix[1:]
            if all(is_newaxis(x) for x in rest):
                c = const_int(main)
                if v.kind == "theta" and c is not None and not rest:
                    return self.theta_slot(v, c, line)
                return Val("seg", deps={(v.block, txt(main))}, block=txt(main), of=v, null=False, pair=U_)
        if v.kind == "dict" and v.of is not None and not isinstance(sl, ast.Slice):
            k = self.const_of(sl)
            for a, b in v.of:
                if k is not NC and a.const == k:
                    return b
        if v.kind == "seq" and v.of is not None and len(ix) == 1:
            c = const_int(ix[0])
            if c is not None and -len(v.of) <= c < len(v.of):
                return v.of[c]
            ext = index_extent(ix[0], len(v.of))
            if ext and ext[0] == "slice":
                return self.mkseq(v.of[ext[1]:ext[2]])
        if v.kind in ("gram", "mat", "factor", "matprod") and len(ix) == 2 and v.shape:
            ext = [index_extent(i, v.shape[k] if v.shape else None) for k, i in enumerate(ix)]
            if all(ext):
                shape = tuple(x[2] - x[1] for x in ext if x[0] == "slice")
                deps = {(v.block or v.kind, txt(sl))}
                if all(x[0] == "int" for x in ext):
                    r, c = ext[0][1], ext[1][1]
                    if v.kind == "mat":
                        if not (0 <= r < v.shape[0] and 0 <= c < v.shape[1]):
                            raise AnalysisError(f"{FILE}:{line}: index out of the literal shape")
                        s = v.grid[r][c]
                        return Val("scalar", s[0], s[1], shape=(), deps=deps | v.deps, null=False)
                    if v.kind == "factor":
                        return Val("scalar", A, Term(1.0, {("U", r, c): 1}), shape=(), deps=deps, null=False)
                    if v.kind == "matprod":
                        return Val("scalar", A, None, shape=(), deps=deps | v.deps, null=False, of=v, block=("elem", r, c))
                    # element of a Gram matrix; diagonal elements are squared row norms
                    return Val("scalar", A, None, shape=(), deps=deps | v.deps, of=v, block=("diag" if r == c else "off", r, c), null=False)
                return Val("block", shape=shape, deps=deps | (v.deps if v.kind != "factor" else set()), of=v, block=txt(sl), null=False)
        ints = [const_int(i) for i in ix]
        if v.kind == "vstack" and len(ix) == 2 and isinstance(ix[0], ast.Slice) and ix[0].lower is None and \
                ix[0].upper is None and ix[0].step is None and ints[1] is not None:
            return Val("column", deps=v.deps, of=v, block=ints[1], null=False, sign=v.sign)
        if all(i is not None for i in ints) and v.kind in ("sum", "reshaped", "matprod", "prod", "callres", "other", "neg",
                                                              "transposed", "quot", "flat"):
            return Val("elem", sign=v.sign, deps=v.deps | {("elem", txt(sl))}, of=v, block=tuple(ints), shape=(), null=False,
                       pair=v.pair if v.pair == U_ else UNK)
        # any other selection keeps the uniform sign bound; the pair order only when the pair axis is not indexed
        keeps = all(isinstance(i, ast.Slice) and i.step is None or is_newaxis(i) for i in ix)
        return Val(sign=v.sign, deps=v.deps | {("?", txt(e))}, null=False,
                   pair=v.pair if (v.pair == U_ or keeps) else UNK)

    # ---- square matrices whose rows / columns may be in reversed order (cholesky_decompose_upper)
    @staticmethod
    def sq(base, rows, cols, line=0, like=None, coef=None, ridge=0.0, t=None):
        """coef * (the square matrix `base`, transposed if t, with its rows / columns in reversed order) + ridge * I;
        ridge None: an unknown multiple of the identity.  A base marked symmetric equals its transpose."""
        v = Val("sq", of=base, block=(bool(rows), bool(cols)), null=False, line=line)
        v.coef = (like.coef if like is not None else 1.0) if coef is None else coef
        v.ridge = like.ridge if like is not None and ridge == 0.0 else ridge
        v.t = (like.t if like is not None else False) if t is None else t
        if getattr(base, "symm", False):
            v.t = False
        return v

    def sq_index(self, v, ix):
        """X[R], X[R, :], X[:, R], X[::-1, ::-1] with R = ::-1 or np.arange(n - 1, -1, -1): reversal of an axis"""
        def kind(x):
            if isinstance(x, ast.Slice):
                if x.lower is None and x.upper is None and x.step is None:
                    return "full"
                return "rev-slice" if x.lower is None and x.upper is None and const_int(x.step) == -1 else None
            if isinstance(x, (ast.Name, ast.Call, ast.Attribute, ast.Subscript)):
                return "rev-array" if self.ev(x).kind == "revidx" else None
            return None
        ks = [kind(x) for x in ix]
        if not (1 <= len(ks) <= 2) or any(k is None for k in ks):
            return None
        if len(ks) == 2 and ks[0] == ks[1] == "rev-array":
            return None                                  # two index arrays are paired element-wise: the anti-diagonal
        rows, cols = v.block
        rows ^= ks[0] != "full"
        if len(ks) == 2:
            cols ^= ks[1] != "full"
        return self.sq(v.of, rows, cols, v.line, like=v)

    def sq_arith(self, op, a, b, line):
        """sums and constant multiples of reordered copies of one square matrix, and multiples of the identity"""
        def num(x):
            return x.const if isinstance(x.const, (int, float)) and not isinstance(x.const, bool) else None
        if isinstance(op, (ast.Add, ast.Sub)):
            sg = 1.0 if isinstance(op, ast.Add) else -1.0
            if a.kind == "sq" and b.kind == "sq" and a.of is b.of and a.block == b.block and a.t == b.t:
                ridge = None if a.ridge is None or b.ridge is None else a.ridge + sg * b.ridge
                return self.sq(a.of, a.block[0], a.block[1], line, coef=a.coef + sg * b.coef, ridge=ridge, t=a.t)
            if a.kind == "sq" and b.kind == "sqeye":
                ridge = None if a.ridge is None or b.coef is None else a.ridge + sg * b.coef
                return self.sq(a.of, a.block[0], a.block[1], line, coef=a.coef, ridge=ridge, t=a.t)
            if a.kind == "sqeye" and b.kind == "sq" and sg > 0:
                return self.sq_arith(op, b, a, line)
            return None
        if isinstance(op, (ast.Mult, ast.Div)):
            for m, c in ((a, b), (b, a)):
                k = num(c)
                if m.kind in ("sq", "sqeye") and c.kind == "scalar" and not (m is b and isinstance(op, ast.Div)):
                    if k is None or (isinstance(op, ast.Div) and k == 0):
                        if m.kind == "sqeye":
                            r = Val("sqeye", null=False, pair=U_)
                            r.coef = None
                            return r
                        return None
                    f = k if isinstance(op, ast.Mult) else 1.0 / k
                    if m.kind == "sqeye":
                        r = Val("sqeye", null=False, pair=U_)
                        r.coef = None if m.coef is None else m.coef * f
                        return r
                    return self.sq(m.of, m.block[0], m.block[1], line, coef=m.coef * f,
                                   ridge=None if m.ridge is None else m.ridge * f, t=m.t)
        return None

    def comprehension(self, e):
        """unrolled over static sequences; otherwise an unknown value that depends on everything it mentions"""
        def fallback():
            deps = set()
            for n in ast.walk(e):
                if isinstance(n, ast.Name):
                    deps |= self.lookup(n.id).deps
            return Val(deps=deps, null=False)
        saved = dict(self.env)
        out = []

        def rec(gi):
            if gi == len(e.generators):
                if isinstance(e, ast.DictComp):
                    out.append((self.ev(e.key), self.ev(e.value)))
                else:
                    out.append(self.ev(e.elt))
                return True
            g = e.generators[gi]
            if g.is_async:
                return False
            items = self.static_items(self.ev(g.iter))
            if items is None or len(items) > MAX_UNROLL:
                return False
            for it in items:
                self.assign(g.target, it, g.iter, None)
                keep = True
                for c in g.ifs:
                    t = self.truth(c)
                    if t is None:
                        return False
                    keep = keep and t
                if keep and not rec(gi + 1):
                    return False
            return True
        try:
            ok = rec(0)
        finally:
            self.env = saved                      # comprehension variables do not leak
        if not ok:
            return fallback()
        if isinstance(e, ast.DictComp):
            if all(k.const is not NC for k, _ in out):
                return Val("dict", deps=set().union(*[v.deps for _, v in out]) if out else set(), of=out, null=False)
            return fallback()
        return self.mkseq(out, getattr(e, "lineno", 0), tag="list")

    # ---- calls
    @staticmethod
    def havoc(vals, line=0, why="a call that is not interpreted"):
        """the callee is not interpreted: a matrix / container / object handed to it may have been changed in any way"""
        for v in vals:
            if v is None:
                continue
            if v.kind == "mat":
                v.uninterp = v.uninterp or (line, why)
                for row in v.grid:
                    for c in range(len(row)):
                        row[c] = (A, None, row[c][2])
            elif v.kind in ("seq", "dict") and v.of is not None and v.const is NC:
                v.of = None
            if v.fields:
                v.fields = {}

    def invoke(self, fnval, e, args, kwargs):
        """evaluate a helper by binding its parameters; returns its return value"""
        node, defining = fnval.fn
        if self.depth >= MAX_DEPTH:
            raise self.err(e, "helper calls nested too deeply")
        a = node.args
        if a.vararg or a.kwarg:
            raise self.err(e, f"helper {node.name} with *args/**kwargs")
        names = [x.arg for x in a.posonlyargs + a.args]
        if len(args) > len(names):
            raise self.err(e, f"call of {node.name} with too many arguments")
        bound = dict(zip(names, args))
        kwnames = names + [x.arg for x in a.kwonlyargs]
        for k, v in kwargs.items():
            if k not in kwnames or k in bound:
                raise self.err(e, f"call of {node.name} with unexpected argument {k}")
            bound[k] = v
        scope = defining if defining is not None else None
        defaults = dict(zip(names[len(names) - len(a.defaults):], a.defaults))
        defaults.update({x.arg: d for x, d in zip(a.kwonlyargs, a.kw_defaults) if d is not None})
        for k in kwnames:
            if k not in bound:
                if k not in defaults:
                    raise self.err(e, f"call of {node.name} without argument {k}")
                bound[k] = (scope or Interp(self.ctx, node, {}, None, self.depth + 1)).ev(defaults[k])
        self.ctx.inlined.add(node.name)
        sub = Interp(self.ctx, node, bound, parent=scope, depth=self.depth + 1).run()
        return sub.ret if sub.ret is not None else Val("none", const=None, null=True, pair=U_)

    def call(self, e):
        name = self.npname(e)
        starred = any(isinstance(a, ast.Starred) for a in e.args) or any(k.arg is None for k in e.keywords)
        args = [self.ev(a.value if isinstance(a, ast.Starred) else a) for a in e.args]
        kwargs = {k.arg: self.ev(k.value) for k in e.keywords if k.arg is not None}
        allv = list(args) + list(kwargs.values()) + [self.ev(k.value) for k in e.keywords if k.arg is None]
        deps = set().union(*[a.deps for a in allv]) if allv else set()
        line = getattr(e, "lineno", 0)
        upair = p_all_uniform(allv)
        if name and name in self.ctx.np_hooks:
            return self.ctx.np_hooks[name](self, e, args, kwargs)
        if name in ("zeros", "ones", "empty", "full") and e.args:
            shp = self.shape_lit(e.args[0])
            if shp and len(shp) == 2:
                fill = {"zeros": (Z, Term(0.0)), "ones": (P, Term(1.0)), "empty": (A, None)}.get(name)
                if name == "full":
                    f = args[1] if len(args) > 1 else Val()
                    fill = (f.sign, f.sym) if f.kind == "scalar" else (A, None)
                return Val("mat", grid=[[(fill[0], fill[1], line) for _ in range(shp[1])] for _ in range(shp[0])],
                           shape=shp, line=line, null=False)
            return Val(shape=shp, null=False, pair=upair)
        if name in ("eye", "identity") and len(args) == 1 and not kwargs and args[0].kind == "sqdim":
            r = Val("sqeye", null=False, pair=U_)
            r.coef = 1.0
            return r
        if name in ("eye", "identity") and e.args and self.shape_lit(e.args[0]) and len(e.args) == 1:
            n = self.shape_lit(e.args[0])[0]
            return Val("mat", grid=[[(P, Term(1.0), line) if r == c else (Z, Term(0.0), line) for c in range(n)]
                                    for r in range(n)], shape=(n, n), null=False)
        if name == "array" and args:
            rows = self.static_items(args[0])
            if rows is not None:
                inner = [self.static_items(r) if r.kind == "seq" else None for r in rows]
                if rows and all(i is not None for i in inner) and len({len(i) for i in inner}) == 1 and len(inner[0]) > 0:
                    grid = [[(v.sign, v.sym, line) if v.kind == "scalar" else (A, None, line) for v in r] for r in inner]
                    return Val("mat", grid=grid, shape=(len(rows), len(inner[0])), deps=deps, null=False)
                return self.mkseq(rows, line)
            return Val(sign=args[0].sign, deps=deps, null=False, pair=args[0].pair, shape=args[0].shape)
        if name in ("asarray", "asanyarray", "atleast_1d", "atleast_2d", "atleast_3d", "squeeze", "copy",
                    "ascontiguousarray") and len(args) >= 1:
            v = args[0]
            if v.kind == "sq":
                return v
            if name in ("asarray", "copy", "asanyarray", "ascontiguousarray") and v.kind in ("mat", "seq"):
                if v.kind == "seq":
                    return v
                r = Val("mat", grid=[list(r) for r in v.grid], shape=v.shape, deps=v.deps, null=False)
                r.uninterp = v.uninterp
                return r
            return Val("wrapped", sign=v.sign, deps=deps, of=[v], null=False, pair=v.pair)
        if name == "arange" and len(args) == 3 and not kwargs and args[0].kind == "sqdim-1" and args[1].const == -1 \
                and args[2].const == -1:
            return Val("revidx", null=False, pair=U_)                    # n-1, n-2, ..., 0
        if name in ("flip", "flipud", "fliplr") and args and args[0].kind == "sq" and len(args) <= 2:
            ax = kwargs.get("axis", args[1] if len(args) > 1 else None)
            axes = None
            if name == "flipud" and ax is None:
                axes = (0,)
            elif name == "fliplr" and ax is None:
                axes = (1,)
            elif name == "flip":
                c = NC if ax is None else ax.const
                axes = (0, 1) if ax is None or c is None else (c,) if isinstance(c, int) and not isinstance(c, bool) else \
                    c if isinstance(c, tuple) and all(isinstance(x, int) for x in c) else None
            if axes is not None and all(-2 <= x < 2 for x in axes) and len({x % 2 for x in axes}) == len(axes):
                rows, cols = args[0].block
                return self.sq(args[0].of, rows ^ (0 in {x % 2 for x in axes}), cols ^ (1 in {x % 2 for x in axes}), args[0].line,
                               like=args[0])
        if name == "exp" and len(args) == 1:
            return Val("scalar" if args[0].kind == "scalar" else "other", P,
                       sym_exp(args[0].sym) if args[0].sym is not None else None, shape=args[0].shape, deps=deps,
                       null=False, pair=args[0].pair)
        if name == "log" and len(args) == 1:
            return Val("scalar" if args[0].kind == "scalar" else "other", A,
                       sym_log(args[0].sym) if args[0].sym is not None else None, shape=args[0].shape, deps=deps,
                       null=False, pair=args[0].pair)
        if name == "sqrt" and len(args) == 1:
            return Val("scalar" if args[0].kind == "scalar" else "other", args[0].sign if args[0].sign in (P, Z) else A,
                       None, shape=args[0].shape, deps=deps, null=False, pair=args[0].pair)
        if name in ("dot", "matmul") and len(args) == 2:
            fake = ast.BinOp(left=e.args[0], op=ast.MatMult(), right=e.args[1])
            ast.copy_location(fake, e)
            return self.binop(fake)
        if name == "trace":
            return Val("scalar", A, None, shape=(), deps=deps, null=False, pair=upair)
        if name in ("concatenate", "hstack") and args:
            parts = self.static_items(args[0])
            if parts is not None:
                return Val("concat", of=parts, deps=deps, line=line, null=False, pair=upair)
        if name == "vstack" and args:
            rows = self.static_items(args[0])
            if rows is not None:
                pair = rows[0].pair if rows and all(r.pair == rows[0].pair for r in rows) else UNK
                return Val("vstack", of=rows, deps=deps, line=line, null=False, pair=pair)
        if isinstance(e.func, ast.Attribute) and not name:
            recv = self.ev(e.func.value)
            attr = e.func.attr
            if recv.kind == "dict" and recv.of is not None and not args and not kwargs:
                if attr == "items":
                    return self.mkseq([self.mkseq([k, v]) for k, v in recv.of], tag="list")
                if attr == "keys":
                    return self.mkseq([k for k, _ in recv.of], tag="list")
                if attr == "values":
                    return self.mkseq([v for _, v in recv.of], tag="list")
            if recv.kind == "dict" and recv.of is not None and attr == "get" and args and args[0].const is not NC:
                for k, v in recv.of:
                    if k.const == args[0].const:
                        return v
                return args[1] if len(args) > 1 else Val("none", const=None, null=True, pair=U_)
            if attr in ("flatten", "ravel") and not args:
                n = 1
                for d in recv.shape or ():
                    n *= d
                return Val("flat", shape=(n,) if recv.shape is not None else None, deps=recv.deps | deps, of=recv,
                           null=False, sign=recv.sign, pair=recv.pair if recv.pair == U_ else UNK)
            if attr == "reshape":
                shp = self.shape_lit(e.args[0]) if len(e.args) == 1 else \
                    tuple(self.const_of(a) for a in e.args) if all(isinstance(self.const_of(a), int) for a in e.args) else None
                return Val("reshaped", shape=shp, deps=recv.deps | deps, of=recv, null=False, sign=recv.sign)
            if attr == "copy" and recv.kind == "sq":
                return recv
            if attr == "copy":
                if recv.kind == "mat":        # a distinct matrix object with the same entries
                    r = Val("mat", grid=[list(r) for r in recv.grid], shape=recv.shape, deps=recv.deps, null=False)
                    r.uninterp = recv.uninterp
                    return r
                return recv
            self.ctx.calls.append((attr, args, kwargs, line))
            self.havoc([v for v in allv + [recv] if v.kind == "mat"], line, f"the method call .{attr}(..)")   # U.fill(..), obj.method(U)
            return Val(deps=recv.deps | deps | {("call", attr)}, null=None, pair=p_all_uniform(allv + [recv]))
        if isinstance(e.func, ast.Name):
            fname = e.func.id
            target = self.lookup(fname)
            if target.kind == "function":                                   # closure defined in the interpreted code
                if starred:
                    raise self.err(e, "a helper call with * arguments")
                return self.invoke(target, e, args, kwargs)
            if fname in self.ctx.hooks:
                self.ctx.calls.append((fname, args, kwargs, line))
                return self.ctx.hooks[fname](self, e, args, kwargs)
            if fname in self.mod.funcs:
                self.ctx.calls.append((fname, args, kwargs, line))
                opaque = Val("callres", deps=deps | {("call", fname)}, block=fname, of=args, line=line, null=False, pair=upair)
                if fname in self.ctx.atoms or starred or self.depth >= MAX_DEPTH:
                    self.havoc([v for v in allv if v.kind == "mat"], line, f"the call of {fname}")
                    return opaque
                mark = (len(self.ctx.stores), len(self.ctx.attr_stores))
                try:
                    return self.invoke(Val("function", fn=(self.mod.funcs[fname], None)), e, args, kwargs)
                except AnalysisError:
                    # a helper outside what the interpreter executes stays an opaque, named value; what it may have
                    # done to its arguments is unknown
                    del self.ctx.stores[mark[0]:]
                    del self.ctx.attr_stores[mark[1]:]
                    self.ctx.failed_inlines.append((fname, allv, line))
                    self.havoc(allv, line, f"the call of {fname}, which the interpreter cannot execute")
                    return opaque
            b = self.builtin(fname, e, args, kwargs)
            if b is not None:
                return b
            self.ctx.calls.append((fname, args, kwargs, line))
            self.havoc([v for v in allv if v.kind == "mat"], line, f"the call of {fname}")
            # a callable held in a local name (bound method, getattr result): its result depends on where it came from
            r = Val("callres", deps=deps | target.deps | {("call", fname)}, block=fname, of=args, line=line, null=False,
                    pair=upair if target.pair == U_ or not target.deps else UNK)
            r.kw = kwargs
            return r
        # numpy functions without a transfer function above (np.fill_diagonal, np.copyto, ...) and computed callees
        self.havoc([v for v in allv if v.kind == "mat"], line, f"the call `{txt(e.func)}`")
        return Val(deps=deps, pair=upair)

    def builtin(self, fname, e, args, kwargs):
        if kwargs and fname not in ("zip", "enumerate"):
            return None
        if fname == "range" and 1 <= len(args) <= 3 and all(isinstance(a.const, int) and not isinstance(a.const, bool) for a in args):
            r = range(*[a.const for a in args])
            if len(r) > MAX_UNROLL:
                raise self.err(e, "a range that is too long to unroll")
            return self.mkseq([self.const_val(i) for i in r], tag="list")
        if fname == "enumerate" and args:
            items = self.static_items(args[0])
            start = kwargs.get("start", args[1] if len(args) > 1 else None)
            s0 = 0 if start is None else start.const
            if items is not None and isinstance(s0, int):
                return self.mkseq([self.mkseq([self.const_val(s0 + i), v]) for i, v in enumerate(items)], tag="list")
            return None
        if fname == "zip" and args:
            cols = [self.static_items(a) for a in args]
            if all(c is not None for c in cols):
                if "strict" in kwargs and len({len(c) for c in cols}) > 1:
                    raise self.err(e, "zip(strict=True) over sequences of different lengths")
                return self.mkseq([self.mkseq(list(t)) for t in zip(*cols)], tag="list")
            return None
        if fname in ("list", "tuple", "reversed", "sorted") and len(args) == 1:
            items = self.static_items(args[0])
            if items is not None and fname != "sorted":
                return self.mkseq(list(reversed(items)) if fname == "reversed" else items,
                                  tag="tuple" if fname == "tuple" else "list")
            if items is not None and all(isinstance(i.const, (int, float, str)) for i in items):
                return self.mkseq(sorted(items, key=lambda i: i.const), tag="list")
            return None
        if fname == "len" and len(args) == 1:
            if args[0].kind == "sq":
                return Val("sqdim", shape=(), null=False, pair=U_)
            items = self.static_items(args[0])
            if items is not None:
                return self.const_val(len(items))
            if args[0].kind == "dict" and args[0].of is not None:
                return self.const_val(len(args[0].of))
            return None
        if fname == "dict" and not args and not kwargs:
            return Val("dict", of=[], null=False)
        if fname == "setattr" and len(args) == 3 and isinstance(args[1].const, str):
            self.attr_store(args[0], txt(e.args[0]), args[1].const, args[2], getattr(e, "lineno", 0))
            return Val("none", const=None, null=True, pair=U_)
        if fname == "getattr" and len(args) in (2, 3) and isinstance(args[1].const, str):
            fake = ast.Attribute(value=e.args[0], attr=args[1].const, ctx=ast.Load())
            ast.copy_location(fake, e)
            return self.attribute(fake)
        if fname in ("float", "int") and len(args) == 1 and args[0].kind == "scalar":
            return args[0]
        return None


class Mod:
    def __init__(self):
        path = os.path.join(cfront.REPO, FILE)
        try:
            self.tree = ast.parse(open(path).read())
        except OSError as e:
            raise AnalysisError(f"anchor file missing: {FILE} ({e})")
        except SyntaxError as e:
            raise AnalysisError(f"{FILE} does not parse: {e}")
        self.funcs = {n.name: n for n in self.tree.body if isinstance(n, ast.FunctionDef)}
        self.classes = {n.name for n in self.tree.body if isinstance(n, ast.ClassDef)}
        self.np = set()
        self.gassign = {}                 # module-level NAME = expr (tables a refactor may hoist out of a function)
        for st in self.tree.body:
            if isinstance(st, ast.Import):
                for al in st.names:
                    if al.name == "numpy":
                        self.np.add(al.asname or "numpy")
            elif isinstance(st, ast.Assign) and len(st.targets) == 1 and isinstance(st.targets[0], ast.Name):
                self.gassign[st.targets[0].id] = st.value
            elif isinstance(st, ast.AnnAssign) and isinstance(st.target, ast.Name) and st.value is not None:
                self.gassign[st.target.id] = st.value
        self._gcache = {}
        for f in (FWD, INV, PI2J, CHOL, APPLY, PARAMFN, BODYPI, DISPATCH):
            if f not in self.funcs:
                raise AnalysisError(f"{FILE}: function {f} not found")

    def has_global(self, name):
        return name in self.gassign or name in self.funcs or name in self.classes

    def global_val(self, name, ctx):
        if name in self._gcache:
            return self._gcache[name]
        node = self.gassign.get(name)
        if node is None:
            return Val()
        self._gcache[name] = Val()                        # a cyclic definition stays unknown
        holder = ast.FunctionDef(name="<module>", args=ast.arguments(posonlyargs=[], args=[], kwonlyargs=[], kw_defaults=[],
                                                                      defaults=[]), body=[], decorator_list=[], lineno=0)
        try:
            v = Interp(Ctx(self), holder, {}).ev(node)
        except AnalysisError:
            v = Val()
        self._gcache[name] = v
        return v


def params(fn):
    return [a.arg for a in fn.args.posonlyargs + fn.args.args]


def uniq(vals):
    out, seen = [], set()
    for v in vals:
        if id(v) not in seen:
            seen.add(id(v))
            out.append(v)
    return out


# ---------------------------------------------------------------------------------------------

def seg_range(slice_text, total):
    n = ast.parse(slice_text, mode="eval").body if not slice_text.strip().startswith((":",)) and ":" not in slice_text \
        else ast.parse(f"x[{slice_text}]", mode="eval").body.slice
    ext = index_extent(n, total)
    if not ext:
        return None
    return (ext[1], ext[2] if ext[2] is not None else total)


def transpose_block(t):
    parts = [p.strip() for p in t.split(",")]
    return ", ".join(reversed(parts)) if len(parts) == 2 else t



ANCHOR_FUNCS = (FWD, INV, PI2J, CHOL, APPLY, PARAMFN)


def make_ctx(mod, running, hooks=None, np_hooks=None):
    """the anchors of the rules other than the function being interpreted stay opaque, named values"""
    ctx = Ctx(mod, hooks, atoms=(set(ANCHOR_FUNCS) | {SKEW, BODYPI}) - {running} - set(hooks or ()))
    ctx.np_hooks = dict(np_hooks or {})
    return ctx


def run(res, tier):
    mod = Mod()
    res.trusted = ["CPython 3.11 ast parser",
                   "theorem: U triangular with positive diagonal => U U^T positive definite => m > 0 and triangle inequalities",
                   "np.linalg.cholesky returns the lower factor L with A = L L^T",
                   "MuJoCo's fullinertia attribute lists M(1,1), M(2,2), M(3,3), M(1,2), M(1,3), M(2,3) (doc/XMLreference.rst, "
                   "body/inertial/fullinertia)",
                   "plain-text reading of the single `if (..) { InertiaFromGeom(); }` in src/user/user_objects.cc and of enum "
                   "mjtInertiaFromGeom in include/mujoco/mjspec.h (fail-closed when either is not found as expected)",
                   "parallel-axis theorem: inertia about the body origin = inertia about the centre of mass - m S(c) S(c), "
                   "S = skew"]
    res.rule("R-SIGN", "the factor built from theta is triangular with sign-positive diagonal, J is its Gram matrix, "
             "the mass is a diagonal element of J, the inverse map factors J with the same triangle and order", floor=FLOOR_SIGN)
    res.rule("R-TABLE", "theta slot maps of the forward and inverse map agree (inverse o forward = identity per slot); "
             "pi segments are read back at their offsets into the J blocks they came from; bound rows are in slot order",
             floor=FLOOR_TABLE)
    res.rule("R-APPLY", "applying theta to a body writes the mass segment to body.mass, h/m to body.ipos, "
             "I_bar + m S(ipos) S(ipos) (the inverse of pi_from_body's I_bar = I - m S S) to body.fullinertia in MuJoCo's "
             "order, the pseudo-inertia parameter type is dispatched to it, and compiler.inertiafromgeom is left at a value "
             "under which the compiler keeps an explicit inertial (derived from mjCBody's InertiaFromGeom() condition)",
             floor=FLOOR_APPLY)
    res.rule("R-BOUNDS", "the pseudo-inertia Parameter gets theta as nominal value and, as lower / upper bounds, the low / "
             "high columns of rows that are non-decreasing in their [low, high] bound pair (defaults included)",
             floor=FLOOR_BOUNDS)

    # ---------------- forward map
    fwd = mod.funcs[FWD]
    fp = params(fwd)
    if len(fp) != 1:
        raise AnalysisError(f"{FWD}: expected one parameter")
    theta_val = Val("theta", block=fp[0], null=False, pair=U_)
    F = Interp(make_ctx(mod, FWD), fwd, {fp[0]: theta_val}).run()
    nslots = F.ctx.unpack.get(id(theta_val))
    if not nslots:
        # theta read slot by slot: the slots are the constant indices, which have to be 0..n-1
        idx = sorted({const_int(sl) for v, _, sl, _ in F.ctx.reads if v is theta_val and const_int(sl) is not None})
        if not idx or idx != list(range(len(idx))) or any(v is theta_val and const_int(sl) is None for v, _, sl, _ in F.ctx.reads):
            raise AnalysisError(f"{FWD}: theta is not unpacked into named slots")
        nslots = len(idx)
    grams = uniq(v for v in F.env.values() if v.kind == "gram")
    if len(grams) != 1:
        mats = uniq(v for v in F.env.values() if v.kind == "mat" and v.shape and v.shape[0] == v.shape[1]
                    and any(x[1] is not None and x[1].pw for row in v.grid for x in row))
        if len(mats) != 1:
            raise AnalysisError(f"{FWD}: cannot identify the factor matrix built from theta")
        prods = [v for v in F.env.values() if v.kind == "matprod"]
        res.bad("R-SIGN", f"{FWD}:gram", FILE, prods[0].line if prods else fwd.lineno,
                f"{FWD}: the pseudo-inertia is not formed as M @ M.T / M.T @ M of the matrix built from theta "
                f"({len(grams)} Gram products found) — positive definiteness cannot be derived")
        G = Val("nogram", of=mats[0], order=None)
    else:
        G = grams[0]
    U = G.of
    uname = next((k for k, v in F.env.items() if v is U), "U")
    jname = next((k for k, v in F.env.items() if v is G), "J")
    if G.kind == "gram":
        res.ok("R-SIGN", f"{FWD}:gram", {"file": FILE, "line": G.line, "J": f"{jname} = {uname} {'@ ' + uname + '.T' if G.order == 'UUT' else '.T @ ' + uname}"})
    n = U.shape[0]
    if U.shape[0] != U.shape[1]:
        raise AnalysisError(f"{FWD}: factor is not square")
    if U.uninterp:
        raise AnalysisError(f"{FILE}:{U.uninterp[0]}: {FWD}: the factor matrix is changed by {U.uninterp[1]}: its entries "
                            f"cannot be decided")
    lower_zero = all(U.grid[r][c][0] == Z for r in range(n) for c in range(n) if r > c)
    upper_zero = all(U.grid[r][c][0] == Z for r in range(n) for c in range(n) if r < c)
    side = "upper" if lower_zero else "lower" if upper_zero else None
    # choose the side with fewer violations for reporting
    want_zero = (lambda r, c: r > c) if (side == "upper" or (side is None and
                 sum(U.grid[r][c][0] != Z for r in range(n) for c in range(n) if r > c) <=
                 sum(U.grid[r][c][0] != Z for r in range(n) for c in range(n) if r < c))) else (lambda r, c: r < c)
    for r in range(n):
        for c in range(n):
            if r != c and want_zero(r, c):
                s = U.grid[r][c]
                construct = f"{FWD}:{uname}[{r},{c}]"
                if s[0] == Z:
                    res.ok("R-SIGN", construct, {"file": FILE, "line": s[2], "sign": Z})
                else:
                    res.bad("R-SIGN", construct, FILE, s[2], f"{FWD}: entry {uname}[{r},{c}] is {s[0]}, not ZERO: the factor is not triangular")
    for r in range(n):
        s = U.grid[r][r]
        construct = f"{FWD}:{uname}[{r},{r}]"
        if s[0] == P:
            res.ok("R-SIGN", construct, {"file": FILE, "line": s[2], "sign": P})
        else:
            res.bad("R-SIGN", construct, FILE, s[2],
                    f"{FWD}: diagonal entry {uname}[{r},{r}] has sign {s[0]}, not POS (exp(..) / positive literal / product of those): "
                    f"J = {uname}{uname}^T may be singular or the parametrisation not injective")
    # mass
    if F.ret is None or F.ret.kind != "concat" or not F.ret.of:
        raise AnalysisError(f"{FWD}: return value is not np.concatenate((...)) of segments")
    segs = F.ret.of
    first = segs[0]
    mval = first.of[0] if first.kind == "seq" and first.of and len(first.of) == 1 else first
    construct = f"{FWD}:mass"
    if mval.kind == "scalar" and mval.of is G and mval.block and mval.block[0] == "diag":
        res.ok("R-SIGN", construct, {"file": FILE, "line": F.ret.line, "mass": f"{jname}[{mval.block[1]},{mval.block[2]}]"})
        mass_idx = mval.block[1]
    else:
        res.bad("R-SIGN", construct, FILE, F.ret.line, f"{FWD}: the mass (first element of the returned vector) is not a diagonal element of {jname}")
        mass_idx = None

    # ---------------- reversal conjugation in cholesky_decompose_upper, factor kind in the inverse map
    # interpreted: the value flow J -> (rows and columns reversed) -> np.linalg.cholesky -> (reversed again) -> return is
    # followed through locals, helpers and the equivalent reversal idioms (index arrays n-1..0, ::-1, np.flip)
    ch = mod.funcs[CHOL]
    cpar = params(ch)[0]
    jbase = Val("sqbase", block=cpar, null=False)
    jbase.symm = True                      # assumption of the property: the pseudo-inertia is symmetric (J == J.T)
    chol_seen = []

    def chol_hook(it, e, a, k):
        lbase = Val("sqbase", block="cholesky", null=False, line=e.lineno)
        chol_seen.append((e.lineno, a[0] if a else Val(), lbase))
        return Interp.sq(lbase, False, False, e.lineno)
    cctx = make_ctx(mod, CHOL, np_hooks={"linalg.cholesky": chol_hook})
    C = Interp(cctx, ch, {cpar: Interp.sq(jbase, False, False, ch.lineno)}).run()
    if len(chol_seen) != 1 or C.ret is None:
        raise AnalysisError(f"{CHOL}: expected one np.linalg.cholesky call and one returned value")
    cline, carg, lbase = chol_seen[0]
    if carg.kind != "sq" or carg.of is not jbase:
        raise AnalysisError(f"{FILE}:{cline}: {CHOL}: the argument of np.linalg.cholesky is not recognised as `{cpar}` with rows / "
                            f"columns reordered")
    if carg.ridge is None:
        raise AnalysisError(f"{FILE}:{cline}: {CHOL}: a multiple of the identity that is not a constant is added to the matrix "
                            f"that is factorised")
    pre_ok = carg.block == (True, True) and carg.coef == 1.0 and carg.ridge == 0.0
    if pre_ok:
        res.ok("R-SIGN", f"{CHOL}:input-reversal", {"file": FILE, "line": cline})
    else:
        res.bad("R-SIGN", f"{CHOL}:input-reversal", FILE, cline,
                f"{CHOL}: np.linalg.cholesky is not applied to `{cpar}` with rows and columns both reversed "
                f"(rows reversed: {carg.block[0]}, columns reversed: {carg.block[1]}"
                + (f"; it is applied to {carg.coef:g} * {cpar} + {carg.ridge:g} * I, so the factor is not the factor of {cpar} "
                   f"and {INV} does not invert {FWD}" if (carg.coef, carg.ridge) != (1.0, 0.0) else "") + ")")
    rline = getattr(C.ret_node, "lineno", ch.lineno)
    if C.ret.kind != "sq" or C.ret.of is not lbase:
        raise AnalysisError(f"{FILE}:{rline}: {CHOL}: the returned value is not recognised as the Cholesky factor with rows / "
                            f"columns reordered")
    post_ok = C.ret.block == (True, True) and not C.ret.t and C.ret.coef == 1.0 and C.ret.ridge == 0.0
    if post_ok:
        res.ok("R-SIGN", f"{CHOL}:output-reversal", {"file": FILE, "line": rline})
    else:
        res.bad("R-SIGN", f"{CHOL}:output-reversal", FILE, rline,
                f"{CHOL}: the lower Cholesky factor is not returned with rows and columns both reversed (rows reversed: "
                f"{C.ret.block[0]}, columns reversed: {C.ret.block[1]}, transposed: {C.ret.t}, scaled by {C.ret.coef:g}, plus "
                f"{C.ret.ridge if C.ret.ridge is None else format(C.ret.ridge, 'g')} * I; the result is not upper triangular with "
                f"J = U U^T)")

    inv = mod.funcs[INV]
    ip = params(inv)
    # the factor: result of a call to CHOL(J) -> symbolic matrix of ("U", r, c)
    ictx = make_ctx(mod, INV,
                    hooks={CHOL: lambda it, e, a, k: Val("factor", shape=(n, n), block="U", line=e.lineno, null=False)},
                    np_hooks={"linalg.cholesky": lambda it, e, a, k: Val("factor", shape=(n, n), block="L", line=e.lineno, null=False)})
    made = []
    for key, table in ((CHOL, ictx.hooks), ("linalg.cholesky", ictx.np_hooks)):
        def wrap(f):
            def g(it, e, a, k):
                v = f(it, e, a, k)
                made.append(v)
                return v
            return g
        table[key] = wrap(table[key])
    I = Interp(ictx, inv, {ip[0]: Val("jparam", block=ip[0], null=False)}).run()
    construct = f"{INV}:factor-kind"
    if len(made) != 1:
        raise AnalysisError(f"{INV}: cannot identify the Cholesky factor")
    fk = made[0]
    inv_kind = ("upper", "UUT") if fk.block == "U" else ("lower", "UUT")
    if side is not None and (side, G.order) == inv_kind and (fk.block != "U" or (pre_ok and post_ok)):
        res.ok("R-SIGN", construct, {"file": FILE, "line": fk.line, "forward": [side, G.order], "inverse": list(inv_kind)})
    elif side is not None and (side, G.order) == inv_kind:
        # the triangles and orders agree; that the helper really returns the upper factor is what failed: reported above
        res.seen("R-SIGN", construct)
    else:
        res.bad("R-SIGN", construct, FILE, fk.line,
                f"{INV} factors J as {inv_kind} but {FWD} builds a {side or 'non-triangular'} factor with order {G.order}: the inverse map does not recover U")

    # ---------------- R-TABLE: slot round trip
    if I.ret is None or I.ret.kind != "seq" or I.ret.of is None:
        raise AnalysisError(f"{INV}: return value is not np.array([...]) of named slots")
    out = I.ret.of
    if len(out) != nslots:
        res.bad("R-TABLE", f"{INV}:slot-count", FILE, inv.lineno, f"{INV} returns {len(out)} slots, {FWD} unpacks {nslots}")
    fwd_pos = {}
    for r in range(n):
        for c in range(n):
            if U.grid[r][c][0] != Z:
                fwd_pos[(r, c)] = U.grid[r][c]
    read_pos = set()
    for i in range(min(len(out), nslots)):
        v = out[i]
        construct = f"theta[{i}]"
        sym = v.sym
        if sym is None:
            res.bad("R-TABLE", construct, FILE, inv.lineno, f"{INV}: slot {i} is not an exp/log/product form of entries of the factor")
            continue
        got = resolve_inverse(I, inv, i, U, read_pos)
        if got == i:
            res.ok("R-TABLE", construct, {"file": FILE, "line": inv.lineno, "round_trip": f"inverse(forward(theta))[{i}] == theta[{i}]"})
        else:
            res.bad("R-TABLE", construct, FILE, inv.lineno,
                    f"slot {i}: {INV}({FWD}(theta))[{i}] simplifies to "
                    f"{'theta[%d]' % got if isinstance(got, int) else 'an expression that is not theta[%d]' % i}: "
                    f"the slot written by {FWD} is not the slot read back by {INV}")
    construct = "U-positions"
    w = set(fwd_pos)
    if w == read_pos:
        res.ok("R-TABLE", construct, {"file": FILE, "line": inv.lineno, "positions": sorted(w)})
    else:
        res.bad("R-TABLE", construct, FILE, inv.lineno,
                f"positions of the factor written by {FWD} {sorted(w - read_pos)} / read by {INV} {sorted(read_pos - w)} differ")

    # ---------------- R-TABLE: pi segments
    lens = []
    for s in segs:
        lens.append(s.shape[0] if s.shape is not None and len(s.shape) == 1 else None)
    if any(l is None for l in lens):
        raise AnalysisError(f"{FWD}: cannot infer the lengths of the returned segments {lens}")
    total = sum(lens)
    offs = []
    o = 0
    for l in lens:
        offs.append((o, o + l))
        o += l
    seg_blocks = []
    for s in segs:
        seg_blocks.append({d[1] for d in s.deps if d[0] in ("gram", "prod")})
    # reader 1: pseudoinertia_from_pi
    pj = mod.funcs[PI2J]
    pp = params(pj)[0]
    R1 = Interp(make_ctx(mod, PI2J), pj, {pp: Val("vecparam", block=pp, null=False, pair=U_)}).run()
    if R1.ret is not None and R1.ret.uninterp:
        raise AnalysisError(f"{FILE}:{R1.ret.uninterp[0]}: {PI2J}: the matrix J is changed by {R1.ret.uninterp[1]}: its blocks "
                            f"cannot be decided")
    stores = {}
    for base, ix, v, line, tgt in R1.stores:
        if tgt is R1.ret:
            for d in v.deps:
                if d[0] == pp:
                    stores.setdefault(d[1], []).append((txt(ix), line))
    for k, (rng, blocks) in enumerate(zip(offs, seg_blocks)):
        construct = f"pi[{rng[0]}:{rng[1]}]->{PI2J}"
        hit = [t for t in stores if seg_range(t, total) == rng]
        if not hit:
            res.bad("R-TABLE", construct, FILE, pj.lineno, f"{PI2J} does not read the segment pi[{rng[0]}:{rng[1]}] written by {FWD} "
                    f"(reads {sorted(stores)})")
            continue
        tgt = {b for b, _ in stores[hit[0]]}
        fb = next(iter(blocks)) if len(blocks) == 1 else None
        ok = fb is not None and fb in tgt and all(b == fb or b == transpose_block(fb) for b in tgt)
        if ok:
            res.ok("R-TABLE", construct, {"file": FILE, "line": stores[hit[0]][0][1], "J_block": fb})
        else:
            res.bad("R-TABLE", construct, FILE, stores[hit[0]][0][1],
                    f"segment pi[{rng[0]}:{rng[1]}] is taken from J[{', '.join(sorted(blocks))}] by {FWD} but stored to J[{'], J['.join(sorted(tgt))}] by {PI2J}")
    # reader 2: apply_body_theta_inertia (interpreted: loops over literal tables and helpers are followed)
    ap = mod.funcs[APPLY]
    pi_val = Val("vecparam", block="pi", null=False, pair=U_)
    actx = make_ctx(mod, APPLY, hooks={FWD: lambda it, e, a, k: pi_val})
    Interp(actx, ap, {p: Val("arg", block=p, null=False, deps={("arg", p)}) for p in params(ap)}).run()
    if not any(c[0] == FWD for c in actx.calls):
        raise AnalysisError(f"{APPLY}: no call of {FWD} found")
    rd = {}
    for v, _, sl, line in actx.reads:
        if v is pi_val:
            rd.setdefault(seg_range(txt(sl), total), []).append(line)
    for rng in offs:
        construct = f"pi[{rng[0]}:{rng[1]}]->{APPLY}"
        if rng in rd:
            res.ok("R-TABLE", construct, {"file": FILE, "line": rd[rng][0]})
        else:
            res.bad("R-TABLE", construct, FILE, ap.lineno, f"{APPLY} never reads the segment pi[{rng[0]}:{rng[1]}] of {FWD}'s result")
    for rng, lines in rd.items():
        if rng not in offs:
            res.bad("R-TABLE", f"{APPLY}:pi[{rng}]", FILE, lines[0],
                    f"{APPLY} reads pi range {rng}, which is not a segment written by {FWD} ({offs})")
    # mass index agreement
    if mass_idx is not None:
        m_tgt = [t for t, _ in stores.get(next((t for t in stores if seg_range(t, total) == offs[0]), ""), [])]
        if m_tgt and m_tgt != [f"{mass_idx}, {mass_idx}"]:
            res.bad("R-TABLE", f"{PI2J}:mass-index", FILE, pj.lineno, f"mass is J[{mass_idx},{mass_idx}] in {FWD} but stored to J[{m_tgt}] in {PI2J}")

    apply_rules(res, mod, actx, offs, total)
    member = bounds_rules(res, mod, nslots)
    dispatch_rule(res, mod, member)
    return finish(res, mod)


# ---------------------------------------------------------------------------------------------
# R-APPLY

def pi_ranges(v, total):
    return {seg_range(d[1], total) for d in v.deps if d[0] == "pi"}


def unwrap(v):
    while v.kind == "wrapped" or (v.kind == "callres" and v.block in ("float", "int") and v.of and len(v.of) == 1):
        v = v.of[0]
    return v


def pa_info(v):
    """(number of skew factors, sign, scale factors) of a product built from skew(..) values; None: not recognised"""
    v = unwrap(v)
    if v.kind == "callres" and v.block == SKEW:
        return (1, 1, [], [v])
    if v.kind == "neg":
        r = pa_info(v.of[0])
        return None if r is None else (r[0], -r[1], r[2], r[3])
    if v.kind == "transposed":
        r = pa_info(v.of[0])
        return None if r is None else (r[0], r[1] * (-1) ** r[0], r[2], r[3])       # S^T = -S
    if v.kind in ("prod", "matprod"):
        a, b = pa_info(v.of[0]), pa_info(v.of[1])
        if a is None or b is None:
            return None
        if v.kind == "matprod" and (a[0] == 0 or b[0] == 0):
            return None
        return (a[0] + b[0], a[1] * b[1], a[2] + b[2], a[3] + b[3])
    if ("call", SKEW) in v.deps:
        return None
    return (0, 1, [v], [])


def split_sum(v):
    """(other terms, parallel-axis terms) of a sum as lists of (sign, Val, pa_info)"""
    if v.kind != "sum":
        return None
    other, pa = [], []
    for sg, t in v.of:
        if ("call", SKEW) in t.deps:
            info = pa_info(t)
            if info is None or info[0] != 2:
                return None
            pa.append((sg, t, info))
        else:
            other.append((sg, t, None))
    return other, pa


def documented_fullinertia_order():
    """the order given by the XML reference, when the tree has it (scratch copies of python/ only do not): a cross-check
    of the trusted table, not its source"""
    path = os.path.join(cfront.REPO, "doc", "XMLreference.rst")
    try:
        text = open(path, encoding="utf-8", errors="replace").read()
    except OSError:
        return None
    i = text.find(".. _body-inertial-fullinertia:")
    if i < 0:
        return None
    pairs = re.findall(r"M\((\d),\s*(\d)\)", text[i:i + 1200])[:6]
    return [(int(a) - 1, int(b) - 1) for a, b in pairs] if len(pairs) == 6 else None


# ---- the compiler's own decision "replace the inertial of a body by what its geoms give" (read as text, fail-closed)

def read_repo(rel):
    try:
        return open(os.path.join(cfront.REPO, rel), encoding="utf-8", errors="replace").read()
    except OSError as e:
        raise AnalysisError(f"{rel}: cannot be read ({e}); the admissible values of compiler.{IFG} are derived from it")


def cxx_enum_values():
    """{enumerator: int} of mjtInertiaFromGeom"""
    text = read_repo(CXX_ENUM)
    m = re.search(r"typedef\s+enum\s+mjtInertiaFromGeom\s*\{(.*?)\}\s*mjtInertiaFromGeom\s*;", text, re.S)
    if not m:
        raise AnalysisError(f"{CXX_ENUM}: enum mjtInertiaFromGeom not found")
    body = re.sub(r"//[^\n]*", "", m.group(1))
    out, nxt = {}, 0
    for item in body.split(","):
        item = item.strip()
        if not item:
            continue
        mm = re.fullmatch(r"(\w+)(?:\s*=\s*(-?\d+))?", item)
        if not mm:
            raise AnalysisError(f"{CXX_ENUM}: enumerator `{item}` of mjtInertiaFromGeom is not understood")
        if mm.group(2) is not None:
            nxt = int(mm.group(2))
        out[mm.group(1)] = nxt
        nxt += 1
    if len(out) < 2:
        raise AnalysisError(f"{CXX_ENUM}: mjtInertiaFromGeom has fewer than two enumerators")
    return out


def cxx_inertia_from_geom_condition():
    """text of the condition of the `if` whose body calls InertiaFromGeom() in the body compiler"""
    text = re.sub(r"//[^\n]*", "", read_repo(CXX_BODY))
    sites = [m.start() for m in re.finditer(r"\)\s*\{\s*InertiaFromGeom\s*\(\s*\)\s*;", text)]
    if len(sites) != 1:
        raise AnalysisError(f"{CXX_BODY}: expected one `if (..) {{ InertiaFromGeom(); }}`, found {len(sites)}")
    end = sites[0]
    depth, i = 0, end
    while i >= 0:
        if text[i] == ")":
            depth += 1
        elif text[i] == "(":
            depth -= 1
            if depth == 0:
                break
        i -= 1
    if i < 0 or not re.search(r"\bif\s*$", text[:i]):
        raise AnalysisError(f"{CXX_BODY}: the call of InertiaFromGeom() is not the body of a plain `if (..)`")
    return text[i + 1:end]


def kleene_eval(cond, atom):
    """three-valued value (True / False / None) of a C condition over &&, ||, !, parentheses; atom(text) -> value"""
    pos = [0]
    n = len(cond)

    def skip():
        while pos[0] < n and cond[pos[0]].isspace():
            pos[0] += 1

    def p_or():
        v = p_and()
        skip()
        while cond.startswith("||", pos[0]):
            pos[0] += 2
            w = p_and()
            v = True if (v is True or w is True) else False if (v is False and w is False) else None
            skip()
        return v

    def p_and():
        v = p_not()
        skip()
        while cond.startswith("&&", pos[0]):
            pos[0] += 2
            w = p_not()
            v = False if (v is False or w is False) else True if (v is True and w is True) else None
            skip()
        return v

    def p_not():
        skip()
        if pos[0] < n and cond[pos[0]] == "!" and not cond.startswith("!=", pos[0]):
            pos[0] += 1
            v = p_not()
            return None if v is None else not v
        if pos[0] < n and cond[pos[0]] == "(":
            pos[0] += 1
            v = p_or()
            skip()
            if pos[0] >= n or cond[pos[0]] != ")":
                raise AnalysisError(f"{CXX_BODY}: unbalanced condition `{cond.strip()[:120]}`")
            pos[0] += 1
            return v
        start, depth = pos[0], 0
        while pos[0] < n:
            c = cond[pos[0]]
            if depth == 0 and (cond.startswith("&&", pos[0]) or cond.startswith("||", pos[0]) or c == ")"):
                break
            depth += c in "([" 
            depth -= c in ")]"
            pos[0] += 1
        text = re.sub(r"\s+", "", cond[start:pos[0]])
        if not text:
            raise AnalysisError(f"{CXX_BODY}: empty operand in `{cond.strip()[:120]}`")
        return atom(text)
    v = p_or()
    skip()
    if pos[0] != n:
        raise AnalysisError(f"{CXX_BODY}: condition `{cond.strip()[:120]}` is not understood")
    return v


def geoms_override(enum, name, ipos_defined):
    """does the compiler replace the inertial of a non-world body when compiler.inertiafromgeom == name?
    True / False / None (depends on something the Python side does not fix)"""
    cond = cxx_inertia_from_geom_condition()
    seen = []

    def atom(t):
        m = re.fullmatch(r"(?:compiler(?:->|\.))?" + IFG + r"(==|!=)(\w+)", t)
        if m:
            seen.append(t)
            if m.group(2) not in enum:
                raise AnalysisError(f"{CXX_BODY}: `{t}` compares with something that is not an mjtInertiaFromGeom enumerator")
            return (m.group(2) == name) == (m.group(1) == "==")
        if t == "id>0":
            return True                              # a body other than the world
        if t == "mjuu_defined(ipos[0])":
            return ipos_defined
        return None
    v = kleene_eval(cond, atom)
    if not seen:
        raise AnalysisError(f"{CXX_BODY}: the condition of InertiaFromGeom() no longer tests compiler->{IFG}: `{cond.strip()[:120]}`")
    return v


def inertiafromgeom_rule(res, mod, actx, body, ipos_written):
    """necessary for "the applied theta survives compilation": when the applying function returns, spec.compiler.
    inertiafromgeom holds a value under which the compiler does not replace the body's inertial by its geoms'"""
    ap = mod.funcs[APPLY]
    construct = f"{APPLY}:{IFG}"
    enum = cxx_enum_values()
    verdict = {nm: geoms_override(enum, nm, True if ipos_written else None) for nm in enum}
    admissible = sorted(nm for nm, v in verdict.items() if v is False)
    if not admissible or len(admissible) == len(enum):
        raise AnalysisError(f"{CXX_BODY}: the InertiaFromGeom() condition admits {admissible} of {sorted(enum)}: not the decision "
                            f"this rule was written for")
    args = {d for d in body.deps if d[0] == "arg"}
    stores = [s for s in actx.attr_stores if s["attr"] == IFG and s["index"] is None and
              ("attr", "compiler") in s["obj"].deps and ({d for d in s["obj"].deps if d[0] == "arg"} & args or not args)]

    def enumerator(v):
        v = unwrap(v)
        c = v.const
        if isinstance(c, bool):
            c = int(c)
        if isinstance(c, int):
            hit = [nm for nm, k in enum.items() if k == c]
            return hit[0] if hit else ("?", c)
        if isinstance(c, tuple) and len(c) == 2 and c[0] == "sym":
            parts = c[1].split(".")
            if parts[-1] == "value":
                parts = parts[:-1]
            return parts[-1] if parts[-1] in enum else None
        return None                                   # int(Enum.member) / Enum.member.value are unwrapped above
    state, where, why = "unset", ap.lineno, ""
    for s in stores:
        if s["aug"]:
            raise AnalysisError(f"{FILE}:{s['line']}: augmented store to compiler.{IFG} is not interpreted")
        nm = enumerator(s["val"])
        if nm is None and unwrap(s["val"]).const is NC and ("attr", IFG) in unwrap(s["val"]).deps:
            nm = ("?", "whatever value compiler.%s had before (a saved copy is written back), which may be %s" % (
                IFG, " / ".join(sorted(set(enum) - set(admissible)))))
        if nm is None:
            raise AnalysisError(f"{FILE}:{s['line']}: the value stored to compiler.{IFG} is not a constant the checker can name")
        good = nm in admissible
        if s["cond"]:
            if not good:
                state, where, why = "bad", s["line"], f"on some paths it is set to {nm if isinstance(nm, str) else nm[1]}"
            elif state == "unset":
                where, why = s["line"], "it is set on some paths only"
        else:
            state = "ok" if good else "bad"
            where, why = s["line"], ("" if good else f"it is set to {nm if isinstance(nm, str) else nm[1]}")
            last = nm
    if state == "ok":
        res.ok("R-APPLY", construct, {"file": FILE, "line": where, "stored": last, "admissible": admissible,
                                      "compiler_condition": " ".join(cxx_inertia_from_geom_condition().split())})
        return
    if state == "unset" and not stores:
        blind = [f for f in actx.failed_inlines if any(({d for d in v.deps if d[0] == "arg"} & args) for v in f[1])]
        if blind:
            raise AnalysisError(f"{FILE}:{blind[0][2]}: {APPLY} hands the spec to {blind[0][0]}, which the interpreter cannot "
                                f"execute: whether compiler.{IFG} is set cannot be decided")
    res.bad("R-APPLY", construct, FILE, where,
            f"{APPLY}: when it returns, spec.compiler.{IFG} is not guaranteed to hold a value under which the explicit "
            f"inertial wins ({' / '.join(admissible)}): " + (why or "it is never set") +
            f". The compiler replaces the body's mass properties by its geoms' when "
            f"`{' '.join(cxx_inertia_from_geom_condition().split())}` ({CXX_BODY}), so a spec with {IFG}=\"true\" compiles "
            f"without the applied theta")


def apply_rules(res, mod, actx, offs, total):
    ap = mod.funcs[APPLY]
    doc_order = documented_fullinertia_order()
    if doc_order is not None and doc_order != MJ_FULLINERTIA_ORDER:
        raise AnalysisError(f"doc/XMLreference.rst documents the fullinertia order {doc_order}, the checker trusts {MJ_FULLINERTIA_ORDER}")
    if len(offs) != 3:
        raise AnalysisError(f"{FWD}: expected the three segments [mass], h, I_bar of pi, found {len(offs)}")
    seg_m, seg_h, seg_i = offs
    elem_stores = [s for s in actx.attr_stores if s["attr"] == "fullinertia" and
                   (s["index"] is not None or (s["val"].kind == "seq" and s["val"].of is not None and len(s["val"].of) == 6))]
    bodies = uniq(s["obj"] for s in elem_stores)
    if len(bodies) != 1:
        raise AnalysisError(f"{APPLY}: cannot identify the body whose fullinertia is written ({len(bodies)} candidates)")
    body = bodies[0]
    hidden = [s for s in actx.attr_stores if s["obj"] is body and s["cond"]]
    if hidden:
        raise AnalysisError(f"{FILE}:{hidden[0]['line']}: {APPLY}: body.{hidden[0]['attr']} is written under a condition the "
                            f"bound constants do not decide")
    inertiafromgeom_rule(res, mod, actx, body,
                         any(s["obj"] is body and s["attr"] == "ipos" and s["index"] is None for s in actx.attr_stores))

    def last_store(attr):
        hit = [s for s in actx.attr_stores if s["obj"] is body and s["attr"] == attr and s["index"] is None and not s["aug"]]
        return hit[-1] if hit else None

    # mass
    construct = f"{APPLY}:body.mass"
    s = last_store("mass")
    v = unwrap(s["val"]) if s else None
    if s is not None and v.kind == "seg" and pi_ranges(v, total) == {seg_m}:
        res.ok("R-APPLY", construct, {"file": FILE, "line": s["line"], "value": f"pi[{seg_m[0]}:{seg_m[1]}]"})
        mass_val = s["val"]
    elif s is not None and pi_ranges(v, total) == {seg_m} and v.kind != "seg":
        raise AnalysisError(f"{FILE}:{s['line']}: {APPLY}: the value written to body.mass is not recognised")
    else:
        res.bad("R-APPLY", construct, FILE, s["line"] if s and s["depth"] == 0 else ap.lineno,
                f"{APPLY}: body.mass is not set to the mass segment pi[{seg_m[0]}:{seg_m[1]}] of {FWD}'s result"
                + (f" (it is derived from pi ranges {sorted(pi_ranges(v, total))})" if s else " (no store)"))
        mass_val = None
    # ipos = h / m
    construct = f"{APPLY}:body.ipos"
    s = last_store("ipos")
    v = unwrap(s["val"]) if s else None
    ipos_val = s["val"] if s else None
    if s is not None and pi_ranges(v, total) == {seg_m, seg_h}:
        if v.kind == "quot" and unwrap(v.of[0]).kind == "seg" and unwrap(v.of[1]).kind == "seg" and \
                pi_ranges(v.of[0], total) == {seg_h} and pi_ranges(v.of[1], total) == {seg_m}:
            res.ok("R-APPLY", construct, {"file": FILE, "line": s["line"], "value": f"pi[{seg_h[0]}:{seg_h[1]}] / pi[{seg_m[0]}:{seg_m[1]}]"})
        elif v.kind == "quot" and pi_ranges(v.of[0], total) == {seg_m} and pi_ranges(v.of[1], total) == {seg_h}:
            res.bad("R-APPLY", construct, FILE, s["line"], f"{APPLY}: body.ipos is m / h, not the first moment divided by the mass")
        else:
            raise AnalysisError(f"{FILE}:{s['line']}: {APPLY}: the value written to body.ipos is not recognised as h / m")
    else:
        res.bad("R-APPLY", construct, FILE, s["line"] if s and s["depth"] == 0 else ap.lineno,
                f"{APPLY}: body.ipos is not set to pi[{seg_h[0]}:{seg_h[1]}] / pi[{seg_m[0]}:{seg_m[1]}] (first moment / mass)"
                + (f" (it is derived from pi ranges {sorted(pi_ranges(v, total))})" if s else " (no store)"))
    # fullinertia elements
    elems = {}
    for s in elem_stores:
        if s["index"] is None:
            for k, x in enumerate(s["val"].of):
                elems[k] = (x, s["line"])
        else:
            k = const_int(s["index"])
            if k is None:
                if isinstance(s["index"], ast.Slice):
                    continue                       # e.g. a reset of the whole vector before it is filled
                raise AnalysisError(f"{FILE}:{s['line']}: {APPLY}: store to body.fullinertia at an index that is not a constant")
            elems[k] = (s["val"], s["line"])
    sources = uniq(unwrap(x).of for x, _ in elems.values() if unwrap(x).kind == "elem")
    if len(sources) != 1 or any(unwrap(x).kind != "elem" for x, _ in elems.values()):
        raise AnalysisError(f"{APPLY}: the values written to body.fullinertia are not elements of one matrix")
    S = sources[0]
    parts = split_sum(S)
    construct = f"{APPLY}:parallel-axis"
    if parts is None or len(parts[0]) != 1 or len(parts[1]) != 1:
        raise AnalysisError(f"{FILE}:{S.line}: {APPLY}: the matrix written to body.fullinertia is not recognised as "
                            f"I_bar +/- m * skew(ipos) @ skew(ipos)")
    (sg_i, t_i, _), (sg_p, t_p, info) = parts[0][0], parts[1][0]
    scales = [unwrap(x) for x in info[2]]
    if not (unwrap(t_i).kind == "reshaped" and pi_ranges(t_i, total) == {seg_i} and sg_i == 1):
        res.bad("R-APPLY", construct, FILE, S.line, f"{APPLY}: the inertia term of body.fullinertia is not +pi[{seg_i[0]}:{seg_i[1]}] "
                f"reshaped (it is derived from pi ranges {sorted(pi_ranges(t_i, total))}, sign {sg_i:+d})")
    elif len(scales) != 1 or (mass_val is not None and scales[0] is not unwrap(mass_val) and pi_ranges(scales[0], total) != {seg_m}):
        res.bad("R-APPLY", construct, FILE, S.line, f"{APPLY}: the parallel-axis term is not scaled by the mass exactly once")
    elif ipos_val is not None and any(unwrap(c.of[0]) is not unwrap(ipos_val) for c in info[3]):
        res.bad("R-APPLY", construct, FILE, S.line, f"{APPLY}: the parallel-axis term is not built from skew of the centre of mass "
                f"just written to body.ipos")
    elif sg_p * info[1] != 1:
        res.bad("R-APPLY", construct, FILE, S.line,
                f"{APPLY}: body.fullinertia = I_bar - m S(c) S(c): the parallel-axis term has the wrong sign (the inertia about "
                f"the centre of mass is I_bar + m S(c) S(c), S(c) S(c) being negative semi-definite)")
    else:
        res.ok("R-APPLY", construct, {"file": FILE, "line": S.line, "fullinertia": "I_bar + m * S(ipos) @ S(ipos)"})
    for k, want in enumerate(MJ_FULLINERTIA_ORDER):
        construct = f"{APPLY}:fullinertia[{k}]"
        if k not in elems:
            res.bad("R-APPLY", construct, FILE, ap.lineno, f"{APPLY}: body.fullinertia[{k}] is never written")
            continue
        x, line = elems[k]
        got = tuple(unwrap(x).block)
        if got == want or got == want[::-1]:
            res.ok("R-APPLY", construct, {"file": FILE, "line": line, "element": list(got)})
        else:
            res.bad("R-APPLY", construct, FILE, line,
                    f"{APPLY}: body.fullinertia[{k}] receives element {got} of the inertia matrix; MuJoCo's order puts "
                    f"M({want[0] + 1},{want[1] + 1}) there")
    for k in sorted(set(elems) - set(range(len(MJ_FULLINERTIA_ORDER)))):
        res.bad("R-APPLY", f"{APPLY}:fullinertia[{k}]", FILE, elems[k][1], f"{APPLY}: body.fullinertia has 6 entries, index {k} is written")

    # the map this inverts: pi_from_body
    bp = mod.funcs[BODYPI]
    bctx = make_ctx(mod, BODYPI)
    B = Interp(bctx, bp, {p: Val("arg", block=p, null=False, deps={("arg", p)}) for p in params(bp)}).run()
    construct = f"{BODYPI}:parallel-axis"
    cands = []
    if B.ret is not None and B.ret.kind == "concat":
        for part in B.ret.of:
            x = unwrap(part)
            while x.kind in ("flat", "reshaped"):
                x = unwrap(x.of)
            if x.kind == "sum" and ("call", SKEW) in x.deps:
                cands.append(x)
    if len(cands) != 1:
        raise AnalysisError(f"{BODYPI}: cannot identify I_bar = fullinertia -/+ m * skew(ipos) @ skew(ipos) in the returned vector")
    parts = split_sum(cands[0])
    if parts is None or len(parts[0]) != 1 or len(parts[1]) != 1:
        raise AnalysisError(f"{FILE}:{cands[0].line}: {BODYPI}: I_bar is not recognised as fullinertia -/+ m * skew(ipos) @ skew(ipos)")
    (sg_i, t_i, _), (sg_p, t_p, info) = parts[0][0], parts[1][0]
    if len(info[2]) != 1 or ("attr", "mass") not in info[2][0].deps or any(("attr", "ipos") not in c.deps for c in info[3]):
        raise AnalysisError(f"{FILE}:{cands[0].line}: {BODYPI}: the parallel-axis term is not m * skew(ipos) @ skew(ipos) of the body's mass and ipos")
    if sg_i == 1 and sg_p * info[1] == -1:
        res.ok("R-APPLY", construct, {"file": FILE, "line": cands[0].line, "I_bar": "fullinertia - m * S(ipos) @ S(ipos)"})
    else:
        res.bad("R-APPLY", construct, FILE, cands[0].line,
                f"{BODYPI}: I_bar = {'+' if sg_i == 1 else '-'}fullinertia {'+' if sg_p * info[1] == 1 else '-'} m S(c) S(c): the inertia about "
                f"the body origin is fullinertia - m S(c) S(c) (and {APPLY} inverts that form)")


# ---------------------------------------------------------------------------------------------
# R-BOUNDS / bound rows of R-TABLE

def parameter_signature():
    """positional parameter names of Parameter.__init__ (after self), read from parameter.py"""
    path = os.path.join(cfront.REPO, PARAM_FILE)
    try:
        tree = ast.parse(open(path).read())
    except (OSError, SyntaxError) as e:
        raise AnalysisError(f"{PARAM_FILE}: cannot read the Parameter constructor ({e})")
    for n in tree.body:
        if isinstance(n, ast.ClassDef) and n.name == "Parameter":
            for m in n.body:
                if isinstance(m, ast.FunctionDef) and m.name == "__init__":
                    return [a.arg for a in m.args.posonlyargs + m.args.args][1:]
    raise AnalysisError(f"{PARAM_FILE}: class Parameter with __init__ not found")


def enum_root_and_members(mod, fn):
    """the enum the parameter type is selected by: annotation / default of a parameter, and its members used in the module"""
    a = fn.args
    allp = a.posonlyargs + a.args + a.kwonlyargs
    defaults = dict(zip([x.arg for x in (a.posonlyargs + a.args)][len(a.posonlyargs + a.args) - len(a.defaults):], a.defaults))
    defaults.update({x.arg: d for x, d in zip(a.kwonlyargs, a.kw_defaults) if d is not None})
    for x in allp:
        d = defaults.get(x.arg)
        if isinstance(d, ast.Attribute) and isinstance(d.value, ast.Name) and not mod.has_global(d.value.id):
            root = d.value.id
            members = sorted({n.attr for n in ast.walk(mod.tree) if isinstance(n, ast.Attribute) and
                              isinstance(n.value, ast.Name) and n.value.id == root})
            return x.arg, root, members, defaults
    raise AnalysisError(f"{fn.name}: no parameter with an enum default selects the parameter type")


def run_param(mod, member, root, tparam, defaults, supplied):
    fn = mod.funcs[PARAMFN]
    theta0 = Val("theta", block="theta0", null=False, pair=U_)
    ctx = make_ctx(mod, PARAMFN, hooks={nm: (lambda it, e, a, k: theta0) for nm in THETA_SOURCES})
    env = {}
    a = fn.args
    for x in a.posonlyargs + a.args + a.kwonlyargs:
        p = x.arg
        d = defaults.get(p)
        if p == tparam:
            env[p] = Val("other", const=("sym", f"{root}.{member}"), null=False, pair=U_)
        elif isinstance(d, ast.Constant) and d.value is None:
            env[p] = Val("pairparam", block=p, null=False, pair=ORD, deps={("bound", p)}) if supplied else \
                Val("none", const=None, null=True, pair=U_)
        else:
            env[p] = Val("arg", block=p, null=False, deps={("arg", p)}, pair=U_)
    it = Interp(ctx, fn, env).run()
    return it, ctx, theta0


def bounds_rules(res, mod, nslots):
    fn = mod.funcs[PARAMFN]
    tparam, root, members, defaults = enum_root_and_members(mod, fn)
    reached = []
    for m in members:
        try:
            it, ctx, theta0 = run_param(mod, m, root, tparam, defaults, True)
        except AnalysisError as e:
            reached.append((m, None, None, None, e))
            continue
        if any(c[0] in THETA_SOURCES for c in ctx.calls):
            reached.append((m, it, ctx, theta0, None))
    hits = [r for r in reached if r[1] is not None]
    if len(hits) != 1:
        errs = "; ".join(f"{m}: {e}" for m, it, _, _, e in reached if e is not None)
        raise AnalysisError(f"{PARAMFN}: expected exactly one member of {root} whose branch takes theta from "
                            f"{' / '.join(THETA_SOURCES)}, found {[r[0] for r in hits]}" + (f" ({errs})" if errs else ""))
    member = hits[0][0]
    sig = parameter_signature()
    runs = {"supplied": hits[0][1:4]}
    it, ctx, theta0 = run_param(mod, member, root, tparam, defaults, False)
    runs["defaults"] = (it, ctx, theta0)

    def ctor_args(it):
        r = it.ret
        if r is None or r.kind != "callres" or r.block != "Parameter":
            raise AnalysisError(f"{PARAMFN}: the value returned for {root}.{member} is not constructed by Parameter(...)")
        got = dict(zip(sig, r.of))
        got.update(getattr(r, "kw", None) or {})
        return r, got

    r, got = ctor_args(runs["supplied"][0])
    theta0 = runs["supplied"][2]
    for need in ("nominal", "min_value", "max_value"):
        if need not in got:
            raise AnalysisError(f"{PARAMFN}: Parameter(...) is called without `{need}` (signature {sig})")
    construct = f"{PARAMFN}:nominal"
    if unwrap(got["nominal"]) is theta0:
        res.ok("R-BOUNDS", construct, {"file": FILE, "line": r.line, "member": f"{root}.{member}"})
    else:
        res.bad("R-BOUNDS", construct, FILE, r.line, f"{PARAMFN}: the nominal value of the {member} parameter is not the theta vector of the body")
    lo, hi = unwrap(got["min_value"]), unwrap(got["max_value"])
    construct = f"{PARAMFN}:bounds-columns"
    if not (lo.kind == "column" and hi.kind == "column" and lo.of is hi.of and lo.of.kind == "vstack"):
        raise AnalysisError(f"{FILE}:{r.line}: {PARAMFN}: min_value / max_value are not columns of one stack of [low, high] rows")
    if (lo.block % 2, hi.block % 2) == (0, 1) and -2 <= lo.block < 2 and -2 <= hi.block < 2:
        res.ok("R-BOUNDS", construct, {"file": FILE, "line": r.line, "min_value": "column 0", "max_value": "column 1"})
    else:
        res.bad("R-BOUNDS", construct, FILE, r.line,
                f"{PARAMFN}: min_value is column {lo.block} and max_value column {hi.block} of the [low, high] rows: lower and upper bound are exchanged")
    stack = lo.of
    # rows in slot order (R-TABLE)
    pos = 0
    for k, row in enumerate(stack.of):
        construct = f"{PARAMFN}:bounds-row:{k}"
        sl = {seg_range(d[1], nslots) for d in row.deps if d[0] == theta0.block}
        if len(sl) == 1 and None not in sl and next(iter(sl))[0] == pos:
            rng = next(iter(sl))
            res.ok("R-TABLE", construct, {"file": FILE, "line": stack.line, "slots": list(rng)})
            pos = rng[1]
        else:
            res.bad("R-TABLE", construct, FILE, stack.line,
                    f"{PARAMFN}: bounds row group {k} is derived from theta slots {sorted(s for s in sl if s)} but is stacked at row {pos}: "
                    f"bounds would constrain the wrong parameters")
            rngs = [s for s in sl if s]
            pos = (rngs[0][1] if len(rngs) == 1 else pos + 1)
    if pos != nslots:
        res.bad("R-TABLE", f"{PARAMFN}:bounds-rows-total", FILE, stack.line, f"bounds cover slots up to {pos}, theta has {nslots}")
    # every row keeps low <= high (R-BOUNDS): for a pair supplied by the caller, and for the built-in defaults
    for mode in ("supplied", "defaults"):
        rr, gg = ctor_args(runs[mode][0])
        lo2 = unwrap(gg.get("min_value", Val()))
        if lo2.kind != "column" or lo2.of.kind != "vstack" or len(lo2.of.of) != len(stack.of):
            raise AnalysisError(f"{PARAMFN}: the bounds built from the {mode} bound pairs have a different shape")
        for k, row in enumerate(lo2.of.of):
            construct = f"{PARAMFN}:bounds-order:{k}:{mode}"
            src = sorted({d[1] for d in row.deps if d[0] == "bound"})
            if row.pair == ORD:
                res.ok("R-BOUNDS", construct, {"file": FILE, "line": lo2.of.line, "bound_pair": src, "order": "low <= high kept"})
            elif row.pair == REV:
                res.bad("R-BOUNDS", construct, FILE, lo2.of.line,
                        f"{PARAMFN}: bounds row group {k} is a decreasing function of its [low, high] pair"
                        + (f" ({', '.join(src)})" if src else " (the default pair is written high first)")
                        + ": the lower bound ends up above the upper bound")
            else:
                raise AnalysisError(f"{FILE}:{lo2.of.line}: {PARAMFN}: cannot decide whether bounds row group {k} keeps low <= high ({mode} pairs)")
    return root, member


def dispatch_rule(res, mod, enum_member):
    root, member = enum_member
    fn = mod.funcs[DISPATCH]
    ps = params(fn)
    tagged = []
    for p in ps:
        ann = next((a.annotation for a in fn.args.posonlyargs + fn.args.args if a.arg == p), None)
        if ann is not None and dotted(ann).split(".")[-1] == "Parameter":
            tagged.append(p)
    if len(tagged) != 1:
        raise AnalysisError(f"{DISPATCH}: expected one parameter annotated Parameter")
    members = sorted({n.attr for n in ast.walk(mod.tree) if isinstance(n, ast.Attribute) and
                      isinstance(n.value, ast.Name) and n.value.id == root})
    result = {}
    for m in members:
        calls = []
        ctx = make_ctx(mod, DISPATCH, hooks={APPLY: lambda it, e, a, k: (calls.append((a, k, e.lineno)), Val(null=False))[1]})
        pv = Val("obj", block=tagged[0], null=False, deps={("param", tagged[0])})
        pv.fields = {"inertia_type": Val("other", const=("sym", f"{root}.{m}"), null=False, pair=U_)}
        env = {p: (pv if p == tagged[0] else Val("arg", block=p, null=False, deps={("arg", p)})) for p in ps}
        Interp(ctx, fn, env).run()
        result[m] = calls
    construct = f"{DISPATCH}:{member}->{APPLY}"
    ap_params = params(mod.funcs[APPLY])
    calls = result.get(member, [])
    stray = sorted(m for m, c in result.items() if m != member and c)
    if len(calls) != 1:
        res.bad("R-APPLY", construct, FILE, fn.lineno, f"{DISPATCH}: a parameter of type {root}.{member} reaches {APPLY} {len(calls)} times, expected once")
        return
    a, k, line = calls[0]
    got = dict(zip(ap_params, a))
    got.update(k)
    tv = got.get(ap_params[-1])
    if stray:
        res.bad("R-APPLY", construct, FILE, line, f"{DISPATCH}: parameters of type {stray} are applied as theta vectors")
    elif tv is None or not ({("param", tagged[0]), ("attr", "value")} <= tv.deps) or pi_like(tv):
        res.bad("R-APPLY", construct, FILE, line, f"{DISPATCH}: {APPLY} does not receive the current value of the parameter (`{tagged[0]}.value`) as theta")
    else:
        res.ok("R-APPLY", construct, {"file": FILE, "line": line, "theta": f"{tagged[0]}.value"})


def pi_like(v):
    """the value is more than the plain attribute read (sliced, scaled, ...)"""
    return v.kind not in ("other",) or any(d[0] in ("?", "elem", "call") for d in v.deps)


def resolve_inverse(I, inv, i, U, read_pos):
    """slot index that inverse(forward(theta))[i] simplifies to, or None"""
    v = I.ret.of[i]
    s = v.sym

    def sub_term(t):
        out = Term(t.coeff, {k: p for k, p in t.pw.items() if k[0] != "U"})
        for k, p in t.pw.items():
            if k[0] == "U":
                read_pos.add((k[1], k[2]))
                ent = U.grid[k[1]][k[2]][1]
                if ent is None:
                    return None
                for _ in range(abs(p)):
                    out = out.mul(ent, 1 if p > 0 else -1)
                    if out is None:
                        return None
        return out
    if isinstance(s, Term):
        t = sub_term(s)
        return slot_of(t) if t is not None else None
    if isinstance(s, DeferredLog):
        return s.resolve(sub_term)
    if isinstance(s, Lin):
        return s.is_slot()
    return None


class DeferredLog:
    """sum of +-log(Term over U atoms) + Lin : evaluated after substituting the forward entries"""

    def __init__(self, logs=None, lin=None):
        self.logs = list(logs or [])      # (sign, Term)
        self.lin = lin or Lin()

    def resolve(self, sub_term):
        acc = self.lin
        for sg, t in self.logs:
            tt = sub_term(t)
            if tt is None:
                return None
            l = sym_log(tt)
            if l is None:
                return None
            acc = acc.add(l, sg)
        return acc.is_slot()


# extend the symbolic operations with deferred logs of factor entries
_old_log, _old_add, _old_exp = sym_log, sym_add, sym_exp


def sym_log(v):            # noqa: F811
    if isinstance(v, Term) and any(k[0] == "U" for k in v.pw):
        return DeferredLog([(1, v)])
    return _old_log(v)


def sym_add(a, b, sign=1):   # noqa: F811
    if isinstance(a, DeferredLog) or isinstance(b, DeferredLog):
        da = a if isinstance(a, DeferredLog) else DeferredLog([], a if isinstance(a, Lin) else a.as_lin() if isinstance(a, Term) else None)
        db = b if isinstance(b, DeferredLog) else DeferredLog([], b if isinstance(b, Lin) else b.as_lin() if isinstance(b, Term) else None)
        if da.lin is None or db.lin is None:
            return None
        return DeferredLog(da.logs + [(sg * sign, t) for sg, t in db.logs], da.lin.add(db.lin, sign))
    return _old_add(a, b, sign)



def finish(res, mod):
    res.count("functions", 8)
    res.count("cxx_conditions", 1)
    res.explanation = (
        "Abstract interpretation (ast only) of model_modifier.py: loops over literal tables are unrolled, helpers and "
        "closures are evaluated by binding their parameters, branches are taken when the bound constants decide them "
        "(one run per parameter type), so the verdict depends on what the code computes, not on how it is laid out. "
        "pi_from_theta over the sign domain with a literal-shape grid for the factor: triangular zero pattern, POS "
        "diagonal, J formed as the Gram matrix of that very matrix, mass = a diagonal element of J; "
        "cholesky_decompose_upper conjugates np.linalg.cholesky by the index reversal on both sides and the inverse map "
        "uses the matching factor. Symbolic exp/log/product normal form proves theta_from_pseudoinertia(U(theta))[i] == "
        "theta[i] per slot; pi segment offsets/lengths are inferred from shapes and compared with the readers; bound "
        "rows follow slot order. apply_body_theta_inertia stores mass, h/m and I_bar + m S S in MuJoCo's fullinertia "
        "order, inverting pi_from_body's I_bar = I - m S S, and leaves compiler.inertiafromgeom at a value for which the "
        "C++ body compiler's InertiaFromGeom() condition (read from src/user/user_objects.cc, enumerators from mjspec.h) is "
        "false; the Parameter of the pseudo-inertia type gets theta and the "
        "low/high columns of rows that are monotone non-decreasing in their bound pairs.")
    res.not_decided = ("floating-point overflow/underflow of exp for extreme theta; that the compiled spec has the same "
                       "mass properties (fullinertia ordering is a cross-language contract, taken from the XML reference); "
                       "pi_from_body's segment lengths; which [low, high] pair constrains which slot group; that the "
                       "bounds contain the nominal theta.")
    res.assumptions = ["theta is a real finite 10-vector", "J symmetric: a block and its transpose hold the same segment",
                       "the body mass is positive (sign of the parallel-axis term is relative to m S S)",
                       "bound pairs supplied by the caller are given as [low, high]",
                       "distinct members of the InertiaType enum compare unequal"]
    return None


# ---------------------------------------------------------------------------------------------
# self-test (thorough tier): scratch-copy mutants.  Must-fire mutants are the defects each rule exists for; controls are
# behaviour-preserving shapes (small versions of the stored refactor E-p7) that must leave the result unchanged.

_FILL = """  U[0, 0] = exp_d1
  U[0, 1] = s12
  U[0, 2] = s13
  U[0, 3] = t1
  U[1, 1] = exp_d2
  U[1, 2] = s23
  U[1, 3] = t2
  U[2, 2] = exp_d3
  U[2, 3] = t3
  U[3, 3] = 1
"""
_FILL_TABLE = """  entries = {
      (0, 0): exp_d1, (1, 1): exp_d2, (2, 2): exp_d3, (3, 3): 1,
      (0, 1): s12, (0, 2): s13, (1, 2): s23,
      (0, 3): t1, (1, 3): t2, (2, 3): t3,
  }
  for index, entry in entries.items():
    U[index] = entry
"""
_EXTRACT = """  d1 = np.log(U[0, 0] / exp_alpha)
  d2 = np.log(U[1, 1] / exp_alpha)
  d3 = np.log(U[2, 2] / exp_alpha)
"""
_EXTRACT_HELPER = """  def normalized(row, col):
    return U[row, col] / exp_alpha

  d1, d2, d3 = [np.log(normalized(i, i)) for i in range(3)]
"""
_FULL = """  body.fullinertia[0] = fullinertia[0, 0]  # Ixx
  body.fullinertia[1] = fullinertia[1, 1]  # Iyy
  body.fullinertia[2] = fullinertia[2, 2]  # Izz
  body.fullinertia[3] = fullinertia[0, 1]  # Ixy
  body.fullinertia[4] = fullinertia[0, 2]  # Ixz
  body.fullinertia[5] = fullinertia[1, 2]  # Iyz
"""
_FULL_LOOP = """  for i, index in enumerate(_FULLINERTIA_ORDER):
    body.fullinertia[i] = fullinertia[index]
"""
_S_T_ROWS = """    s_bounds = theta_i_0[4 : 4 + 3, np.newaxis] + np.atleast_2d(shear_bound_off)
"""
_T_ROWS = """    t_bounds = theta_i_0[7:10, np.newaxis] + np.atleast_2d(ipos_bound_off)
"""

_CHOL_BODY = """  n = J.shape[0]
  indices = np.arange(n - 1, -1, -1)
  J_reversed = J[indices][:, indices]
  L_prime = np.linalg.cholesky(J_reversed)
  return L_prime[indices][:, indices]
"""
_CHOL_HELPER_BODY = """  L_prime = np.linalg.cholesky(_flip_rows_and_cols(J))
  return _flip_rows_and_cols(L_prime)
"""
_FLIP_HELPER = """def _flip_rows_and_cols(A):
  indices = np.arange(A.shape[0] - 1, -1, -1)
  return A[indices][:, indices]


"""

MUTANTS = [
    # ---- R-SIGN
    {"id": "fill-wrong-index-pair", "expect": ("R-SIGN", "pi_from_theta:U[1,0]"),
     "edits": [(FILE, "  U[0, 1] = s12\n", "  U[1, 0] = s12\n")]},
    {"id": "diagonal-not-exponentiated", "expect": ("R-SIGN", "pi_from_theta:U[2,2]"),
     "edits": [(FILE, "  U[2, 2] = exp_d3\n", "  U[2, 2] = d3\n")]},
    {"id": "mass-off-diagonal", "expect": ("R-SIGN", "pi_from_theta:mass"),
     "edits": [(FILE, "  h = J[:3, 3]\n  m = J[3, 3]\n", "  h = J[:3, 3]\n  m = J[3, 2]\n")]},
    {"id": "gram-of-other-order-inverse-unchanged", "expect": ("R-SIGN", "theta_from_pseudoinertia:factor-kind"),
     "edits": [(FILE, "  J = U @ U.T\n", "  J = U.T @ U\n")]},
    {"id": "table-fill-wrong-pair", "expect": ("R-SIGN", "pi_from_theta:U[2,1]"),
     "edits": [(FILE, _FILL, _FILL_TABLE.replace("(1, 2): s23", "(2, 1): s23"))]},
    {"id": "cholesky-input-rows-only", "expect": ("R-SIGN", "cholesky_decompose_upper:input-reversal"),
     "edits": [(FILE, "  J_reversed = J[indices][:, indices]\n", "  J_reversed = J[indices]\n")]},
    {"id": "cholesky-output-not-reversed", "expect": ("R-SIGN", "cholesky_decompose_upper:output-reversal"),
     "edits": [(FILE, "  return L_prime[indices][:, indices]\n", "  return L_prime\n")]},
    {"id": "cholesky-ridge-added", "expect": ("R-SIGN", "cholesky_decompose_upper:input-reversal"),
     "edits": [(FILE, "  L_prime = np.linalg.cholesky(J_reversed)\n", "  J_reversed += 1e-12 * np.eye(n)\n  L_prime = np.linalg.cholesky(J_reversed)\n")]},
    {"id": "cholesky-factor-transposed", "expect": ("R-SIGN", "cholesky_decompose_upper:output-reversal"),
     "edits": [(FILE, "  return L_prime[indices][:, indices]\n", "  return L_prime.T[indices][:, indices]\n")]},
    {"id": "cholesky-flip-helper-rows-only", "expect": ("R-SIGN", "cholesky_decompose_upper:output-reversal"),
     "edits": [(FILE, _CHOL_BODY, _CHOL_HELPER_BODY),
               (FILE, "def cholesky_decompose_upper(", _FLIP_HELPER.replace("A[indices][:, indices]", "A[indices]") + "def cholesky_decompose_upper(")]},
    # ---- R-TABLE
    {"id": "assembly-wrong-block", "expect": ("R-TABLE", "pi[1:4]->pseudoinertia_from_pi"),
     "edits": [(FILE, "  J[3, :3] = h\n", "  J[2, :3] = h\n")]},
    {"id": "inverse-reads-wrong-entry", "expect": ("R-TABLE", "theta[6]"),
     "edits": [(FILE, "  s13 = U[0, 2] / exp_alpha\n", "  s13 = U[1, 2] / exp_alpha\n")]},
    {"id": "helper-reads-transposed-entry", "expect": ("R-TABLE", "theta[4]"),
     "edits": [(FILE, "  s12 = U[0, 1] / exp_alpha\n", "  def normalized(row, col):\n    return U[col, row] / exp_alpha\n\n  s12 = normalized(0, 1)\n")]},
    {"id": "bound-rows-out-of-slot-order", "expect": ("R-TABLE", "body_inertia_param:bounds-row"),
     "edits": [(FILE, "        d_bounds,\n        s_bounds,\n", "        s_bounds,\n        d_bounds,\n")]},
    # ---- R-APPLY
    {"id": "parallel-axis-sign-apply", "expect": ("R-APPLY", "apply_body_theta_inertia:parallel-axis"),
     "edits": [(FILE, "  fullinertia = I_bar + (body.mass * skew_ipos @ skew_ipos)\n", "  fullinertia = I_bar - (body.mass * skew_ipos @ skew_ipos)\n")]},
    {"id": "parallel-axis-sign-extract", "expect": ("R-APPLY", "pi_from_body:parallel-axis"),
     "edits": [(FILE, "  I_bar = fullinertia - (mass * skew(ipos) @ skew(ipos))\n", "  I_bar = fullinertia + (mass * skew(ipos) @ skew(ipos))\n")]},
    {"id": "first-moment-to-wrong-field", "expect": ("R-APPLY", "apply_body_theta_inertia:body.ipos"),
     "edits": [(FILE, "  body.ipos = pi[1:4] / pi[0]\n", "  body.iquat = pi[1:4] / pi[0]\n")]},
    {"id": "mass-from-wrong-segment", "expect": ("R-APPLY", "apply_body_theta_inertia:body.mass"),
     "edits": [(FILE, "  body.mass = pi[0]\n", "  body.mass = pi[1]\n")]},
    {"id": "fullinertia-order", "expect": ("R-APPLY", "apply_body_theta_inertia:fullinertia[4]"),
     "edits": [(FILE, "  body.fullinertia[4] = fullinertia[0, 2]  # Ixz\n  body.fullinertia[5] = fullinertia[1, 2]  # Iyz\n",
                "  body.fullinertia[4] = fullinertia[1, 2]  # Iyz\n  body.fullinertia[5] = fullinertia[0, 2]  # Ixz\n")]},
    {"id": "fullinertia-order-in-table", "expect": ("R-APPLY", "apply_body_theta_inertia:fullinertia[3]"),
     "edits": [(FILE, _FULL, _FULL_LOOP), (FILE, "def apply_body_theta_inertia(\n",
                                           "_FULLINERTIA_ORDER = ((0, 0), (1, 1), (2, 2), (1, 2), (0, 2), (0, 1))\n\n\ndef apply_body_theta_inertia(\n")]},
    {"id": "dispatch-wrong-vector", "expect": ("R-APPLY", "apply_body_inertia:Pseudo->apply_body_theta_inertia"),
     "edits": [(FILE, "    apply_body_theta_inertia(spec, name, param.value)\n", "    apply_body_theta_inertia(spec, name, param.nominal)\n")]},
    # ---- R-BOUNDS
    {"id": "bound-wrong-sign", "expect": ("R-BOUNDS", "body_inertia_param:bounds-order:0"),
     "edits": [(FILE, "    alpha_bounds = 0.5 * np.log(mass_bounds)\n", "    alpha_bounds = -0.5 * np.log(mass_bounds)\n")]},
    {"id": "offset-subtracted", "expect": ("R-BOUNDS", "body_inertia_param:bounds-order:2"),
     "edits": [(FILE, _S_T_ROWS, _S_T_ROWS.replace("] + np.atleast_2d", "] - np.atleast_2d"))]},
    {"id": "default-pair-reversed", "expect": ("R-BOUNDS", "body_inertia_param:bounds-order:3:defaults"),
     "edits": [(FILE, "    ipos_bound_off = np.array([-0.5, 0.5])\n", "    ipos_bound_off = np.array([0.5, -0.5])\n")]},
    {"id": "lower-upper-exchanged", "expect": ("R-BOUNDS", "body_inertia_param:bounds-columns"),
     "edits": [(FILE, "        theta_bounds[:, 0],\n        theta_bounds[:, 1],\n", "        theta_bounds[:, 1],\n        theta_bounds[:, 0],\n")]},
    {"id": "nominal-not-theta", "expect": ("R-BOUNDS", "body_inertia_param:nominal"),
     "edits": [(FILE, "        param_name,\n        theta_i_0,\n", "        param_name,\n        theta_bounds.mean(axis=1),\n")]},
    {"id": "inertiafromgeom-store-removed", "expect": ("R-APPLY", "apply_body_theta_inertia:inertiafromgeom"),
     "edits": [(FILE, "  spec.compiler.inertiafromgeom = 2\n", "")]},
    {"id": "inertiafromgeom-true", "expect": ("R-APPLY", "apply_body_theta_inertia:inertiafromgeom"),
     "edits": [(FILE, "  spec.compiler.inertiafromgeom = 2\n", "  spec.compiler.inertiafromgeom = 1\n")]},
    {"id": "inertiafromgeom-true-enum", "expect": ("R-APPLY", "apply_body_theta_inertia:inertiafromgeom"),
     "edits": [(FILE, "  spec.compiler.inertiafromgeom = 2\n",
                "  spec.compiler.inertiafromgeom = mujoco.mjtInertiaFromGeom.mjINERTIAFROMGEOM_TRUE\n")]},
    {"id": "inertiafromgeom-one-branch", "expect": ("R-APPLY", "apply_body_theta_inertia:inertiafromgeom"),
     "edits": [(FILE, "  spec.compiler.inertiafromgeom = 2\n",
                "  if not body.explicitinertial:\n    spec.compiler.inertiafromgeom = 2\n")]},
    {"id": "inertiafromgeom-reset-after-apply", "expect": ("R-APPLY", "apply_body_theta_inertia:inertiafromgeom"),
     "edits": [(FILE, "  body.iquat[:] = np.nan\n", "  body.iquat[:] = np.nan\n  spec.compiler.inertiafromgeom = True\n")]},
    {"id": "apply-skips-infer", "expect": ("R-APPLY", "apply_body_theta_inertia:inertiafromgeom"),
     "edits": [(FILE, "  pi = pi_from_theta(theta)\n\n  body = _infer_inertial(spec, body_name)\n",
                "  pi = pi_from_theta(theta)\n\n  body = _get_obj_or_raise(spec, \"body\", body_name)\n  body.explicitinertial = True\n")]},
    # ---- controls: behaviour-preserving shapes
    {"id": "control-cholesky-flip-helper", "expect": None,
     "edits": [(FILE, _CHOL_BODY, _CHOL_HELPER_BODY), (FILE, "def cholesky_decompose_upper(", _FLIP_HELPER + "def cholesky_decompose_upper(")]},
    {"id": "control-cholesky-slice-and-flip", "expect": None,
     "edits": [(FILE, _CHOL_BODY, "  L_prime = np.linalg.cholesky(J[::-1, ::-1])\n  return np.flip(L_prime)\n")]},
    {"id": "control-inertiafromgeom-in-helper", "expect": None,
     "edits": [(FILE, "  spec.compiler.inertiafromgeom = 2\n", "  _explicit_inertial_wins(spec)\n"),
               (FILE, "def _infer_inertial(", "def _explicit_inertial_wins(spec):\n  compiler = spec.compiler\n"
                                              "  setattr(compiler, \"inertiafromgeom\", 2)\n\n\ndef _infer_inertial(")]},
    {"id": "control-inertiafromgeom-enum", "expect": None,
     "edits": [(FILE, "  spec.compiler.inertiafromgeom = 2\n",
                "  spec.compiler.inertiafromgeom = mujoco.mjtInertiaFromGeom.mjINERTIAFROMGEOM_AUTO\n")]},
    {"id": "control-inertiafromgeom-after-writes", "expect": None,
     "edits": [(FILE, "  body.iquat[:] = np.nan\n",
                "  body.iquat[:] = np.nan\n  spec.compiler.inertiafromgeom = int(mujoco.mjtInertiaFromGeom.mjINERTIAFROMGEOM_AUTO.value)\n")]},
    {"id": "control-table-driven-fill", "expect": None, "edits": [(FILE, _FILL, _FILL_TABLE)]},
    {"id": "control-helper-and-comprehension", "expect": None, "edits": [(FILE, _EXTRACT, _EXTRACT_HELPER)]},
    {"id": "control-fullinertia-index-loop", "expect": None,
     "edits": [(FILE, _FULL, _FULL_LOOP), (FILE, "def apply_body_theta_inertia(\n",
                                           "_FULLINERTIA_ORDER = ((0, 0), (1, 1), (2, 2), (0, 1), (0, 2), (1, 2))\n\n\ndef apply_body_theta_inertia(\n")]},
    {"id": "control-offset-rows-helper", "expect": None,
     "edits": [(FILE, _S_T_ROWS, "    s_bounds = _offset_bounds(theta_i_0[4 : 4 + 3], shear_bound_off)\n"),
               (FILE, _T_ROWS, "    t_bounds = _offset_bounds(theta_i_0[7:10], ipos_bound_off)\n"),
               (FILE, "def body_inertia_param(\n", "def _offset_bounds(values, offsets):\n  return values[:, np.newaxis] + np.atleast_2d(offsets)\n\n\ndef body_inertia_param(\n")]},
    {"id": "control-dispatch-early-return", "expect": None,
     "edits": [(FILE, "  if param.inertia_type == InertiaType.Mass:\n    apply_body_mass_ipos(\n        spec, name, mass=param.value, rot_inertia_scale=param.scale_rot_inertia\n    )\n",
                "  if param.inertia_type == InertiaType.Pseudo:\n    apply_body_theta_inertia(spec, name, param.value)\n    return\n"
                "  if param.inertia_type == InertiaType.Mass:\n    apply_body_mass_ipos(\n        spec, name, mass=param.value, rot_inertia_scale=param.scale_rot_inertia\n    )\n")]},
    {"id": "control-theta-indexed-not-unpacked", "expect": None,
     "edits": [(FILE, "  alpha, d1, d2, d3, s12, s23, s13, t1, t2, t3 = theta\n  exp_alpha = np.exp(alpha)\n",
                "  alpha, d1, d2, d3 = theta[0], theta[1], theta[2], theta[3]\n  s12, s23, s13 = theta[4], theta[5], theta[6]\n"
                "  t1, t2, t3 = theta[7], theta[8], theta[9]\n  exp_alpha = np.exp(alpha)\n")]},
]


def selftest(res):
    from .. import r_misc
    r_misc.run_mutants("C47", res, MUTANTS, parts=("python/mujoco", CXX_BODY, CXX_ENUM))
