"""C47 System-identification inertia parameters are always physical (log-Cholesky parametrisation).

Static analysis (ast only) of python/mujoco/sysid/_src/model_modifier.py.

R-SIGN   abstract interpretation of `pi_from_theta` over the sign domain {ZERO, POS, ANY} with 2-D grids for
         matrices of literal shape: the factor U built from theta is triangular (every entry on one side of the
         diagonal is ZERO), every diagonal entry is POS (exp(..), positive literal, products/quotients of those),
         the pseudo-inertia is its Gram matrix (U @ U.T or U.T @ U), the mass (first element of the returned
         vector) is a diagonal element of that Gram matrix; `cholesky_decompose_upper` conjugates
         np.linalg.cholesky by the same index reversal on input and output (so that the inverse map factors J
         with the triangle and product order the forward map uses).
         Trusted theorem: U triangular with positive diagonal => U U^T positive definite => positive mass and the
         triangle inequalities of the rotational inertia.
R-TABLE  slot maps: for every theta slot i, (inverse map o forward map)(theta)[i] simplifies symbolically to
         theta[i] (exp/log/product/quotient normal form); forward-written and inverse-read positions of U coincide;
         the segments of the returned pi vector ([m], h, I_bar.flatten()) are read back at the same offsets by
         `pseudoinertia_from_pi` / `apply_body_theta_inertia` and land in the blocks of J they were taken from;
         the rows of the parameter bounds built in `body_inertia_param` are in theta slot order.
Does not decide: floating-point overflow/underflow of exp, compiled mass properties of the spec.
"""
from __future__ import annotations

import ast
import math
import os

from .. import cfront
from ..cfront import AnalysisError

FILE = "python/mujoco/sysid/_src/model_modifier.py"
FWD = "pi_from_theta"
INV = "theta_from_pseudoinertia"
PI2J = "pseudoinertia_from_pi"
CHOL = "cholesky_decompose_upper"
APPLY = "apply_body_theta_inertia"
PARAMFN = "body_inertia_param"

FLOOR_SIGN = 15      # 6 off-triangle zeros, 4 positive diagonals, gram, mass-diagonal, 2 reversal conjugations, factor kind
FLOOR_TABLE = 21     # 10 slot round trips, position coverage, 3 pi segments x 2 readers, 4 bound row groups

Z, P, A = "ZERO", "POS", "ANY"


def dotted(e):
    parts = []
    while isinstance(e, ast.Attribute):
        parts.append(e.attr)
        e = e.value
    if isinstance(e, ast.Name):
        parts.append(e.id)
        return ".".join(reversed(parts))
    return ""


def txt(n):
    if isinstance(n, ast.Tuple):                      # index tuples print without parentheses
        return ", ".join(ast.unparse(e) for e in n.elts)
    return ast.unparse(n)


# ---------------------------------------------------------------------------------------------
# symbolic scalars: Term = coeff * prod(atom ** k)   atoms ("s", i) = theta_i, ("E", i) = exp(theta_i), ("U", r, c)
#                   Lin  = const + sum(k_i * theta_i)

class Term:
    def __init__(self, coeff=1.0, pw=None):
        self.coeff = coeff
        self.pw = {k: v for k, v in (pw or {}).items() if v != 0}

    def mul(self, o, sign=1):
        pw = dict(self.pw)
        for k, v in o.pw.items():
            pw[k] = pw.get(k, 0) + sign * v
        if sign < 0 and o.coeff == 0:
            return None
        return Term(self.coeff * (o.coeff if sign > 0 else 1.0 / o.coeff), pw if self.coeff != 0 else {})

    def as_lin(self):
        if not self.pw:
            return Lin(self.coeff, {})
        if self.coeff == 1 and len(self.pw) == 1:
            (k, v), = self.pw.items()
            if k[0] == "s" and v == 1:
                return Lin(0.0, {k[1]: 1})
        return None

    def is_slot(self):
        l = self.as_lin()
        return l.is_slot() if l is not None and self.pw else None

    def key(self):
        return ("T", round(self.coeff, 12), tuple(sorted(self.pw.items())))


class Lin:
    def __init__(self, const=0.0, co=None):
        self.const = const
        self.co = {k: v for k, v in (co or {}).items() if v != 0}

    def add(self, o, sign=1):
        co = dict(self.co)
        for k, v in o.co.items():
            co[k] = co.get(k, 0) + sign * v
        return Lin(self.const + sign * o.const, co)

    def is_slot(self):
        if abs(self.const) < 1e-12 and len(self.co) == 1:
            (k, v), = self.co.items()
            if v == 1:
                return k
        return None

    def key(self):
        return ("L", round(self.const, 12), tuple(sorted(self.co.items())))


def sym_exp(v):
    l = v if isinstance(v, Lin) else v.as_lin() if isinstance(v, Term) else None
    if l is None:
        return None
    return Term(math.exp(l.const), {("E", k): c for k, c in l.co.items()})


def sym_log(v):
    if isinstance(v, Lin):
        v = Term(v.const, {}) if not v.co else None
    if not isinstance(v, Term) or v.coeff <= 0:
        return None
    if any(k[0] != "E" for k in v.pw):
        return None
    return Lin(math.log(v.coeff), {k[1]: c for k, c in v.pw.items()})


def sym_mul(a, b, sign=1):
    ta = a if isinstance(a, Term) else (Term(a.const) if isinstance(a, Lin) and not a.co else
                                        Term(1.0, {("s", a.is_slot()): 1}) if isinstance(a, Lin) and a.is_slot() is not None else None)
    tb = b if isinstance(b, Term) else (Term(b.const) if isinstance(b, Lin) and not b.co else
                                        Term(1.0, {("s", b.is_slot()): 1}) if isinstance(b, Lin) and b.is_slot() is not None else None)
    if ta is None or tb is None:
        return None
    return ta.mul(tb, sign)


def sym_add(a, b, sign=1):
    la = a if isinstance(a, Lin) else a.as_lin() if isinstance(a, Term) else None
    lb = b if isinstance(b, Lin) else b.as_lin() if isinstance(b, Term) else None
    if la is None or lb is None:
        return None
    return la.add(lb, sign)


def slot_of(v):
    if isinstance(v, Lin):
        return v.is_slot()
    if isinstance(v, Term):
        return v.is_slot()
    return None


# ---------------------------------------------------------------------------------------------
# abstract values

class Val:
    """kind: scalar | mat | gram | vec | other.  sign (scalar) / grid of (sign, sym) (mat)."""

    def __init__(self, kind="other", sign=A, sym=None, grid=None, shape=None, deps=None, of=None, order=None,
                 block=None, line=0):
        self.kind, self.sign, self.sym, self.grid, self.shape = kind, sign, sym, grid, shape
        self.deps = set(deps or ())
        self.of, self.order, self.block, self.line = of, order, block, line


def s_mul(a, b):
    if Z in (a, b):
        return Z
    return P if a == P and b == P else A


def s_add(a, b):
    if a == Z:
        return b
    if b == Z:
        return a
    return P if a == P and b == P else A


def const_int(e):
    if isinstance(e, ast.Constant) and isinstance(e.value, int) and not isinstance(e.value, bool):
        return e.value
    if isinstance(e, ast.UnaryOp) and isinstance(e.op, ast.USub) and isinstance(e.operand, ast.Constant) \
            and isinstance(e.operand.value, int):
        return -e.operand.value
    return None


def index_extent(ix, n):
    """(kind, start, stop) for an int or constant slice on an axis of length n (n may be None for open ends)"""
    c = const_int(ix)
    if c is not None:
        return ("int", c, c + 1)
    if isinstance(ix, ast.Slice) and ix.step is None:
        lo = const_int(ix.lower) if ix.lower is not None else 0
        hi = const_int(ix.upper) if ix.upper is not None else n
        if lo is None or (ix.upper is not None and hi is None):
            return None
        return ("slice", lo, hi)
    return None


class Interp:
    """straight-line abstract interpreter for the forward / inverse maps"""

    def __init__(self, mod, fn, np_names, param_vals=None):
        self.mod, self.fn, self.np = mod, fn, np_names
        self.env = dict(param_vals or {})
        self.ret = None
        self.stores = []          # (base name, index node, value Val, line)
        self.reads = []           # (base name, index node, line)
        self.unpack = {}          # base name -> number of names unpacked

    def run(self):
        for st in self.fn.body:
            if isinstance(st, ast.Expr) and isinstance(st.value, ast.Constant):
                continue
            if isinstance(st, ast.Assign) and len(st.targets) == 1:
                self.assign(st.targets[0], st.value, st)
            elif isinstance(st, ast.AugAssign):
                fake = ast.BinOp(left=st.target, op=st.op, right=st.value)
                ast.copy_location(fake, st)
                ast.fix_missing_locations(fake)
                self.assign(st.target, fake, st)
            elif isinstance(st, ast.Return):
                self.ret = self.ev(st.value)
                self.ret_node = st.value
            elif isinstance(st, (ast.If, ast.For, ast.While, ast.Try, ast.With)):
                if st is not self.fn.body[0] and self.allow_guard(st):
                    continue
                raise AnalysisError(f"{FILE}:{st.lineno}: control flow in {self.fn.name} is not supported by the sign interpreter")
            elif isinstance(st, (ast.Assert, ast.Pass)):
                continue
            elif isinstance(st, ast.Expr):
                self.ev(st.value)
            else:
                raise AnalysisError(f"{FILE}:{st.lineno}: statement {type(st).__name__} in {self.fn.name} is not supported")
        return self

    def allow_guard(self, st):
        # `if <cond>: raise ...` input validation does not change the map
        return isinstance(st, ast.If) and not st.orelse and all(isinstance(b, ast.Raise) for b in st.body)

    def assign(self, t, rhs, st):
        if isinstance(t, (ast.Tuple, ast.List)):
            src = self.ev(rhs)
            if isinstance(rhs, ast.Name):
                self.unpack[rhs.id] = len(t.elts)
            for i, e in enumerate(t.elts):
                if not isinstance(e, ast.Name):
                    raise AnalysisError(f"{FILE}:{st.lineno}: unsupported unpacking target")
                if src.kind == "theta":
                    self.env[e.id] = Val("scalar", A, Lin(0.0, {i: 1}), deps={(src.block, str(i))}, line=st.lineno)
                else:
                    self.env[e.id] = Val("scalar", A, None, deps=src.deps)
            return
        v = self.ev(rhs)
        if isinstance(t, ast.Name):
            self.env[t.id] = v
            return
        if isinstance(t, ast.Subscript) and isinstance(t.value, ast.Name):
            base = t.value.id
            self.stores.append((base, t.slice, v, st.lineno))
            m = self.env.get(base)
            if m is not None and m.kind == "mat":
                ix = t.slice.elts if isinstance(t.slice, ast.Tuple) else [t.slice]
                ints = [const_int(i) for i in ix]
                if len(ix) == 2 and all(i is not None for i in ints) and v.kind == "scalar":
                    r, c = ints
                    if not (0 <= r < m.shape[0] and 0 <= c < m.shape[1]):
                        raise AnalysisError(f"{FILE}:{st.lineno}: index out of the literal shape")
                    m.grid[r][c] = (v.sign, v.sym, st.lineno)
                else:
                    # non-constant or block store: every entry may have been overwritten with anything
                    ext = [index_extent(i, m.shape[k]) for k, i in enumerate(ix)] if len(ix) == 2 else [None, None]
                    rows = range(*ext[0][1:]) if ext[0] else range(m.shape[0])
                    cols = range(*ext[1][1:]) if ext[1] else range(m.shape[1])
                    for r in rows:
                        for c in cols:
                            m.grid[r][c] = (A, None, st.lineno)
                m.deps |= v.deps
            return
        if isinstance(t, ast.Attribute) or isinstance(t, ast.Subscript):
            return
        raise AnalysisError(f"{FILE}:{st.lineno}: unsupported assignment target")

    def npname(self, e):
        if isinstance(e, ast.Call):
            d = dotted(e.func)
            if d and d.split(".")[0] in self.np:
                return ".".join(d.split(".")[1:])
        return None

    def shape_lit(self, e):
        if isinstance(e, ast.Tuple) and all(const_int(x) is not None for x in e.elts):
            return tuple(const_int(x) for x in e.elts)
        c = const_int(e)
        return (c,) if c is not None else None

    def ev(self, e) -> Val:
        if isinstance(e, ast.Constant):
            if isinstance(e.value, (int, float)) and not isinstance(e.value, bool):
                return Val("scalar", P if e.value > 0 else Z if e.value == 0 else A, Term(float(e.value)), shape=())
            return Val()
        if isinstance(e, ast.Name):
            return self.env.get(e.id, Val())
        if isinstance(e, ast.UnaryOp):
            v = self.ev(e.operand)
            if isinstance(e.op, ast.UAdd):
                return v
            if isinstance(e.op, ast.USub) and v.kind == "scalar":
                return Val("scalar", Z if v.sign == Z else A, sym_mul(Term(-1.0), v.sym) if v.sym else None,
                           shape=(), deps=v.deps)
            return Val(deps=v.deps, shape=v.shape)
        if isinstance(e, ast.Attribute):
            v = self.ev(e.value)
            if e.attr == "T" and v.kind == "mat":
                return Val("matT", of=v, shape=(v.shape[1], v.shape[0]), deps=v.deps)
            return Val(deps=v.deps)
        if isinstance(e, ast.BinOp):
            return self.binop(e)
        if isinstance(e, ast.Subscript):
            return self.subscript(e)
        if isinstance(e, (ast.List, ast.Tuple)):
            vs = [self.ev(x) for x in e.elts]
            deps = set().union(*[v.deps for v in vs]) if vs else set()
            shape = (len(vs),) if all(v.shape == () for v in vs) else None
            return Val("seq", deps=deps, shape=shape, of=vs)
        if isinstance(e, ast.Call):
            return self.call(e)
        deps = set()
        for n in ast.walk(e):
            if isinstance(n, ast.Name) and n.id in self.env:
                deps |= self.env[n.id].deps
        return Val(deps=deps)

    def binop(self, e):
        a, b = self.ev(e.left), self.ev(e.right)
        deps = a.deps | b.deps
        op = e.op
        if isinstance(op, ast.MatMult):
            # Gram matrix: M @ M.T or M.T @ M with the very same matrix object
            if a.kind == "mat" and b.kind == "matT" and b.of is a:
                return Val("gram", of=a, order="UUT", shape=(a.shape[0], a.shape[0]), deps=deps, line=e.lineno)
            if a.kind == "matT" and b.kind == "mat" and a.of is b:
                return Val("gram", of=b, order="UTU", shape=(b.shape[1], b.shape[1]), deps=deps, line=e.lineno)
            sa = a.shape if a.shape and len(a.shape) == 2 else None
            sb = b.shape if b.shape and len(b.shape) == 2 else None
            return Val("matprod", deps=deps, shape=(sa[0], sb[1]) if sa and sb else None, line=e.lineno, block="prod")
        if a.kind == "scalar" and b.kind == "scalar":
            if isinstance(op, ast.Mult):
                return Val("scalar", s_mul(a.sign, b.sign), sym_mul(a.sym, b.sym) if a.sym and b.sym else None, shape=(), deps=deps)
            if isinstance(op, ast.Div):
                sign = Z if a.sign == Z and b.sign == P else P if a.sign == P and b.sign == P else A
                return Val("scalar", sign, sym_mul(a.sym, b.sym, -1) if a.sym and b.sym else None, shape=(), deps=deps)
            if isinstance(op, ast.Add):
                return Val("scalar", s_add(a.sign, b.sign), sym_add(a.sym, b.sym) if a.sym and b.sym else None, shape=(), deps=deps)
            if isinstance(op, ast.Sub):
                return Val("scalar", a.sign if b.sign == Z else A, sym_add(a.sym, b.sym, -1) if a.sym and b.sym else None,
                           shape=(), deps=deps)
            if isinstance(op, ast.Pow):
                return Val("scalar", P if a.sign == P else A, None, shape=(), deps=deps)
            return Val("scalar", A, None, shape=(), deps=deps)
        # matrix scaled by a scalar keeps its zero pattern; positive scalar keeps positive entries
        for m, s in ((a, b), (b, a)):
            if m.kind == "mat" and s.kind == "scalar" and isinstance(op, (ast.Mult, ast.Div)) and not (m is b and isinstance(op, ast.Div)):
                grid = [[(s_mul(x[0], s.sign) if isinstance(op, ast.Mult) else
                          (Z if x[0] == Z and s.sign == P else P if x[0] == P and s.sign == P else A),
                          (sym_mul(x[1], s.sym, 1 if isinstance(op, ast.Mult) else -1) if x[1] is not None and s.sym is not None else None),
                          x[2]) for x in row] for row in m.grid]
                return Val("mat", grid=grid, shape=m.shape, deps=deps)
        shape = a.shape if a.shape == b.shape else a.shape if b.shape == () else b.shape if a.shape == () else None
        return Val(deps=deps, shape=shape)

    def subscript(self, e):
        v = self.ev(e.value)
        ix = e.slice.elts if isinstance(e.slice, ast.Tuple) else [e.slice]
        if isinstance(e.value, ast.Name):
            self.reads.append((e.value.id, e.slice, e.lineno))
        if v.kind == "theta" or v.kind == "vecparam":
            return Val("seg", deps={(v.block, txt(e.slice))}, block=txt(e.slice))
        if v.kind in ("gram", "mat", "factor", "matprod") and len(ix) == 2 and v.shape:
            ext = [index_extent(i, v.shape[k] if v.shape else None) for k, i in enumerate(ix)]
            if all(ext):
                shape = tuple(x[2] - x[1] for x in ext if x[0] == "slice")
                deps = {(v.block or v.kind, txt(e.slice))}
                if all(x[0] == "int" for x in ext):
                    r, c = ext[0][1], ext[1][1]
                    if v.kind == "mat":
                        s = v.grid[r][c]
                        return Val("scalar", s[0], s[1], shape=(), deps=deps | v.deps)
                    if v.kind == "factor":
                        return Val("scalar", A, Term(1.0, {("U", r, c): 1}), shape=(), deps=deps)
                    if v.kind == "matprod":
                        return Val("scalar", A, None, shape=(), deps=deps | v.deps)
                    # element of a Gram matrix; diagonal elements are squared row norms
                    return Val("scalar", A, None, shape=(), deps=deps | v.deps, of=v, block=("diag" if r == c else "off", r, c))
                return Val("block", shape=shape, deps=deps | (v.deps if v.kind != "factor" else set()), of=v, block=txt(e.slice))
        return Val(deps=v.deps | {("?", txt(e))})

    def call(self, e):
        name = self.npname(e)
        args = [self.ev(a) for a in e.args]
        deps = set().union(*[a.deps for a in args]) if args else set()
        for k in e.keywords:
            deps |= self.ev(k.value).deps
        if name in ("zeros", "ones", "empty", "full") and e.args:
            shp = self.shape_lit(e.args[0])
            if shp and len(shp) == 2:
                fill = {"zeros": (Z, Term(0.0)), "ones": (P, Term(1.0)), "empty": (A, None)}.get(name)
                if name == "full":
                    f = args[1] if len(args) > 1 else Val()
                    fill = (f.sign, f.sym) if f.kind == "scalar" else (A, None)
                return Val("mat", grid=[[(fill[0], fill[1], e.lineno) for _ in range(shp[1])] for _ in range(shp[0])],
                           shape=shp, line=e.lineno)
            return Val(shape=shp)
        if name in ("eye", "identity") and e.args and const_int(e.args[0]) is not None and len(e.args) == 1:
            n = const_int(e.args[0])
            return Val("mat", grid=[[(P, Term(1.0), e.lineno) if r == c else (Z, Term(0.0), e.lineno) for c in range(n)]
                                    for r in range(n)], shape=(n, n))
        if name == "array" and e.args and isinstance(e.args[0], (ast.List, ast.Tuple)):
            rows = e.args[0].elts
            if rows and all(isinstance(r, (ast.List, ast.Tuple)) for r in rows) and len({len(r.elts) for r in rows}) == 1:
                grid = []
                for r in rows:
                    vs = [self.ev(x) for x in r.elts]
                    grid.append([(v.sign, v.sym, e.lineno) if v.kind == "scalar" else (A, None, e.lineno) for v in vs])
                return Val("mat", grid=grid, shape=(len(rows), len(rows[0].elts)), deps=deps)
            vs = [self.ev(x) for x in rows]
            return Val("seq", of=vs, deps=deps, shape=(len(vs),))
        if name == "exp" and len(args) == 1:
            return Val("scalar" if args[0].kind == "scalar" else "other", P,
                       sym_exp(args[0].sym) if args[0].sym is not None else None, shape=args[0].shape, deps=deps)
        if name == "log" and len(args) == 1:
            return Val("scalar" if args[0].kind == "scalar" else "other", A,
                       sym_log(args[0].sym) if args[0].sym is not None else None, shape=args[0].shape, deps=deps)
        if name == "sqrt" and len(args) == 1 and args[0].kind == "scalar":
            return Val("scalar", args[0].sign if args[0].sign in (P, Z) else A, None, shape=(), deps=deps)
        if name in ("dot", "matmul") and len(args) == 2:
            fake = ast.BinOp(left=e.args[0], op=ast.MatMult(), right=e.args[1])
            ast.copy_location(fake, e)
            return self.binop(fake)
        if name == "trace":
            return Val("scalar", A, None, shape=(), deps=deps)
        if name == "concatenate" and e.args and isinstance(e.args[0], (ast.List, ast.Tuple)):
            parts = [self.ev(x) for x in e.args[0].elts]
            return Val("concat", of=parts, deps=deps, line=e.lineno)
        if isinstance(e.func, ast.Attribute) and not name:
            recv = self.ev(e.func.value)
            if e.func.attr in ("flatten", "ravel") and recv.shape is not None:
                n = 1
                for d in recv.shape:
                    n *= d
                return Val("flat", shape=(n,), deps=recv.deps | deps, of=recv)
            if e.func.attr == "reshape":
                shp = self.shape_lit(e.args[0]) if len(e.args) == 1 else \
                    tuple(const_int(a) for a in e.args) if all(const_int(a) is not None for a in e.args) else None
                return Val("reshaped", shape=shp, deps=recv.deps | deps, of=recv)
            if e.func.attr == "copy":
                if recv.kind == "mat":        # a distinct matrix object with the same entries
                    return Val("mat", grid=[list(r) for r in recv.grid], shape=recv.shape, deps=recv.deps)
                return recv
            return Val(deps=recv.deps | deps)
        if isinstance(e.func, ast.Name) and e.func.id in self.mod.funcs:
            return Val("callres", deps=deps, block=e.func.id, of=args, line=e.lineno)
        return Val(deps=deps)


class Mod:
    def __init__(self):
        path = os.path.join(cfront.REPO, FILE)
        try:
            self.tree = ast.parse(open(path).read())
        except OSError as e:
            raise AnalysisError(f"anchor file missing: {FILE} ({e})")
        except SyntaxError as e:
            raise AnalysisError(f"{FILE} does not parse: {e}")
        self.funcs = {n.name: n for n in self.tree.body if isinstance(n, ast.FunctionDef)}
        self.np = set()
        for st in self.tree.body:
            if isinstance(st, ast.Import):
                for al in st.names:
                    if al.name == "numpy":
                        self.np.add(al.asname or "numpy")
        for f in (FWD, INV, PI2J, CHOL, APPLY, PARAMFN):
            if f not in self.funcs:
                raise AnalysisError(f"{FILE}: function {f} not found")


def params(fn):
    return [a.arg for a in fn.args.posonlyargs + fn.args.args]


# ---------------------------------------------------------------------------------------------
# reversal conjugation (cholesky_decompose_upper)

def single_defs(fn):
    d = {}
    for n in ast.walk(fn):
        if isinstance(n, ast.Assign) and len(n.targets) == 1 and isinstance(n.targets[0], ast.Name):
            d.setdefault(n.targets[0].id, []).append(n.value)
    return {k: v[0] for k, v in d.items() if len(v) == 1}


def is_reversal_index(e, defs, np_names, of_text, depth=0):
    """e indexes an axis in reverse order: ::-1, or a name bound to np.arange(n-1, -1, -1) with n the axis length"""
    if isinstance(e, ast.Slice):
        return e.lower is None and e.upper is None and const_int(e.step) == -1 if e.step is not None else False
    if isinstance(e, ast.Name) and e.id in defs and depth < 4:
        return is_reversal_index(defs[e.id], defs, np_names, of_text, depth + 1)
    if isinstance(e, ast.Call) and dotted(e.func).split(".")[0] in np_names and dotted(e.func).split(".")[-1] == "arange" \
            and len(e.args) == 3 and const_int(e.args[1]) == -1 and const_int(e.args[2]) == -1:
        a0 = e.args[0]
        if isinstance(a0, ast.BinOp) and isinstance(a0.op, ast.Sub) and const_int(a0.right) == 1:
            n = a0.left
            if isinstance(n, ast.Name) and n.id in defs:
                n = defs[n.id]
            t = txt(n)
            return t in (f"{of_text}.shape[0]", f"{of_text}.shape[1]", f"len({of_text})", f"{of_text}.shape[-1]")
    return False


def reversal_conjugate_of(e, defs, np_names, size_of):
    """returns the inner expression X when e is X with rows and columns both reversed, else None"""
    # X[R][:, R]  /  X[R, :][:, R]
    if isinstance(e, ast.Subscript) and isinstance(e.slice, ast.Tuple) and len(e.slice.elts) == 2:
        a, b = e.slice.elts
        full = lambda s: isinstance(s, ast.Slice) and s.lower is None and s.upper is None and s.step is None
        if is_reversal_index(a, defs, np_names, size_of) and is_reversal_index(b, defs, np_names, size_of) \
                and isinstance(a, ast.Slice) and isinstance(b, ast.Slice):
            return e.value                                      # X[::-1, ::-1]
        if full(a) and is_reversal_index(b, defs, np_names, size_of):
            inner = e.value
            if isinstance(inner, ast.Subscript):
                s = inner.slice
                if isinstance(s, ast.Tuple) and len(s.elts) == 2 and full(s.elts[1]):
                    s = s.elts[0]
                if not isinstance(s, ast.Tuple) and is_reversal_index(s, defs, np_names, size_of):
                    return inner.value
    if isinstance(e, ast.Call) and dotted(e.func).split(".")[0] in np_names and dotted(e.func).split(".")[-1] == "flip":
        if len(e.args) == 1 and not e.keywords:
            return e.args[0]
    return None


# ---------------------------------------------------------------------------------------------

def seg_range(slice_text, total):
    n = ast.parse(slice_text, mode="eval").body if not slice_text.strip().startswith((":",)) and ":" not in slice_text \
        else ast.parse(f"x[{slice_text}]", mode="eval").body.slice
    ext = index_extent(n, total)
    if not ext:
        return None
    return (ext[1], ext[2] if ext[2] is not None else total)


def transpose_block(t):
    parts = [p.strip() for p in t.split(",")]
    return ", ".join(reversed(parts)) if len(parts) == 2 else t


def run(res, tier):
    mod = Mod()
    res.trusted = ["CPython 3.11 ast parser",
                   "theorem: U triangular with positive diagonal => U U^T positive definite => m > 0 and triangle inequalities",
                   "np.linalg.cholesky returns the lower factor L with A = L L^T"]
    res.rule("R-SIGN", "the factor built from theta is triangular with sign-positive diagonal, J is its Gram matrix, "
             "the mass is a diagonal element of J, the inverse map factors J with the same triangle and order", floor=FLOOR_SIGN)
    res.rule("R-TABLE", "theta slot maps of the forward and inverse map agree (inverse o forward = identity per slot); "
             "pi segments are read back at their offsets into the J blocks they came from; bound rows are in slot order",
             floor=FLOOR_TABLE)

    # ---------------- forward map
    fwd = mod.funcs[FWD]
    fp = params(fwd)
    if len(fp) != 1:
        raise AnalysisError(f"{FWD}: expected one parameter")
    F = Interp(mod, fwd, mod.np, {fp[0]: Val("theta", block=fp[0])}).run()
    nslots = F.unpack.get(fp[0])
    if not nslots:
        raise AnalysisError(f"{FWD}: theta is not unpacked into named slots")
    grams = [v for v in F.env.values() if v.kind == "gram"]
    if len(grams) != 1:
        mats = [v for v in F.env.values() if v.kind == "mat" and v.shape and v.shape[0] == v.shape[1]
                and any(x[1] is not None and x[1].pw for row in v.grid for x in row)]
        if len(mats) != 1:
            raise AnalysisError(f"{FWD}: cannot identify the factor matrix built from theta")
        prods = [v for v in F.env.values() if v.kind == "matprod"]
        res.bad("R-SIGN", f"{FWD}:gram", FILE, prods[0].line if prods else fwd.lineno,
                f"{FWD}: the pseudo-inertia is not formed as M @ M.T / M.T @ M of the matrix built from theta "
                f"({len(grams)} Gram products found) — positive definiteness cannot be derived")
        G = Val("nogram", of=mats[0], order=None)
    else:
        G = grams[0]
    U = G.of
    uname = next((k for k, v in F.env.items() if v is U), "U")
    jname = next((k for k, v in F.env.items() if v is G), "J")
    if G.kind == "gram":
        res.ok("R-SIGN", f"{FWD}:gram", {"file": FILE, "line": G.line, "J": f"{jname} = {uname} {'@ ' + uname + '.T' if G.order == 'UUT' else '.T @ ' + uname}"})
    n = U.shape[0]
    if U.shape[0] != U.shape[1]:
        raise AnalysisError(f"{FWD}: factor is not square")
    lower_zero = all(U.grid[r][c][0] == Z for r in range(n) for c in range(n) if r > c)
    upper_zero = all(U.grid[r][c][0] == Z for r in range(n) for c in range(n) if r < c)
    side = "upper" if lower_zero else "lower" if upper_zero else None
    # choose the side with fewer violations for reporting
    want_zero = (lambda r, c: r > c) if (side == "upper" or (side is None and
                 sum(U.grid[r][c][0] != Z for r in range(n) for c in range(n) if r > c) <=
                 sum(U.grid[r][c][0] != Z for r in range(n) for c in range(n) if r < c))) else (lambda r, c: r < c)
    for r in range(n):
        for c in range(n):
            if r != c and want_zero(r, c):
                s = U.grid[r][c]
                construct = f"{FWD}:{uname}[{r},{c}]"
                if s[0] == Z:
                    res.ok("R-SIGN", construct, {"file": FILE, "line": s[2], "sign": Z})
                else:
                    res.bad("R-SIGN", construct, FILE, s[2], f"{FWD}: entry {uname}[{r},{c}] is {s[0]}, not ZERO: the factor is not triangular")
    for r in range(n):
        s = U.grid[r][r]
        construct = f"{FWD}:{uname}[{r},{r}]"
        if s[0] == P:
            res.ok("R-SIGN", construct, {"file": FILE, "line": s[2], "sign": P})
        else:
            res.bad("R-SIGN", construct, FILE, s[2],
                    f"{FWD}: diagonal entry {uname}[{r},{r}] has sign {s[0]}, not POS (exp(..) / positive literal / product of those): "
                    f"J = {uname}{uname}^T may be singular or the parametrisation not injective")
    # mass
    if F.ret is None or F.ret.kind != "concat" or not F.ret.of:
        raise AnalysisError(f"{FWD}: return value is not np.concatenate((...)) of segments")
    segs = F.ret.of
    first = segs[0]
    mval = first.of[0] if first.kind == "seq" and first.of and len(first.of) == 1 else first
    construct = f"{FWD}:mass"
    if mval.kind == "scalar" and mval.of is G and mval.block and mval.block[0] == "diag":
        res.ok("R-SIGN", construct, {"file": FILE, "line": F.ret.line, "mass": f"{jname}[{mval.block[1]},{mval.block[2]}]"})
        mass_idx = mval.block[1]
    else:
        res.bad("R-SIGN", construct, FILE, F.ret.line, f"{FWD}: the mass (first element of the returned vector) is not a diagonal element of {jname}")
        mass_idx = None

    # ---------------- reversal conjugation in cholesky_decompose_upper, factor kind in the inverse map
    ch = mod.funcs[CHOL]
    cdefs = single_defs(ch)
    cpar = params(ch)[0]
    chol_calls = [c for c in ast.walk(ch) if isinstance(c, ast.Call) and dotted(c.func).split(".")[0] in mod.np
                  and dotted(c.func).endswith("linalg.cholesky")]
    rets = [r for r in ast.walk(ch) if isinstance(r, ast.Return)]
    if len(chol_calls) != 1 or len(rets) != 1:
        raise AnalysisError(f"{CHOL}: expected one np.linalg.cholesky call and one return")

    def resolve(e):
        seen = 0
        while isinstance(e, ast.Name) and e.id in cdefs and seen < 5:
            e = cdefs[e.id]
            seen += 1
        return e
    arg = resolve(chol_calls[0].args[0])
    inner = reversal_conjugate_of(arg, cdefs, mod.np, cpar)
    pre_ok = inner is not None and isinstance(resolve(inner), ast.Name) and resolve(inner).id == cpar
    if pre_ok:
        res.ok("R-SIGN", f"{CHOL}:input-reversal", {"file": FILE, "line": chol_calls[0].lineno})
    else:
        res.bad("R-SIGN", f"{CHOL}:input-reversal", FILE, chol_calls[0].lineno,
                f"{CHOL}: np.linalg.cholesky is not applied to `{cpar}` with rows and columns both reversed")
    rexp = resolve(rets[0].value)
    inner = reversal_conjugate_of(rexp, cdefs, mod.np, cpar)
    lname = None
    for k, v in cdefs.items():
        if v is chol_calls[0]:
            lname = k
    post_src = resolve(inner) if inner is not None else None
    post_ok = inner is not None and (post_src is chol_calls[0] or (isinstance(inner, ast.Name) and inner.id == lname))
    if not post_ok and lname is not None:
        # reversal index sized by the factor itself
        inner = reversal_conjugate_of(rexp, cdefs, mod.np, lname)
        post_ok = inner is not None and isinstance(inner, ast.Name) and inner.id == lname
    if post_ok:
        res.ok("R-SIGN", f"{CHOL}:output-reversal", {"file": FILE, "line": rets[0].lineno})
    else:
        res.bad("R-SIGN", f"{CHOL}:output-reversal", FILE, rets[0].lineno,
                f"{CHOL}: the lower Cholesky factor is not returned with rows and columns both reversed (result is not upper triangular with J = U U^T)")

    inv = mod.funcs[INV]
    ip = params(inv)
    I = Interp(mod, inv, mod.np, {ip[0]: Val("jparam", block=ip[0])})
    # the factor: result of a call to CHOL(J) -> symbolic matrix of ("U", r, c)
    orig_call = I.call

    def call_hook(e):
        if isinstance(e.func, ast.Name) and e.func.id == CHOL:
            return Val("factor", shape=(n, n), block="U", line=e.lineno)
        d = dotted(e.func)
        if d.split(".")[0] in mod.np and d.endswith("linalg.cholesky"):
            return Val("factor", shape=(n, n), block="L", line=e.lineno)
        return orig_call(e)
    I.call = call_hook
    I.run()
    factors = [(k, v) for k, v in I.env.items() if v.kind == "factor"]
    construct = f"{INV}:factor-kind"
    if len(factors) != 1:
        raise AnalysisError(f"{INV}: cannot identify the Cholesky factor")
    fk = factors[0][1]
    inv_kind = ("upper", "UUT") if fk.block == "U" else ("lower", "UUT")
    if side is not None and (side, G.order) == inv_kind and (fk.block != "U" or (pre_ok and post_ok)):
        res.ok("R-SIGN", construct, {"file": FILE, "line": fk.line, "forward": [side, G.order], "inverse": list(inv_kind)})
    else:
        res.bad("R-SIGN", construct, FILE, fk.line,
                f"{INV} factors J as {inv_kind} but {FWD} builds a {side or 'non-triangular'} factor with order {G.order}: the inverse map does not recover U")

    # ---------------- R-TABLE: slot round trip
    if I.ret is None or I.ret.kind != "seq":
        raise AnalysisError(f"{INV}: return value is not np.array([...]) of named slots")
    out = I.ret.of
    if len(out) != nslots:
        res.bad("R-TABLE", f"{INV}:slot-count", FILE, inv.lineno, f"{INV} returns {len(out)} slots, {FWD} unpacks {nslots}")
    fwd_pos = {}
    for r in range(n):
        for c in range(n):
            if U.grid[r][c][0] != Z:
                fwd_pos[(r, c)] = U.grid[r][c]
    read_pos = set()
    for i in range(min(len(out), nslots)):
        v = out[i]
        construct = f"theta[{i}]"
        sym = v.sym
        if sym is None:
            res.bad("R-TABLE", construct, FILE, inv.lineno, f"{INV}: slot {i} is not an exp/log/product form of entries of the factor")
            continue
        got = resolve_inverse(I, inv, i, U, read_pos)
        if got == i:
            res.ok("R-TABLE", construct, {"file": FILE, "line": inv.lineno, "round_trip": f"inverse(forward(theta))[{i}] == theta[{i}]"})
        else:
            res.bad("R-TABLE", construct, FILE, inv.lineno,
                    f"slot {i}: {INV}({FWD}(theta))[{i}] simplifies to "
                    f"{'theta[%d]' % got if isinstance(got, int) else 'an expression that is not theta[%d]' % i}: "
                    f"the slot written by {FWD} is not the slot read back by {INV}")
    construct = "U-positions"
    w = set(fwd_pos)
    if w == read_pos:
        res.ok("R-TABLE", construct, {"file": FILE, "line": inv.lineno, "positions": sorted(w)})
    else:
        res.bad("R-TABLE", construct, FILE, inv.lineno,
                f"positions of the factor written by {FWD} {sorted(w - read_pos)} / read by {INV} {sorted(read_pos - w)} differ")

    # ---------------- R-TABLE: pi segments
    lens = []
    for s in segs:
        lens.append(s.shape[0] if s.shape is not None and len(s.shape) == 1 else None)
    if any(l is None for l in lens):
        raise AnalysisError(f"{FWD}: cannot infer the lengths of the returned segments {lens}")
    total = sum(lens)
    offs = []
    o = 0
    for l in lens:
        offs.append((o, o + l))
        o += l
    seg_blocks = []
    for s in segs:
        seg_blocks.append({d[1] for d in s.deps if d[0] in ("gram", "prod")})
    # reader 1: pseudoinertia_from_pi
    pj = mod.funcs[PI2J]
    pp = params(pj)[0]
    R1 = Interp(mod, pj, mod.np, {pp: Val("vecparam", block=pp)}).run()
    jret = next((k for k, v in R1.env.items() if v is R1.ret), None)
    stores = {}
    for base, ix, v, line in R1.stores:
        if base == jret:
            for d in v.deps:
                if d[0] == pp:
                    stores.setdefault(d[1], []).append((txt(ix), line))
    for k, (rng, blocks) in enumerate(zip(offs, seg_blocks)):
        construct = f"pi[{rng[0]}:{rng[1]}]->{PI2J}"
        hit = [t for t in stores if seg_range(t, total) == rng]
        if not hit:
            res.bad("R-TABLE", construct, FILE, pj.lineno, f"{PI2J} does not read the segment pi[{rng[0]}:{rng[1]}] written by {FWD} "
                    f"(reads {sorted(stores)})")
            continue
        tgt = {b for b, _ in stores[hit[0]]}
        fb = next(iter(blocks)) if len(blocks) == 1 else None
        ok = fb is not None and fb in tgt and all(b == fb or b == transpose_block(fb) for b in tgt)
        if ok:
            res.ok("R-TABLE", construct, {"file": FILE, "line": stores[hit[0]][0][1], "J_block": fb})
        else:
            res.bad("R-TABLE", construct, FILE, stores[hit[0]][0][1],
                    f"segment pi[{rng[0]}:{rng[1]}] is taken from J[{', '.join(sorted(blocks))}] by {FWD} but stored to J[{'], J['.join(sorted(tgt))}] by {PI2J}")
    # reader 2: apply_body_theta_inertia
    ap = mod.funcs[APPLY]
    pvars = set()
    for nnode in ast.walk(ap):
        if isinstance(nnode, ast.Assign) and isinstance(nnode.value, ast.Call) and isinstance(nnode.value.func, ast.Name) \
                and nnode.value.func.id == FWD and isinstance(nnode.targets[0], ast.Name):
            pvars.add(nnode.targets[0].id)
    if not pvars:
        raise AnalysisError(f"{APPLY}: no call of {FWD} found")
    rd = {}
    for nnode in ast.walk(ap):
        if isinstance(nnode, ast.Subscript) and isinstance(nnode.value, ast.Name) and nnode.value.id in pvars:
            rd.setdefault(seg_range(txt(nnode.slice), total), []).append(nnode.lineno)
    for rng in offs:
        construct = f"pi[{rng[0]}:{rng[1]}]->{APPLY}"
        if rng in rd:
            res.ok("R-TABLE", construct, {"file": FILE, "line": rd[rng][0]})
        else:
            res.bad("R-TABLE", construct, FILE, ap.lineno, f"{APPLY} never reads the segment pi[{rng[0]}:{rng[1]}] of {FWD}'s result")
    for rng, lines in rd.items():
        if rng not in offs:
            res.bad("R-TABLE", f"{APPLY}:pi[{rng}]", FILE, lines[0],
                    f"{APPLY} reads pi range {rng}, which is not a segment written by {FWD} ({offs})")
    # mass index agreement
    if mass_idx is not None:
        m_tgt = [t for t, _ in stores.get(next((t for t in stores if seg_range(t, total) == offs[0]), ""), [])]
        if m_tgt and m_tgt != [f"{mass_idx}, {mass_idx}"]:
            res.bad("R-TABLE", f"{PI2J}:mass-index", FILE, pj.lineno, f"mass is J[{mass_idx},{mass_idx}] in {FWD} but stored to J[{m_tgt}] in {PI2J}")

    bounds_rows(res, mod, nslots)
    return finish(res, mod)


def resolve_inverse(I, inv, i, U, read_pos):
    """slot index that inverse(forward(theta))[i] simplifies to, or None"""
    v = I.ret.of[i]
    s = v.sym

    def sub_term(t):
        out = Term(t.coeff, {k: p for k, p in t.pw.items() if k[0] != "U"})
        for k, p in t.pw.items():
            if k[0] == "U":
                read_pos.add((k[1], k[2]))
                ent = U.grid[k[1]][k[2]][1]
                if ent is None:
                    return None
                for _ in range(abs(p)):
                    out = out.mul(ent, 1 if p > 0 else -1)
                    if out is None:
                        return None
        return out
    if isinstance(s, Term):
        t = sub_term(s)
        return slot_of(t) if t is not None else None
    if isinstance(s, DeferredLog):
        return s.resolve(sub_term)
    if isinstance(s, Lin):
        return s.is_slot()
    return None


class DeferredLog:
    """sum of +-log(Term over U atoms) + Lin : evaluated after substituting the forward entries"""

    def __init__(self, logs=None, lin=None):
        self.logs = list(logs or [])      # (sign, Term)
        self.lin = lin or Lin()

    def resolve(self, sub_term):
        acc = self.lin
        for sg, t in self.logs:
            tt = sub_term(t)
            if tt is None:
                return None
            l = sym_log(tt)
            if l is None:
                return None
            acc = acc.add(l, sg)
        return acc.is_slot()


# extend the symbolic operations with deferred logs of factor entries
_old_log, _old_add, _old_exp = sym_log, sym_add, sym_exp


def sym_log(v):            # noqa: F811
    if isinstance(v, Term) and any(k[0] == "U" for k in v.pw):
        return DeferredLog([(1, v)])
    return _old_log(v)


def sym_add(a, b, sign=1):   # noqa: F811
    if isinstance(a, DeferredLog) or isinstance(b, DeferredLog):
        da = a if isinstance(a, DeferredLog) else DeferredLog([], a if isinstance(a, Lin) else a.as_lin() if isinstance(a, Term) else None)
        db = b if isinstance(b, DeferredLog) else DeferredLog([], b if isinstance(b, Lin) else b.as_lin() if isinstance(b, Term) else None)
        if da.lin is None or db.lin is None:
            return None
        return DeferredLog(da.logs + [(sg * sign, t) for sg, t in db.logs], da.lin.add(db.lin, sign))
    return _old_add(a, b, sign)


def bounds_rows(res, mod, nslots):
    """rows of theta_bounds (np.vstack([...])) in body_inertia_param are derived from theta slots in slot order"""
    fn = mod.funcs[PARAMFN]
    # the theta vector: a name assigned from theta_inertia_from_body(...) / theta_from_pseudoinertia(...)
    tnames = set()
    for n in ast.walk(fn):
        if isinstance(n, ast.Assign) and isinstance(n.value, ast.Call) and isinstance(n.value.func, ast.Name) \
                and n.value.func.id in ("theta_inertia_from_body", INV) and isinstance(n.targets[0], ast.Name):
            tnames.add(n.targets[0].id)
    if not tnames:
        raise AnalysisError(f"{PARAMFN}: theta vector not found")
    defs = {}
    for n in ast.walk(fn):
        if isinstance(n, ast.Assign) and len(n.targets) == 1 and isinstance(n.targets[0], ast.Name):
            defs.setdefault(n.targets[0].id, []).append(n.value)

    def slots(e, depth=0):
        """set of slot ranges a value is derived from (element-wise operations keep the rows)"""
        out = set()
        for s in ast.walk(e):
            if isinstance(s, ast.Subscript) and isinstance(s.value, ast.Name) and s.value.id in tnames:
                ix = s.slice.elts[0] if isinstance(s.slice, ast.Tuple) else s.slice
                # 4 : 4 + 3 style bounds are constant-folded
                ext = index_extent(fold(ix), nslots)
                out.add((ext[1], ext[2]) if ext else None)
            elif isinstance(s, ast.Name) and s.id in defs and s.id not in tnames and depth < 6:
                for d in defs[s.id]:
                    out |= slots(d, depth + 1)
        return out
    stacks = [n for n in ast.walk(fn) if isinstance(n, ast.Call) and dotted(n.func).split(".")[-1] in ("vstack", "concatenate")
              and n.args and isinstance(n.args[0], (ast.List, ast.Tuple)) and
              any(slots(x) for x in n.args[0].elts) and all(isinstance(x, ast.Name) for x in n.args[0].elts)]
    stacks = [s for s in stacks if all(slots(x) for x in s.args[0].elts)]
    if len(stacks) != 1:
        raise AnalysisError(f"{PARAMFN}: expected one vstack of per-slot-group bounds, found {len(stacks)}")
    pos = 0
    for x in stacks[0].args[0].elts:
        sl = slots(x)
        construct = f"{PARAMFN}:bounds-row:{x.id}"
        if len(sl) == 1 and None not in sl and next(iter(sl))[0] == pos:
            rng = next(iter(sl))
            res.ok("R-TABLE", construct, {"file": FILE, "line": stacks[0].lineno, "slots": list(rng)})
            pos = rng[1]
        else:
            res.bad("R-TABLE", construct, FILE, stacks[0].lineno,
                    f"{PARAMFN}: bounds rows `{x.id}` are derived from theta slots {sorted(s for s in sl if s)} but are stacked at row {pos}: "
                    f"bounds would constrain the wrong parameters")
            rngs = [s for s in sl if s]
            pos = (rngs[0][1] if len(rngs) == 1 else pos + 1)
    if pos != nslots:
        res.bad("R-TABLE", f"{PARAMFN}:bounds-rows-total", FILE, stacks[0].lineno, f"bounds cover slots up to {pos}, theta has {nslots}")


def fold(ix):
    """constant-fold `a + b` in slice bounds"""
    def f(e):
        if e is None:
            return None
        if isinstance(e, ast.BinOp) and isinstance(e.op, (ast.Add, ast.Sub)):
            a, b = const_int(f(e.left)), const_int(f(e.right))
            if a is not None and b is not None:
                return ast.Constant(value=a + b if isinstance(e.op, ast.Add) else a - b)
        return e
    if isinstance(ix, ast.Slice):
        return ast.Slice(lower=f(ix.lower), upper=f(ix.upper), step=ix.step)
    return f(ix)


def finish(res, mod):
    res.count("functions", 6)
    res.explanation = (
        "Abstract interpretation (ast only) of pi_from_theta over the sign domain {ZERO, POS, ANY} with a literal-shape "
        "grid for the factor: triangular zero pattern, POS diagonal, J formed as the Gram matrix of that very matrix, "
        "mass = a diagonal element of J; cholesky_decompose_upper conjugates np.linalg.cholesky by the index reversal "
        "on both sides and the inverse map uses the matching factor. Symbolic exp/log/product normal form proves "
        "theta_from_pseudoinertia(U(theta))[i] == theta[i] per slot; pi segment offsets/lengths are inferred from "
        "shapes and compared with the readers; bound rows follow slot order.")
    res.not_decided = ("floating-point overflow/underflow of exp for extreme theta; that the compiled spec has the same "
                       "mass properties (fullinertia ordering is a cross-language contract); pi_from_body's segment lengths.")
    res.assumptions = ["theta is a real finite 10-vector", "J symmetric: a block and its transpose hold the same segment"]
    return None
