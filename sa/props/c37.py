"""C37 Model loading never crashes and enforces the schema.

Decided (static, from /repo's current source):
  R-LAYOUT     every generated mjXAttr row of src/xml/generated/mjcf_read_table.inc (parsed as data after macro
               expansion) against the clang layout of the struct named in its offsetof: the C type the reader writes
               through for that row kind (read from the `(T*)base` casts of the switch in
               mjXReader::ReadAttrTableCore) must be layout-compatible with the bound field, the field's extent must
               admit `len` for the kinds whose case reads `row.len`, handle kinds need the same handle type, kinds
               whose case never touches `base` must have offset -1, keyword-map rows must name a map of at least
               `mapsz` entries.  Every call of ReadAttrTable/ReadAttrTableCore passes an object of the struct its
               rows are bound to and the row count constant of that very table (also through kSensorDispatch).
  R-MUSTPASS   in mjXReader::Parse every path from entry to an element parser (a member of mjXReader taking an
               XMLElement*) passes the test of schema.Check's result on the accepting side; the rejecting side
               leaves by throw without parsing; public element parsers are called from outside the class only by
               the reasoned callers (URDF extension block).  Decided on the canonical view of Parse (cxx3.View): its
               lambdas — also a generic one that drives a handler argument once per section name —, the helper
               functions of the reader's TU and members called on `this` are walked inside Parse in execution order;
               only the element parsers and the check itself stay calls.  An element-parser call that the walk cannot
               reach (lambda stored in a std::function, passed to foreign code, ...) is ANALYSIS-ERROR, never a pass.
  R-CATCH      exception flow over all of src/xml/*.cc and src/user/*.cc (+ in-class/inline header bodies): the
               exception types that can reach each call/throw site of the XML API chain (xml_api.cc, xml.cc,
               xml_global.cc) are caught by an enclosing handler somewhere in the chain; nothing escapes an
               extern "C" function of xml_api.cc.
  R-ERRMSG     every return of NULL from mj_loadXML / mj_parseXML / mj_parseXMLString and the functions they delegate
               the `error` buffer to is preceded on its path by a write of a non-empty message (or is the NULL of a
               delegate that obeys the same rule), unless `error` is known to be NULL on that path.
  R-NULLGUARD  direct writes into `error` are dominated by a null test (advisory: an unguarded site is reported as
               NOTE, it concerns the argument contract, not the document).
  R-ATTR-BOUND / R-FORMAT  ReadAttr lengths against fixed-extent destinations; mjXError formats are literals.
  R-INPUT-BOUND (sa/r_inbound.py) census, by pattern, of every loop of src/xml whose exits depend on input text (stream
               extraction, container size, C-string scan, sibling elements) and that stores through a counter it advances
               (`dst[n++] = v`, a callback called with the counter), plus the input-sized bulk copies.  Each store must be
               bounded on every path by (a) a guard relating the index to a size expression (forward data-flow of linear
               relations over the function, early exits nested, facts killed by assignments), or (b) the uniqueness
               argument: counter starts at 0, one advance per storing iteration, token tested absent from a set that only
               grows and inserted into it in the same iteration, token confined to a finite table (result of a
               finite-table lookup -- recognised by role -- tested against its not-found value).  R-INPUT-BOUND-CALL: the
               buffer each caller passes (array extent, std::vector(n), std::array<T,N>, the callback's destination) is at
               least the bound the callee relies on; a site whose buffer cannot be related to the size argument is
               ANALYSIS-ERROR.  Self-growing destinations (push_back, +=) need no bound.
Not decided: crash freedom of tinyxml2 and of the compiler on arbitrary bytes; accept/reject decisions of the schema
automaton; exceptions of the standard library that depend on index preconditions (.at/.substr) or allocation failure;
fatal mju_error calls; value-dependent infeasibility of a throw (R-CATCH is a may-analysis: a report names the
shortest syntactic chain from the throw to the unguarded site).
"""
from __future__ import annotations

import os
import re
import subprocess

from .. import cfront, cir, ctypeinfo, cxx3, paths, r_inbound
from ..cfront import AnalysisError

READ_TABLE = "src/xml/generated/mjcf_read_table.inc"
MAP_HEADER = "src/xml/generated/mjcf_map.h"
READER_TU = "src/xml/xml_native_reader.cc"
API_TU = "src/xml/xml_api.cc"
CHAIN_TUS = ("src/xml/xml_api.cc", "src/xml/xml.cc", "src/xml/xml_global.cc")
ROW_TYPE = "mjXAttr"
TABLE_READERS = ("ReadAttrTable", "ReadAttrTableCore")

# callers of public element parsers outside class mjXReader, with the reason they need no MJCF schema check
EXTERNAL_PARSER_CALLERS = {
    "mjXURDF::Parse": "URDF documents carry an optional <mujoco> extension block (compiler/option/size); URDF has no "
                      "MJCF schema, the three static section parsers validate their own attributes",
}

FLOOR_ROWS = 567          # 567 mjXAttr rows in 76 tables on the pinned tree (+41 dispatch rows)
FLOOR_CALLSITES = 75      # 34 direct call sites + the dispatch call expanded over its 41 sensor tables
FLOOR_PARSERS = 17        # section parser calls in mjXReader::Parse
FLOOR_CATCH = 12          # 10 covered sites + the two leaking sites on the pinned tree
FLOOR_RETURNS = 9         # NULL returns (literal or delegated) of the parse chain


# ---------------------------------------------------------------------------------------------------------------
# shared program model


class Model:
    def __init__(self, repo):
        self.repo = repo
        xml = sorted("src/xml/" + f for f in os.listdir(os.path.join(repo, "src/xml")) if f.endswith(".cc"))
        user = sorted("src/user/" + f for f in os.listdir(os.path.join(repo, "src/user")) if f.endswith(".cc"))
        for t in CHAIN_TUS + (READER_TU,):
            if t not in xml:
                raise AnalysisError(f"{t} vanished")
        self.tus = xml + user
        self.irs = cfront.load_tus(self.tus, repo)
        self.probe = cxx3.load_header_probe("cxx3_probe_xml_user.cc", cxx3.headers_of(["src/xml", "src/user"], repo), repo)
        self.classes = cxx3.ClassTable(self.probe)
        self.index = cxx3.FuncIndex(repo)
        for tu in self.tus:
            self.index.add_ir(self.irs[tu])
        self.index.add_ir(self.probe)
        self.resolver = cxx3.Resolver(self.index, self.classes)
        self._flow = None

    @property
    def flow(self):
        if self._flow is None:
            self._flow = cxx3.ExcFlow(self.index, self.resolver)
        return self._flow

    def fn(self, qual, name):
        r = self.index.by_qual.get((qual, name)) if qual else [f for f in self.index.by_name.get(name, []) if not f.qual]
        if not r:
            raise AnalysisError(f"function {qual + '::' if qual else ''}{name} not found (anchor moved)")
        return r

    def fns_of_file(self, file):
        return [f for f in self.index.fns if f.file == file]


# ---------------------------------------------------------------------------------------------------------------
# R-LAYOUT


def _preprocess_inc(repo, rel):
    """Macro-expanded text of a generated .inc (constants like mjNREF become numbers) + line map."""
    if not os.path.exists(os.path.join(repo, rel)):
        raise AnalysisError(f"{rel} vanished")
    probe = f'#include <stddef.h>\n#include <mujoco/mujoco.h>\n#include "{rel}"\n'
    flags = [f for f in cfront.build_flags(repo)["c"] if f.startswith(("-D", "-I", "-std"))]
    p = subprocess.run(["clang", "-E", "-x", "c"] + flags + ["-"], input=probe.encode(), cwd=repo, capture_output=True)
    if p.returncode != 0:
        raise AnalysisError(f"preprocessing {rel} failed: {p.stderr.decode()[:500]}")
    out_lines, line_map = [], []
    cur_file, cur_line = None, 0
    for ln in p.stdout.decode("utf-8", "replace").split("\n"):
        m = re.match(r'#\s*(\d+)\s+"([^"]*)"', ln)
        if m:
            cur_line, cur_file = int(m.group(1)), m.group(2)
            continue
        if cur_file is not None and cur_file.endswith(rel):
            out_lines.append(ln)
            line_map.append(cur_line)
        cur_line += 1
    text = "\n".join(out_lines)
    if not text.strip():
        raise AnalysisError(f"nothing left of {rel} after preprocessing")
    return text, line_map


def _const_int(toks, consts):
    """Value of a constant integer expression (literals, named constants, + - * / and parentheses), else None."""
    txt = [t[1] for t in toks]
    pos = [0]

    def peek():
        return txt[pos[0]] if pos[0] < len(txt) else None

    def atom():
        t = peek()
        if t is None:
            raise ValueError
        pos[0] += 1
        if t == "(":
            v = expr()
            if peek() != ")":
                raise ValueError
            pos[0] += 1
            return v
        if t == "-":
            return -atom()
        if t == "+":
            return atom()
        m = re.fullmatch(r"(0[xX][0-9a-fA-F]+|\d+)[uUlL]*", t)
        if m:
            return int(m.group(1), 0)
        if t in consts:
            return consts[t]
        raise ValueError

    def term():
        v = atom()
        while peek() in ("*", "/"):
            op = txt[pos[0]]
            pos[0] += 1
            r = atom()
            v = v * r if op == "*" else (v // r if r else 0)
        return v

    def expr():
        v = term()
        while peek() in ("+", "-"):
            op = txt[pos[0]]
            pos[0] += 1
            r = term()
            v = v + r if op == "+" else v - r
        return v
    try:
        v = expr()
    except (ValueError, IndexError):
        return None
    return v if pos[0] == len(txt) else None


def _switch_cases(sw):
    """{enumerator: [statements]} of a switch over an enum (fallthrough: statements belong to every open label)."""
    body = [c for c in cir.kids(sw) if c is not None][-1]
    flat = []

    def add(st):
        if st is None:
            return
        if st.get("k") in ("CaseStmt", "DefaultStmt"):
            ks = cir.kids(st)
            lab = None
            if st["k"] == "CaseStmt":
                for x in cir.walk(ks[0]):
                    if x.get("k") == "DeclRefExpr" and (x.get("ref") or {}).get("k") == "EnumConstantDecl":
                        lab = x["ref"]["n"]
                        break
                if lab is None:
                    raise AnalysisError("case label of the row-kind switch is not an enumerator")
            flat.append(("label", lab))
            add(ks[-1] if ks else None)
        else:
            flat.append(("stmt", st))
    for st in cir.kids(body):
        add(st)
    cases, open_labels = {}, []
    for tag, v in flat:
        if tag == "label":
            open_labels.append(v)
            cases.setdefault(v, [])
        else:
            for lab in open_labels:
                cases[lab].append(v)
            if _terminates(v):
                open_labels = []
    return cases


def _terminates(st):
    """Does control never fall out of the bottom of this statement into the next case label?"""
    if st is None:
        return False
    k = st.get("k")
    if k in ("BreakStmt", "ReturnStmt", "ContinueStmt", "CXXThrowExpr"):
        return True
    if k == "ExprWithCleanups":
        return _terminates(cir.kids(st)[0]) if cir.kids(st) else False
    if k == "CompoundStmt":
        c = [x for x in cir.kids(st) if x is not None]
        return bool(c) and _terminates(c[-1])
    return False


def _kind_semantics(model):
    """Per row kind, from mjXReader::ReadAttrTableCore: the C type written through `base`, whether row.len /
    row.map is consumed.  Nothing about the kinds is hard-coded."""
    fn = model.fn("mjXReader", "ReadAttrTableCore")[0]
    base_ids = set()
    for n in cir.walk(fn.node):
        if n.get("k") == "VarDecl" and n.get("id") and any(
                x.get("k") == "MemberExpr" and x.get("n") == "offset" for x in cir.walk(n)):
            base_ids.add(n["id"])
    if len(base_ids) != 1:
        raise AnalysisError("cannot identify the field pointer (`obj + row.offset`) in ReadAttrTableCore")
    base_id = next(iter(base_ids))
    sw = [n for n in cir.walk(fn.node) if n.get("k") == "SwitchStmt" and any(
        x.get("k") == "MemberExpr" and x.get("n") == "kind" for x in cir.walk(cir.kids(n)[0] if cir.kids(n) else None))]
    sw = [n for n in cir.walk(fn.node) if n.get("k") == "SwitchStmt"]
    sw = [n for n in sw if any(x.get("k") == "MemberExpr" and x.get("n") == "kind"
                               for c in cir.kids(n)[:-1] for x in cir.walk(c))]
    if len(sw) != 1:
        raise AnalysisError("switch over row.kind not found in ReadAttrTableCore")
    cases = _switch_cases(sw[0])

    def uses_base(n):
        return any(x.get("k") == "DeclRefExpr" and (x.get("ref") or {}).get("id") == base_id for x in cir.walk(n))

    sem = {}
    for kind, stmts in cases.items():
        written = set()
        touches = False
        uses_len = uses_map = False
        for st in stmts:
            for n in cir.walk(st):
                k = n.get("k")
                if k == "MemberExpr" and n.get("n") == "len":
                    uses_len = True
                if k == "MemberExpr" and n.get("n") in ("map", "mapsz"):
                    uses_map = True
                if k in ("CStyleCastExpr", "CXXReinterpretCastExpr", "CXXStaticCastExpr") and uses_base(n):
                    t = (n.get("t") or "").strip()
                    if t.endswith("*"):
                        written.add(re.sub(r"\s+", " ", t[:-1].strip()))
                        touches = True
            # uses of base without a cast (memcpy(base, ..)): the pointer's own pointee type
            for n in cir.walk(st):
                if cir.is_call(n):
                    for a in cir.args(n):
                        s = cir.strip(a, casts=False)
                        if s is not None and s.get("k") == "ImplicitCastExpr":
                            s = cir.strip(s)
                        if s is not None and s.get("k") == "DeclRefExpr" and (s.get("ref") or {}).get("id") == base_id:
                            t = (s.get("t") or "").strip()
                            written.add(t[:-1].strip() if t.endswith("*") else t)
                            touches = True
        if len(written) > 1:
            raise AnalysisError(f"row kind {kind}: the reader writes through several types {sorted(written)}")
        sem[kind] = {"written": next(iter(written)) if written else None, "touches": touches, "len": uses_len,
                     "map": uses_map}
    return sem, fn


_SCALAR = {"char": (1, "i"), "signed char": (1, "i"), "unsigned char": (1, "i"), "_Bool": (1, "i"), "bool": (1, "i"),
           "short": (2, "i"), "unsigned short": (2, "i"), "int": (4, "i"), "unsigned int": (4, "i"),
           "long": (8, "i"), "unsigned long": (8, "i"), "long long": (8, "i"), "unsigned long long": (8, "i"),
           "float": (4, "f"), "double": (8, "f")}


def _scalar_class(t, lay):
    """(size, class) of a scalar C type after typedef resolution; enums are int-sized; None for others."""
    t = lay.resolve_scalar(t)
    if t.startswith("enum "):
        return (4, "i")
    return _SCALAR.get(t)


def layout_rule(res, model):
    repo = model.repo
    res.rule("R-LAYOUT", "each generated attribute row fits the C field it is bound to (type written by the reader for "
             "that kind, extent >= len, handle type, keyword map extent)", floor=FLOOR_ROWS)
    res.rule("R-LAYOUT-CALL", "each table-reader call passes an object of the struct its rows are bound to and that "
             "table's own row count", floor=FLOOR_CALLSITES)
    text, line_map = _preprocess_inc(repo, READ_TABLE)
    tables = cxx3.parse_tables(text, ROW_TYPE)
    if not tables:
        raise AnalysisError(f"no {ROW_TYPE} tables found in {READ_TABLE}")

    def line_at(off):
        i = text.count("\n", 0, off)
        return line_map[i] if i < len(line_map) else None

    # row cell order from the struct declaration
    cls = model.classes.classes.get(ROW_TYPE)
    if not cls:
        raise AnalysisError(f"struct {ROW_TYPE} not found in the xml headers")
    order = list(cls["fields"])
    need = ("attr", "kind", "len", "offset", "map", "mapsz")
    if any(n not in order for n in need):
        raise AnalysisError(f"struct {ROW_TYPE} lost one of the fields {need}")
    ix = {n: order.index(n) for n in order}
    sem, reader_fn = _kind_semantics(model)
    # kinds declared by the enum
    kinds_declared = None
    for d in cir.walk({"k": "x", "i": model.probe["decls"]}):
        if d.get("k") == "CXXRecordDecl" and d.get("n") == ROW_TYPE and cir.kids(d):
            for e in cir.kids(d):
                if e is not None and e.get("k") == "EnumDecl":
                    kinds_declared = [c.get("n") for c in cir.kids(e) if c is not None and c.get("k") == "EnumConstantDecl"]
    if not kinds_declared:
        raise AnalysisError(f"enum {ROW_TYPE}::Kind not found")
    missing = [k for k in kinds_declared if k not in sem]
    if missing:
        raise AnalysisError(f"row kinds without a case in ReadAttrTableCore: {missing}")
    lay = cxx3.Layout(repo)
    # keyword maps
    map_text = open(os.path.join(repo, MAP_HEADER)).read() if os.path.exists(os.path.join(repo, MAP_HEADER)) else None
    if map_text is None:
        raise AnalysisError(f"{MAP_HEADER} vanished")
    maps = {k: len(v) for k, v in cxx3.parse_tables(map_text, "mjMap").items()}
    consts = {}
    mtoks = cxx3.tokenize(map_text)
    for i in range(len(mtoks) - 4):
        if mtoks[i][1] == "int" and mtoks[i + 1][0] == "id" and mtoks[i + 2][1] == "=" and mtoks[i + 3][0] == "num" \
                and mtoks[i + 4][1] == ";":
            consts[mtoks[i + 1][1]] = int(mtoks[i + 3][1])
    if len(maps) < 10:
        raise AnalysisError(f"only {len(maps)} keyword maps parsed from {MAP_HEADER}")
    table_struct = {}
    nrows = 0
    for tname, rows in sorted(tables.items()):
        structs = set()
        for r in rows:
            nrows += 1
            cells = r["cells"]
            line = line_at(r["off"])
            if len(cells) <= ix["offset"]:
                res.bad("R-LAYOUT", f"{tname}[?]", READ_TABLE, line, "row has too few cells to carry an offset")
                continue
            attr = cells[ix["attr"]][0][1].strip('"') if cells[ix["attr"]] else "?"
            construct = f"{tname}[{attr}]"
            ktoks = [t[1] for t in cells[ix["kind"]]]
            kind = ktoks[-1] if ktoks else None
            if kind not in sem:
                res.bad("R-LAYOUT", construct, READ_TABLE, line, f"unknown row kind {' '.join(ktoks)}")
                continue
            s = sem[kind]
            length = _const_int(cells[ix["len"]], consts)
            if length is None:
                raise AnalysisError(f"{construct}: cannot evaluate len `{' '.join(t[1] for t in cells[ix['len']])}`")
            off = cxx3.parse_offsetof(cells[ix["offset"]])
            if not s["touches"]:
                if off is not None:
                    res.bad("R-LAYOUT", construct, READ_TABLE, line,
                            f"kind {kind} never writes a field but the row binds {off[0]}.{off[1]}")
                else:
                    res.ok("R-LAYOUT", construct)
                continue
            if off is None:
                res.bad("R-LAYOUT", construct, READ_TABLE, line,
                        f"kind {kind} writes through obj+offset but the row's offset is -1: the write lands before the "
                        f"object")
                continue
            struct, desig = off
            structs.add(struct)
            ftype = lay.field_type(struct, desig)
            if ftype is None:
                res.bad("R-LAYOUT", construct, READ_TABLE, line, f"{struct} has no member `{desig}`")
                continue
            fbase, dims = cxx3.split_array(ftype)
            extent = 1
            for d in dims:
                extent *= d
            w = s["written"]
            problem = None
            if w.endswith("*"):
                # handle kinds: same handle type, scalar
                if re.sub(r"\s+", "", fbase) != re.sub(r"\s+", "", w) or dims:
                    problem = f"kind {kind} stores through a `{w}` handle but {struct}.{desig} is `{ftype}`"
            else:
                wc = _scalar_class(w, lay)
                fc = _scalar_class(fbase, lay)
                if wc is None:
                    raise AnalysisError(f"kind {kind}: written type `{w}` is not a known scalar")
                if fc is None:
                    problem = f"kind {kind} writes `{w}` but {struct}.{desig} is `{ftype}` (not a scalar/array of scalars)"
                elif fc != wc:
                    problem = (f"kind {kind} writes `{w}` ({wc[0]} bytes, {'float' if wc[1] == 'f' else 'integer'}) but "
                               f"{struct}.{desig} is `{ftype}` ({fc[0]} bytes, {'float' if fc[1] == 'f' else 'integer'})")
                else:
                    n_written = length if s["len"] else 1
                    if n_written > extent:
                        problem = (f"kind {kind} writes up to {n_written} x `{w}` but {struct}.{desig} is `{ftype}` "
                                   f"({extent} element{'s' if extent != 1 else ''}): out-of-bounds write for any "
                                   f"document that sets `{attr}`")
                    elif n_written < 1:
                        problem = f"len {length} is not positive"
            if problem is None and s["map"]:
                mcell = cells[ix["map"]] if len(cells) > ix["map"] else []
                zcell = cells[ix["mapsz"]] if len(cells) > ix["mapsz"] else []
                if kind != "kBool" or mcell:
                    mname = mcell[0][1] if len(mcell) == 1 else None
                    msz = _const_int(zcell, consts) if zcell else None
                    if mname is None or mname not in maps:
                        if not (kind == "kBool"):
                            problem = f"kind {kind} needs a keyword map but the row names `{' '.join(t[1] for t in mcell) or 'none'}`"
                    elif msz is None:
                        problem = f"kind {kind}: keyword map size `{' '.join(t[1] for t in zcell) or 'missing'}` is not a constant"
                    elif msz > maps[mname]:
                        problem = f"mapsz {msz} exceeds the {maps[mname]} entries of {mname}: out-of-bounds read"
            if problem:
                res.bad("R-LAYOUT", construct, READ_TABLE, line, problem)
            else:
                res.ok("R-LAYOUT", construct, {"kind": kind, "len": length, "field": f"{struct}.{desig}", "type": ftype,
                                               "written": w})
        table_struct[tname] = structs
    res.count("table_rows", nrows)
    res.count("tables", len(tables))
    res.extra["row_kind_semantics"] = {k: v for k, v in sorted(sem.items())}

    # row-count constants:  int N = sizeof(T) / sizeof(T[0])
    toks = cxx3.tokenize(text)
    count_of = {}
    for i in range(len(toks) - 12):
        if toks[i][1] == "int" and toks[i + 1][0] == "id" and toks[i + 2][1] == "=" and toks[i + 3][1] == "sizeof":
            seg = [t[1] for t in toks[i + 3:i + 16]]
            m = re.match(r"sizeof\((\w+)\)/sizeof\(\1\[0\]\);", "".join(seg))
            if m:
                count_of[toks[i + 1][1]] = m.group(1)
    # dispatch tables: rows {tag, table, count}
    dispatch = {}
    for dname, rows in cxx3.parse_tables(text, "mjXSensorEntry").items():
        ents = []
        for r in rows:
            c = r["cells"]
            if len(c) != 3:
                raise AnalysisError(f"dispatch table {dname}: unexpected row shape")
            ents.append((c[0][0][1].strip('"'), c[1][0][1], c[2][0][1], line_at(r["off"])))
        dispatch[dname] = ents
    # call sites
    reader_ir = model.irs[READER_TU]
    ncalls = 0
    for f in model.index.fns:
        if f.tu != READER_TU:
            continue
        for call in cir.calls(f.node, TABLE_READERS):
            name = cir.callee(call)
            a = cir.args(call)
            # obj is the second argument of both; rows/nrow positions from the member's signature
            sig = model.classes.classes["mjXReader"]["methods"].get(name)
            if not sig:
                raise AnalysisError(f"mjXReader::{name} not declared")
            ptypes = sig[0]["params"]
            try:
                i_obj = next(i for i, t in enumerate(ptypes) if t.replace(" ", "") == "void*")
                i_rows = next(i for i, t in enumerate(ptypes) if ROW_TYPE in t)
            except StopIteration:
                raise AnalysisError(f"mjXReader::{name}: parameter shape changed")
            i_n = i_rows + 1
            if f.name == "ReadAttrTable" and name == "ReadAttrTableCore":
                continue    # the member wrapper forwards its own parameters
            ncalls += 1
            obj = cir.strip(a[i_obj], casts=False)
            while obj is not None and obj.get("k") in ("ImplicitCastExpr", "ParenExpr"):
                obj = cir.kids(obj)[0]
            objt = cxx3.base_type(obj.get("t")) if obj is not None else None
            rows_e = cir.strip(a[i_rows])
            n_e = cir.strip(a[i_n])
            tnames = []
            if rows_e is not None and rows_e.get("k") == "DeclRefExpr":
                tn = (rows_e.get("ref") or {}).get("n")
                nn = (n_e.get("ref") or {}).get("n") if n_e is not None and n_e.get("k") == "DeclRefExpr" else None
                tnames.append((tn, nn, None))
            elif rows_e is not None and rows_e.get("k") == "MemberExpr":
                # kSensorDispatch[i].rows / .n
                dn = cir.base_var(rows_e)
                dn2 = cir.base_var(n_e) if n_e is not None else None
                if dn not in dispatch or dn2 != dn:
                    raise AnalysisError(f"{f.key}: table-reader call with rows from `{cir.text(rows_e)}` not understood")
                if cir.text(cir.kids(cir.strip(cir.kids(rows_e)[0]))[1]) != cir.text(cir.kids(cir.strip(cir.kids(n_e)[0]))[1]):
                    tnames.append((None, None, "rows and count are taken from different dispatch entries"))
                for tag, tn, nn, ln in dispatch[dn]:
                    tnames.append((tn, nn, None))
            else:
                raise AnalysisError(f"{f.key}: table-reader call with rows `{cir.text(rows_e)}` not understood")
            for tn, nn, err in tnames:
                construct = f"{f.key}->{name}({tn})"
                if err:
                    res.bad("R-LAYOUT-CALL", construct, f.file, call.get("line"), err)
                    continue
                if tn not in tables:
                    res.bad("R-LAYOUT-CALL", construct, f.file, call.get("line"), f"`{tn}` is not a generated row table")
                    continue
                if count_of.get(nn) != tn:
                    res.bad("R-LAYOUT-CALL", construct, f.file, call.get("line"),
                            f"row count `{nn}` is not the count of table {tn} (it counts {count_of.get(nn, 'nothing known')}): "
                            f"the reader walks past the table or stops early")
                    continue
                st = table_struct.get(tn, set())
                if len(st) > 1:
                    res.bad("R-LAYOUT-CALL", construct, f.file, call.get("line"),
                            f"table {tn} binds fields of several structs {sorted(st)}")
                    continue
                if st and objt != next(iter(st)):
                    res.bad("R-LAYOUT-CALL", construct, f.file, call.get("line"),
                            f"rows of {tn} are offsets into {next(iter(st))} but the object passed is `{obj.get('t')}`")
                    continue
                res.ok("R-LAYOUT-CALL", construct, {"object": obj.get("t") if obj else None})
    res.count("table_reader_calls", ncalls)


# ---------------------------------------------------------------------------------------------------------------
# R-MUSTPASS


class _MustPass(cxx3.XRule):
    """state: (phase, var): U unchecked, T checked-result-untested, V validated, F failed."""

    def __init__(self, parsers, check_name="Check", schema_type="mjXSchema"):
        self.parsers = parsers
        self.check_name = check_name
        self.schema_type = schema_type
        self.parser_calls = []
        self.seen_check = 0

    def initial(self, fn):
        return ("U", None)

    def _is_check(self, node):
        if not cir.is_call(node):
            return False
        info = cxx3.callee_info(node)
        return bool(info and info[0] == "method" and info[1] == self.check_name and info[2] == self.schema_type)

    def call(self, st, node, name, ctx):
        if self._is_check(node):
            self.seen_check += 1
            return ("T", None)
        info = cxx3.callee_info(node)
        if info and info[0] == "method" and info[1] in self.parsers and info[2] in (None, "mjXReader"):
            key = (info[1], node.get("line"))
            if key not in self.parser_calls:
                self.parser_calls.append(key)
            if st[0] != "V":
                why = {"U": "before the schema check", "T": "before the result of the schema check is tested",
                       "F": "on the path where the schema check reported a violation"}[st[0]]
                ctx.report(node, f"element parser {info[1]}() is reached {why}", construct=info[1])
        return st

    def assign(self, st, node, ctx):
        if st[0] == "T" and st[1] is None:
            rhs = None
            if node.get("k") == "VarDecl":
                init = [c for c in cir.kids(node) if c is not None]
                rhs = init[-1] if init else None
                var = node.get("n")
            elif node.get("k") == "BinaryOperator" and node.get("op") == "=":
                l = cir.strip(cir.kids(node)[0])
                var = (l.get("ref") or {}).get("n") if l is not None and l.get("k") == "DeclRefExpr" else None
                rhs = cir.kids(node)[1]
            else:
                return st
            if rhs is not None and var and self._is_check(cir.strip(rhs)):
                return ("T", var)
        return st

    def branch(self, st, cond, taken, ctx):
        if st[0] != "T":
            return st
        node = cir.strip(cond)
        pol = True
        if node is not None and node.get("k") == "BinaryOperator" and node.get("op") in ("==", "!="):
            a, b = (cir.strip(x) for x in cir.kids(node))
            za, zb = paths._is_zero(a), paths._is_zero(b)
            if za != zb:
                if node.get("op") == "==":
                    pol = False
                node = b if za else a
        involved = False
        for x in cir.walk(node):
            if self._is_check(x):
                involved = True
            if st[1] and x.get("k") == "DeclRefExpr" and (x.get("ref") or {}).get("n") == st[1]:
                involved = True
        if not involved:
            return st
        nonnull = taken if pol else (not taken)
        return ("F", None) if nonnull else ("V", None)

    def ret(self, st, node, ctx):
        if st[0] == "F":
            ctx.report(node, "the path on which the schema check reported a violation returns normally instead of "
                             "leaving with an error", construct="reject-path")

    def fallthrough(self, st, ctx):
        if st[0] == "F":
            ctx.report(ctx.fn, "the path on which the schema check reported a violation falls off the end of Parse",
                       construct="reject-path")


def mustpass_rule(res, model):
    res.rule("R-MUSTPASS", "mjXReader::Parse: schema.Check dominates every element parser, its rejecting branch leaves "
             "by throw; public element parsers have only reasoned external callers", floor=FLOOR_PARSERS)
    cls = model.classes.classes.get("mjXReader")
    if not cls:
        raise AnalysisError("class mjXReader not found")
    parsers = {n for n, ms in cls["methods"].items() if n != "Parse" and any(
        any("XMLElement" in (p or "") for p in m["params"]) for m in ms)}
    if len(parsers) < 30:
        raise AnalysisError(f"only {len(parsers)} element parsers found in class mjXReader")
    fn = model.fn("mjXReader", "Parse")[0]
    unit = cir.Unit(model.irs[READER_TU])
    rule = _MustPass(parsers)
    # members that run the schema check themselves belong to the checking side, not to the parsers it protects
    validators = {n for n in parsers for f in model.index.by_qual.get(("mjXReader", n), [])
                  if any(rule._is_check(x) for x in cir.walk(f.node))}
    parsers -= validators
    rule.parsers = parsers

    def is_event(x):
        if not cir.is_call(x):
            return False
        if rule._is_check(x):
            return True
        info = cxx3.callee_info(x)
        return bool(info and info[0] == "method" and info[1] in parsers and info[2] in (None, "mjXReader"))

    # canonical view of Parse: its lambdas (also generic ones driven by a handler argument) and the helpers / private
    # members of the reader's TU are analysed inside it, in execution order; the element parsers and the check stay
    # calls (they are what the rule speaks about)
    view = cxx3.View(fn.node, [f.node for f in model.fns_of_file(READER_TU)], READER_TU,
                     exclude=set(parsers) | {rule.check_name, fn.name})
    ctx = cxx3.xexplore(rule, unit, view.fn)
    if rule.seen_check == 0:
        raise AnalysisError("mjXReader::Parse no longer calls mjXSchema::Check (anchor moved)")
    # fail closed: every element-parser call written in Parse (also inside its lambdas) must have been walked, and no
    # call that was left opaque may lead to an element parser or to the check
    seen = {(n, ln) for n, ln in rule.parser_calls}
    for x in cir.walk(fn.node):
        if is_event(x) and not rule._is_check(x):
            info = cxx3.callee_info(x)
            if (info[1], x.get("line")) not in seen:
                raise AnalysisError(f"mjXReader::Parse: the call of element parser {info[1]}() at line {x.get('line')} sits in "
                                    f"code the path analysis could not follow (a lambda or local class that is not "
                                    f"called in a way the analysis understands) — cannot decide whether the schema check "
                                    f"dominates it")
    for call, h in view.residual_targets():
        if h.get("n") in view.inliner.exclude:
            continue
        if view.reaches(call, is_event):
            raise AnalysisError(f"mjXReader::Parse: {cir.callee(call) or h.get('n')}() at line {call.get('line')} leads to an "
                                f"element parser or to the schema check but could not be analysed inside Parse")
    res.extra["parse_view_inlined"] = view.inlined
    bad = {}
    for r in ctx.reports:
        bad.setdefault(r.get("construct"), r)
    for name, line in rule.parser_calls:
        c = f"mjXReader::Parse->{name}"
        if name in bad:
            r = bad[name]
            res.bad("R-MUSTPASS", c, r["file"], r["line"], r["msg"])
        else:
            res.ok("R-MUSTPASS", c, {"line": line})
    if "reject-path" in bad:
        r = bad["reject-path"]
        res.bad("R-MUSTPASS", "mjXReader::Parse:reject-path", r["file"], r["line"], r["msg"])
    else:
        res.ok("R-MUSTPASS", "mjXReader::Parse:reject-path")
    # who else may run element parsers: only public ones are callable from outside the class
    public = {n for n in parsers if any(m["access"] == "public" for m in cls["methods"][n])}
    for f in model.index.fns:
        if f.qual == "mjXReader" or (f.qual and "mjXReader" in model.classes.ancestors(f.qual)):
            continue
        for call in cir.calls(f.node):
            info = cxx3.callee_info(call)
            if not info or info[1] not in public:
                continue
            tg = model.resolver.targets(info, f.tu, cxx3.call_nargs(call))
            if not any(t.qual == "mjXReader" for t in tg):
                continue
            c = f"{f.key}->mjXReader::{info[1]}"
            if f.key in EXTERNAL_PARSER_CALLERS:
                res.ok("R-MUSTPASS", c, {"reason": EXTERNAL_PARSER_CALLERS[f.key]})
            else:
                res.bad("R-MUSTPASS", c, f.file, call.get("line"),
                        f"element parser mjXReader::{info[1]} is called from outside the reader without the schema check")
    res.count("element_parsers", len(parsers))


# ---------------------------------------------------------------------------------------------------------------
# R-CATCH


PROPERTY_ROOTS = ("mj_loadXML", "mj_parseXML", "mj_parseXMLString")     # the functions the property speaks about


def catch_rule(res, model):
    res.rule("R-CATCH", "every call/throw site of the XML API chain that can raise an exception is covered by handlers "
             "for all the types that can reach it; nothing escapes mj_loadXML / mj_parseXML / mj_parseXMLString "
             "(extern \"C\")", floor=FLOOR_CATCH)
    flow = model.flow
    chain = [f for f in model.index.fns if f.file in CHAIN_TUS]
    chain_ids = {id(f) for f in chain}
    api = [f for f in chain if f.file == API_TU and not f.qual and f.name.startswith("mj_")]
    if len(api) < 9:
        raise AnalysisError(f"only {len(api)} API functions found in {API_TU}")
    for r in PROPERTY_ROOTS:
        if r not in {a.name for a in api}:
            raise AnalysisError(f"{r} not found in {API_TU}")
    sites = {id(f): flow.sites(f) for f in chain}

    def call_targets(f):
        res_ = {}

        def rec(items):
            for it in items:
                if it[0] == "call":
                    res_[(it[2], it[3])] = [flow.byid[i] for i in it[1]]
                elif it[0] == "try":
                    rec(it[1])
                    for _, h in it[2]:
                        rec(h)
        rec(flow.skel.get(id(f), []))
        return res_

    targets = {id(f): call_targets(f) for f in chain}
    reported = {}       # (site, type) -> dict(fn, kind, label, line, stack, roots, path)
    seen = set()
    leaky = set()       # sites an exception passes through on its way out of a property root

    def descend(root, f, t, path):
        key = (root.name, id(f), t)
        if key in seen:
            return
        seen.add(key)
        for kind, label, line, types, stack in sites[id(f)]:
            if t not in types or not cxx3.uncaught({t}, stack):
                continue
            if root.name in PROPERTY_ROOTS:
                leaky.add(f"{f.key}->{label}" if kind != "throw" else f"{f.key}:throw")
            if kind == "call":
                tg = [g for g in targets[id(f)].get((label, line), []) if t in flow.escapes(g)]
                inner = [g for g in tg if id(g) in chain_ids]
                for g in inner:
                    descend(root, g, t, path + [f.key])
                if inner and len(inner) == len(tg):
                    continue        # the exception enters the chain deeper down; reported there
            site = f"{f.key}->{label}" if kind != "throw" else f"{f.key}:throw"
            r = reported.setdefault((site, t), {"fn": f, "kind": kind, "label": label, "line": line, "stack": stack,
                                                "roots": set(), "path": path + [f.key]})
            r["roots"].add(root.name)

    for a in api:
        for t in sorted(flow.escapes(a)):
            descend(a, a, t, [])
    bad_sites = {}
    for (site, t), v in reported.items():
        bad_sites.setdefault(site, []).append((t, v))
    covered = set()
    for f in chain:
        for kind, label, line, types, stack in sites[id(f)]:
            if not types:
                continue
            site = f"{f.key}->{label}" if kind != "throw" else f"{f.key}:throw"
            if site in covered:
                continue
            covered.add(site)
            if site not in leaky:
                # (pass-through sites of a leaking exception are neither discharged nor reported: the report is at
                # the deepest site, where the handler is missing)
                res.ok("R-CATCH", site, {"types": sorted(types), "handlers": [list(h) for h in stack]})
    notes = res.extra.setdefault("notes", [])
    for site, lst in sorted(bad_sites.items()):
        for t, v in sorted(lst, key=lambda x: x[0]):
            f, kind, label, line = v["fn"], v["kind"], v["label"], v["line"]
            tg = [g for g in targets[id(f)].get((label, line), []) if t in flow.escapes(g)] if kind == "call" else []
            org = flow.origins(tg, t) if tg else [(f.file, line, f.key)]
            witness = flow.chain(tg[0], t) if tg else []
            htxt = ", ".join("catch(" + "|".join(h) + ")" for h in v["stack"]) or "no try block"
            roots = sorted(v["roots"])
            msg = (f"{t} can reach this site and no handler catches it ({htxt}); it propagates out of "
                   f"{', '.join(roots)} (extern \"C\" boundary -> std::terminate). Call chain: "
                   + " -> ".join(v["path"]) + f". {len(org)} throw site(s) of {t} reach it uncaught: "
                   + "; ".join(f"{k} {fl}:{ln}" for fl, ln, k in org[:8]) + (" ..." if len(org) > 8 else "")
                   + ". One path: " + " -> ".join(witness[:9]))
            if v["roots"] & set(PROPERTY_ROOTS):
                res.bad("R-CATCH", f"{site}:{t}", f.file, line, msg)
            else:
                notes.append({"rule": "R-CATCH", "construct": f"{site}:{t}", "file": f.file, "line": line,
                              "msg": msg + " -- only save-side API functions are affected: outside this property "
                                           "(model loading), reported as a note"})
                print(f"NOTE property=C37 rule=R-CATCH construct={site}:{t} {f.file}:{line} {notes[-1]['msg'][:400]}")
    for a in api:
        if a.name in PROPERTY_ROOTS:
            c = f"{a.key}:boundary"
            if not flow.escapes(a):
                res.ok("R-CATCH", c)
            # otherwise the leaking sites are reported above
    res.count("functions_in_exception_flow", len(model.index.fns))
    res.count("may_throw_functions", sum(1 for f in model.index.fns if flow.escapes(f)))
    res.extra["exception_flow_rounds"] = flow.rounds
    res.extra["api_escapes"] = {a.key: sorted(flow.escapes(a)) for a in api}


# ---------------------------------------------------------------------------------------------------------------
# R-ERRMSG / R-NULLGUARD

WRITERS_LIBC = {"snprintf", "sprintf", "strncpy", "strcpy", "vsnprintf"}


def _is_null_expr(n):
    n = cir.strip(n)
    if n is None:
        return False
    if n.get("k") in ("CXXNullPtrLiteralExpr", "GNUNullExpr"):
        return True
    if n.get("k") == "IntegerLiteral" and str(n.get("v")) == "0":
        return True
    return False


def _ref_name(n):
    n = cir.strip(n)
    if n is not None and n.get("k") == "DeclRefExpr":
        return (n.get("ref") or {}).get("n")
    return None


def _tested_var(cond):
    """Variable whose null-ness a condition tests: `v`, `v.operator bool()`, `v.get()`, `v != nullptr`."""
    n = cir.strip(cond)
    if n is None:
        return None
    if n.get("k") == "DeclRefExpr":
        return _ref_name(n)
    if n.get("k") == "CXXMemberCallExpr":
        f = cir.strip(cir.kids(n)[0])
        if f is not None and f.get("k") == "MemberExpr" and f.get("n") in ("operator bool", "get"):
            return _ref_name(cir.kids(f)[0]) if cir.kids(f) else None
    return None


class _ErrMsg(cxx3.XRule):
    """state: (msg, errnull, vars)   msg: 'none' | 'set';  errnull: None | True | False;
    vars: frozenset((name, kind)) kind in null/deleg/other."""

    def __init__(self, err, delegates, guarded_writers, ptr_return):
        self.err = err
        self.delegates = delegates
        self.guarded_writers = guarded_writers
        self.ptr_return = ptr_return
        self.returns = []       # (line, kind, ok, why)
        self.writes = []        # (line, guarded, text)
        self.exits = []         # states at normal exits

    def initial(self, fn):
        return ("none", None, frozenset())

    # -- helpers
    def _passes_err(self, call):
        return any(_ref_name(a) == self.err for a in cir.args(call))

    def _deleg_call(self, n):
        n = cir.strip(n)
        if n is None:
            return False
        if cir.is_call(n) and cir.callee(n) in self.delegates and self._passes_err(n):
            return True
        return False

    def _classify(self, rhs):
        s = cir.strip(rhs)
        if s is None:
            return "other"
        if _is_null_expr(s):
            return "null"
        if self._deleg_call(s):
            return "deleg"
        if s.get("k") in cxx3.CTOR_KINDS:
            c = [x for x in cir.kids(s) if x is not None]
            if c and self._deleg_call(c[0]):
                return "deleg"
            if not c:
                return "other"
        return "other"

    def _setvar(self, st, name, kind):
        vs = {(n, k) for n, k in st[2] if n != name}
        vs.add((name, kind))
        return (st[0], st[1], frozenset(vs))

    def _kind(self, st, name):
        for n, k in st[2]:
            if n == name:
                return k
        return None

    def _note_write(self, st, node, text):
        self.writes.append((node.get("line"), st[1] is False, text))

    # -- transfer
    def call(self, st, node, name, ctx):
        a = cir.args(node)
        if name in self.guarded_writers and len(a) > self.guarded_writers[name] and \
                _ref_name(a[self.guarded_writers[name]]) == self.err:
            lits = [cir.strip(x) for x in a]
            if any(x is not None and x.get("k") == "StringLiteral" and str(x.get("v")).strip('"') == "" for x in lits):
                return st       # an empty message is no message
            return ("set", st[1], st[2])
        if name in WRITERS_LIBC and a and _ref_name(a[0]) == self.err:
            self._note_write(st, node, cir.text(node)[:60])
            lits = [cir.strip(x) for x in a[1:]]
            fmt = next((x for x in lits if x is not None and x.get("k") == "StringLiteral"), None)
            if fmt is not None and str(fmt.get("v")).strip('"') == "":
                return st
            return ("set", st[1], st[2])
        return st

    def assign(self, st, node, ctx):
        k = node.get("k")
        if k == "VarDecl":
            init = [c for c in cir.kids(node) if c is not None and not (c.get("k") or "").endswith("Attr")]
            if init:
                return self._setvar(st, node.get("n"), self._classify(init[-1]))
            return st
        if k == "BinaryOperator" and node.get("op") == "=":
            lhs = cir.strip(cir.kids(node)[0])
            rhs = cir.kids(node)[1]
            if lhs is not None and lhs.get("k") == "DeclRefExpr":
                return self._setvar(st, (lhs.get("ref") or {}).get("n"), self._classify(rhs))
            if lhs is not None and lhs.get("k") in ("ArraySubscriptExpr", "UnaryOperator") and cir.base_var(lhs) == self.err:
                self._note_write(st, node, cir.text(node)[:60])
                r = cir.strip(rhs)
                if r is not None and r.get("k") in ("CharacterLiteral", "IntegerLiteral") and str(r.get("v")) == "0":
                    return ("none", st[1], st[2])
                return ("set", st[1], st[2])
        return st

    def branch(self, st, cond, taken, ctx):
        nc = paths.norm_cond(cond)
        v = None
        pol = True
        if nc is not None:
            v, pol = nc[0], nc[1]
        else:
            v = _tested_var(cond)
        if v is None:
            return st
        truth = taken if pol else (not taken)      # truth of "v is non-null"
        if v == self.err:
            if st[1] is not None and st[1] != (not truth):
                return None
            return (st[0], not truth, st[2])
        tv = _tested_var({"k": "DeclRefExpr", "ref": {"n": v}}) if False else v
        kind = self._kind(st, tv)
        if kind == "deleg":
            if truth:
                return self._setvar(st, tv, "other")
            s2 = self._setvar(st, tv, "delegnull")
            return ("set", s2[1], s2[2])          # the delegate wrote the message
        if kind == "null" and truth:
            return None
        return st

    def fallthrough(self, st, ctx):
        self.exits.append(st)

    def ret(self, st, node, ctx):
        self.exits.append(st)
        if not self.ptr_return:
            return
        c = [x for x in cir.kids(node) if x is not None]
        if not c:
            return
        e = cir.strip(c[0])
        kind = None
        if _is_null_expr(e):
            kind = "null"
        elif self._deleg_call(e):
            self.returns.append((node.get("line"), "delegated", True, "returns the delegate's result"))
            return
        else:
            name = _ref_name(e)
            if name is not None:
                kind = self._kind(st, name)
                if kind in ("deleg",):
                    self.returns.append((node.get("line"), "delegated", True, "returns the delegate's result"))
                    return
                if kind == "delegnull":
                    kind = "null"
        if kind != "null":
            return
        if st[0] == "set":
            self.returns.append((node.get("line"), "null", True, "message written"))
        elif st[1] is True:
            self.returns.append((node.get("line"), "null", True, "error buffer is NULL on this path"))
        else:
            self.returns.append((node.get("line"), "null", False,
                                 "returns NULL without having written a non-empty message into `error`"))


def errmsg_rule(res, model):
    res.rule("R-ERRMSG", "every NULL return of the parse API chain is preceded by a non-empty error message (or is the "
             "NULL of a delegate obeying the same rule)", floor=FLOOR_RETURNS)
    res.rule("R-NULLGUARD", "direct writes into the `error` buffer are dominated by a null test (advisory)", floor=4)
    roots = ["mj_loadXML", "mj_parseXML", "mj_parseXMLString"]
    chain = {f.name: f for f in model.index.fns if f.file in CHAIN_TUS and not f.qual}
    for r in roots:
        if r not in chain:
            raise AnalysisError(f"{r} not found in {API_TU}")

    def err_param(f):
        ps = [p for p in cir.params(f.node) if (p.get("t") or "").replace(" ", "") == "char*" and p.get("n") == "error"]
        return ps[0].get("n") if ps else None

    def ptr_ret(f):
        return (f.sig or "").split("(")[0].strip().endswith("*")

    # closure of delegates: chain functions returning a pointer that receive the caller's error buffer
    todo, scope = list(roots), {}
    while todo:
        name = todo.pop()
        if name in scope:
            continue
        f = chain[name]
        ep = err_param(f)
        if ep is None:
            raise AnalysisError(f"{name} has no `char* error` parameter (anchor moved)")
        scope[name] = f
        for call in cir.calls(f.node):
            cn = cir.callee(call)
            if cn in chain and cn not in scope and ptr_ret(chain[cn]) and err_param(chain[cn]) and \
                    any(_ref_name(a) == ep for a in cir.args(call)):
                todo.append(cn)
    # message writers: free functions of src/xml that take a `char*` destination, write it only under a test of the
    # destination, and leave no path on which the destination was neither tested nor written (mjCopyError, and any
    # helper wrapped around it).  Discovered on the code, to a fixpoint; nothing is listed by name.
    guarded_writers = {}
    cands = [f for f in model.index.fns if f.file.startswith("src/xml/") and not f.qual and f.tu in model.irs
             and f.name not in scope]
    changed = True
    while changed:
        changed = False
        for f in cands:
            if f.name in guarded_writers:
                continue
            for i, p_ in enumerate(cir.params(f.node)):
                if (p_.get("t") or "").replace(" ", "") != "char*":
                    continue
                rule = _ErrMsg(p_.get("n"), set(), guarded_writers, False)
                try:
                    cxx3.xexplore(rule, cir.Unit(model.irs[f.tu]), f.node)
                except AnalysisError:
                    continue
                wrote = bool(rule.writes) or any(st[0] == "set" for st in rule.exits)
                if wrote and all(g for _, g, _ in rule.writes) and rule.exits and \
                        not any(st[0] == "none" and st[1] is None for st in rule.exits):
                    guarded_writers[f.name] = i
                    changed = True
                    break
    if "mjCopyError" not in guarded_writers:
        raise AnalysisError("mjCopyError is not (any more) a self-guarding message writer: its writes are not dominated "
                            "by a test of the destination")
    res.extra["message_writers"] = sorted(guarded_writers)
    delegates = set(scope)
    notes = []
    for name, f in sorted(scope.items()):
        rule = _ErrMsg(err_param(f), delegates - {name}, guarded_writers, ptr_ret(f))
        unit = cir.Unit(model.irs[f.tu])
        cxx3.xexplore(rule, unit, f.node)
        # returns: aggregate per return statement (a statement is fine only if every path reaching it is fine)
        per = {}
        for line, kind, ok, why in rule.returns:
            cur = per.setdefault(line, [kind, True, why])
            if not ok:
                cur[1] = False
                cur[2] = why
            elif cur[1] and why == "message written":
                cur[2] = why
        for i, (line, (kind, ok, why)) in enumerate(sorted(per.items())):
            c = f"{name}:return-{kind}[{i}]"
            if ok:
                res.ok("R-ERRMSG", c, {"line": line, "why": why})
            else:
                res.bad("R-ERRMSG", c, f.file, line, f"{name} {why}")
        wper = {}
        for line, guarded, text in rule.writes:
            cur = wper.setdefault(line, [True, text])
            if not guarded:
                cur[0] = False
        for i, (line, (guarded, text)) in enumerate(sorted(wper.items())):
            c = f"{name}:write[{i}]"
            if guarded:
                res.ok("R-NULLGUARD", c, {"line": line})
            else:
                notes.append({"rule": "R-NULLGUARD", "construct": c, "file": f.file, "line": line,
                              "msg": f"`{text}` writes into `error` without the null test its siblings have; reached "
                                     f"only when the caller passes error==NULL with a positive size — an API-argument "
                                     f"contract outside the property's quantifier (documents), so reported as a note"})
    for n in notes:
        print(f"NOTE property=C37 rule={n['rule']} construct={n['construct']} {n['file']}:{n['line']} {n['msg']}")
    res.extra.setdefault("notes", []).extend(notes)
    res.count("parse_chain_functions", len(scope))


# ---------------------------------------------------------------------------------------------------------------


def attr_bound_rule(res):
    """R-ATTR-BOUND: the attribute reader `ReadAttr(elem, name, len, dest, ..)` copies up to `len` values of the document
    into `dest`.  Where `dest` is storage of fixed extent (a local array, an array member), `len` must be bounded by that
    extent on every path to the call: a constant not larger than it, or an expression the guards of the call bound by it.
    A length taken from the document itself (e.g. the `size` attribute) without such a guard lets a malformed document
    write past the buffer instead of being rejected."""
    from .. import norm, linform as _lf
    res.rule("R-ATTR-BOUND", "ReadAttr lengths are bounded by the extent of fixed-size destinations", floor=40)
    nsites = 0
    for tu in ("src/xml/xml_native_reader.cc", "src/xml/xml_urdf.cc", "src/xml/xml_native_writer.cc"):
        try:
            ir = cfront.load_tu(tu, lang="cxx")
        except AnalysisError:
            if tu.endswith("xml_native_reader.cc"):
                raise
            continue
        for d in ir["decls"]:
            for fn0 in cir.walk(d):
                if fn0.get("k") not in ("CXXMethodDecl", "FunctionDecl") or cir.body(fn0) is None:
                    continue
                if not any(cir.is_call(c) and cir.callee(c) == "ReadAttr" for c in cir.walk(fn0)):
                    continue
                fn = norm.nest(fn0)
                body = cir.body(fn)
                defs = _lf.single_defs(fn)
                for c in cir.walk(body):
                    if not (cir.is_call(c) and cir.callee(c) == "ReadAttr" and len(cir.args(c)) >= 4):
                        continue
                    a = cir.args(c)
                    dst = cir.strip(a[3])
                    t = (dst or {}).get("t") or ""
                    m_ = re.search(r"\[(\d+)\]$", t.strip())
                    if dst is None or not m_ or dst.get("k") not in ("DeclRefExpr", "MemberExpr"):
                        continue           # pointer destinations: extent unknown here (table-driven reads are R-LAYOUT's)
                    cap = int(m_.group(1))
                    nsites += 1
                    lf = _lf.linform(a[2], defs)
                    key = f"{fn0.get('n')}:{cir.text(dst)}:{cir.text(a[1])}"
                    if set(lf) <= {"1"}:
                        n_ = lf.get("1", 0)
                        if n_ <= cap:
                            res.ok("R-ATTR-BOUND", key, None)
                        else:
                            res.bad("R-ATTR-BOUND", key, tu, c.get("line"),
                                    f"ReadAttr may copy {n_} values into `{cir.text(dst)}`, which holds {cap}")
                        continue
                    # variable length: the guards of the call (and, for `c ? a : b` / min(a, K), the condition of the arm) must
                    # bound it by the capacity
                    def bounded_by(expr, gs, depth=0):
                        e = cir.strip(expr)
                        if e is not None and e.get("k") == "DeclRefExpr" and depth < 3:
                            # a local defined once (never reassigned) stands for its initialiser, whatever its form
                            vid = (e.get("ref") or {}).get("id")
                            decl = [x for x in cir.walk(fn) if x.get("k") == "VarDecl" and x.get("id") == vid and x.get("init")]
                            reas = [x for x in cir.walk(fn) if ((x.get("k") == "BinaryOperator" and x.get("op") == "=") or
                                                                 x.get("k") == "CompoundAssignOperator" or
                                                                 (x.get("k") == "UnaryOperator" and x.get("op") in ("++", "--", "&")))
                                    and (cir.strip(cir.kids(x)[0]) or {}).get("k") == "DeclRefExpr"
                                    and (cir.strip(cir.kids(x)[0]).get("ref") or {}).get("id") == vid]
                            if len(decl) == 1 and not reas:
                                init = [c2 for c2 in cir.kids(decl[0]) if c2 is not None][-1]
                                if cir.strip(init).get("k") in ("ConditionalOperator", "CallExpr"):
                                    return bounded_by(init, gs, depth + 1)
                        if e is not None and e.get("k") == "ConditionalOperator":
                            c0, a0, b0 = cir.kids(e)
                            return bounded_by(a0, gs + norm.split_cond(c0, True), depth) and bounded_by(b0, gs + norm.split_cond(c0, False), depth)
                        if e is not None and cir.is_call(e) and (cir.callee(e) or "").split("::")[-1] in ("min", "mjMIN", "mju_min"):
                            return any(bounded_by(x_, gs, depth) for x_ in cir.args(e))
                        lf_ = _lf.linform(e, defs)
                        if set(lf_) <= {"1"}:
                            return lf_.get("1", 0) <= cap
                        for g_, pol in gs:
                            rel = _lf.relation(g_, pol, defs)
                            if not rel:
                                continue
                            f_, strict = rel
                            # f_ >= 0 (or > 0) with f_ = K - len : len <= K (- 1 if strict)
                            diff = _lf._add(f_, lf_, 1)
                            if set(diff) <= {"1"} and diff.get("1", 0) - (1 if strict else 0) <= cap:
                                return True
                        return False
                    bounded = bounded_by(a[2], list(norm.guards(body, c) or ()))
                    if bounded:
                        res.ok("R-ATTR-BOUND", key, {"bounded_by_guard": True})
                    else:
                        res.bad("R-ATTR-BOUND", key, tu, c.get("line"),
                                f"ReadAttr copies up to `{cir.text(a[2])}` values into `{cir.text(dst)}` ({t}), and nothing on the way to "
                                f"the call bounds that length by {cap}: a document with a larger value overruns the buffer before any "
                                f"size check can reject it")
    if nsites == 0:
        raise AnalysisError("no ReadAttr call with a fixed-extent destination found")


def format_rule(res):
    """R-FORMAT: mjXError's second constructor argument is a printf format (it is expanded with sprintf).  It must be a string
    literal: a message assembled at run time — in particular one that quotes text of the document — has to be passed as an
    argument of "%s", otherwise conversion specifications inside it are interpreted (a class name `%n%n` crashes the loader
    instead of being rejected)."""
    res.rule("R-FORMAT", "the format argument of every mjXError construction is a string literal", floor=100)
    n = 0
    for tu in ("src/xml/xml_native_reader.cc", "src/xml/xml_urdf.cc", "src/xml/xml_util.cc", "src/xml/xml_base.cc", "src/xml/xml_api.cc",
               "src/xml/xml.cc", "src/xml/xml_native_writer.cc"):
        try:
            ir = cfront.load_tu(tu, lang="cxx")
        except AnalysisError:
            if tu.endswith("xml_native_reader.cc"):
                raise
            continue
        for d in ir["decls"]:
            for fn in cir.walk(d):
                if fn.get("k") not in ("CXXMethodDecl", "FunctionDecl", "CXXConstructorDecl") or cir.body(fn) is None:
                    continue
                if (fn.get("file") or tu) != tu:
                    continue
                for c in cir.walk(cir.body(fn)):
                    if c.get("k") in ("CXXConstructExpr", "CXXTemporaryObjectExpr") and re.search(r"\bmjXError\b", c.get("t") or ""):
                        a = [x for x in cir.kids(c) if x is not None]
                        if len(a) < 2:
                            continue
                        m_ = cir.strip(a[1])
                        if m_ is None or m_.get("k") in ("CXXDefaultArgExpr",):
                            continue
                        n += 1
                        key = f"{fn.get('n')}:{cir.text(m_)[:40]}"
                        if m_.get("k") == "StringLiteral" or cir.text(m_) in ("NULL", "0", "nullptr"):
                            res.ok("R-FORMAT", key, None)
                            # argument agreement: the constructor expands the format with (str, pos) in that order; a `%s`
                            # whose string argument is left at its default (NULL) is undefined behaviour in sprintf
                            if m_.get("k") == "StringLiteral":
                                fmt_ = str(m_.get("v") or cir.text(m_))
                                convs = re.findall(r"%[-+ #0]*\d*(?:\.\d+)?(?:hh|h|ll|l|z|j|t)?([a-zA-Z%])", fmt_)
                                convs = [c_ for c_ in convs if c_ != "%"]
                                third = cir.strip(a[2]) if len(a) > 2 else None
                                has_str = third is not None and third.get("k") != "CXXDefaultArgExpr" and \
                                    cir.text(third) not in ("NULL", "0", "nullptr")
                                if convs[:1] == ["s"] and not has_str:
                                    res.bad("R-FORMAT", key + ":args", tu, c.get("line"),
                                            f"{fn.get('n')}: the format {cir.text(m_)[:60]} has a %s conversion but no string argument is "
                                            f"passed (the default is NULL): sprintf(\"%s\", NULL) is undefined behaviour and the message "
                                            f"loses the offending text")
                                elif convs[:1] == ["s"]:
                                    res.ok("R-FORMAT", key + ":args", None)
                        else:
                            res.bad("R-FORMAT", key, tu, c.get("line"),
                                    f"{fn.get('n')} passes the run-time string `{cir.text(m_)[:70]}` as mjXError's printf format: any `%` in "
                                    f"it (e.g. a name taken from the document) is interpreted as a conversion; pass it as the argument of \"%s\"")
    if n < 100:
        raise AnalysisError(f"only {n} mjXError constructions found")


def input_bound_rule(res, model):
    """R-INPUT-BOUND / R-INPUT-BOUND-CALL (see sa/r_inbound.py): on the pinned tree six stores (MapValues keyword list,
    composite curve, cube-file slots, the numeric reader's callback, two input-sized copies) and the call sites of the two
    pointer / callback destinations."""
    r_inbound.run_rule(res, model.index.fns, [model.irs[t] for t in model.tus] + [model.probe], floor=6, floor_sites=4)


def run(res, tier):
    model = Model(cfront.REPO)
    res.count("tus", len(model.tus))
    layout_rule(res, model)
    mustpass_rule(res, model)
    catch_rule(res, model)
    errmsg_rule(res, model)
    attr_bound_rule(res)
    format_rule(res)
    input_bound_rule(res, model)
    res.explanation = (
        "Static analysis of the XML loading path from clang's typed AST of all src/xml and src/user translation units "
        "and from the generated attribute tables parsed as data. R-LAYOUT: every generated mjXAttr row is checked "
        "against the clang record layout of the struct named in its offsetof, using as the written type the cast the "
        "reader applies for that row kind (derived from mjXReader::ReadAttrTableCore, not hard-coded), and every call "
        "site binds the table to an object of that struct with that table's row count. R-MUSTPASS: all-paths "
        "exploration of the canonical view of mjXReader::Parse (lambdas, TU helpers and members called on this "
        "expanded in place; throw ends a path; every written element-parser call must have been walked). R-CATCH: interprocedural exception-type flow (throw "
        "sites, try/catch filtering, rethrow, exception_ptr, virtual dispatch through the class table) to the "
        "extern \"C\" boundary. R-ERRMSG: all-paths rule over the parse chain with null-correlated predicates. "
        "R-INPUT-BOUND: pattern census of input-controlled store loops and input-sized copies in src/xml; forward "
        "data-flow of linear relations / set-membership / table-membership facts over each function; every such store "
        "needs a size guard or the uniqueness argument, and the callers' buffers are compared with the bound "
        "(census in coverage: input_bound_census).")
    res.not_decided = (
        "crash freedom of tinyxml2 and of the model compiler on arbitrary bytes; the accept/reject decisions of the "
        "schema automaton; standard-library exceptions that depend on index preconditions (.at/.substr) or allocation "
        "failure; fatal mju_error calls outside the compiler's setjmp window; value-dependent infeasibility of a "
        "throw (R-CATCH is a may-analysis over types). R-INPUT-BOUND: negative indices; stores whose index is not "
        "a counter carried by an input-controlled loop (plain counted loops over a parameter); pointer-destination call "
        "sites of input-sized bulk copies (left to R-ATTR-BOUND / R-LAYOUT); loops in src/user reached from the reader.")
    res.assumptions = [
        "callbacks reached through function pointers (plugins, resource providers, decoders) do not throw",
        "tinyxml2 and libc do not throw",
        "messages built by mjXError (always prefixed 'XML Error') and returned by mjs_getError after a failed compile "
        "are non-empty",
        "a template body is analysed through its instantiations in the analysed translation units",
    ]


# ---------------------------------------------------------------------------------------------------------------
# self-test (thorough tier): anchored edits on scratch copies

_XML = "src/xml/xml.cc"
_RD = "src/xml/xml_native_reader.cc"
_CATCH = ("  // catch known errors\n  catch (mjXError err) {\n    mjCopyError(error, err.message, nerror);\n"
          "    mj_deleteSpec(spec);\n    return nullptr;\n  }\n")

# (the second handler came with the repair of the mjCError leak; a `try` without handlers does not parse, so the mutant
# that removes the try block has to remove both)
_CATCH2 = ("  // errors raised by the spec while elements are added (e.g. body tree depth limit)\n"
           "  catch (mjCError err) {\n    mjCopyError(error, err.message, nerror);\n    mj_deleteSpec(spec);\n"
           "    return nullptr;\n  }\n")

MUTANTS = [
    # ---- must fire (group A: independent constructs, one scratch copy)
    {"id": "row-len-too-long", "group": "A", "expect": ("R-LAYOUT", "kCompilerAttrs[eulerseq]"),
     "edits": [(READ_TABLE, '{"eulerseq", mjXAttr::kChars, 3,', '{"eulerseq", mjXAttr::kChars, 4,')]},
    {"id": "row-kind-float-for-double", "group": "A", "expect": ("R-LAYOUT", "kCompilerAttrs[boundmass]"),
     "edits": [(READ_TABLE, '{"boundmass", mjXAttr::kDouble, 1,', '{"boundmass", mjXAttr::kFloat, 1,')]},
    {"id": "row-vector-len", "group": "A", "expect": ("R-LAYOUT", "kCompilerAttrs[inertiagrouprange]"),
     "edits": [(READ_TABLE, '{"inertiagrouprange", mjXAttr::kInt, 2,', '{"inertiagrouprange", mjXAttr::kInt, 3,')]},
    {"id": "row-handle-kind", "group": "A", "expect": ("R-LAYOUT", "kCompilerAttrs[meshdir]"),
     "edits": [(READ_TABLE, '{"meshdir", mjXAttr::kString, 1,', '{"meshdir", mjXAttr::kDoubleVec, 1,')]},
    {"id": "try-removed", "group": "A", "expect": ("R-CATCH", ":mjXError"),
     "edits": [(_XML, "  // parse with exceptions\n  try {\n", "  // parse with exceptions\n  {\n"), (_XML, _CATCH, ""),
               (_XML, _CATCH2, "")]},
    {"id": "early-null-return", "group": "A", "expect": ("R-ERRMSG", "ParseXML:return-null"),
     "edits": [(_XML, "  const char* dir;\n  int ndir = 0;",
                "  if (buffer_size == 7) {\n    mju_closeResource(resource);\n    return nullptr;\n  }\n"
                "  const char* dir;\n  int ndir = 0;")]},
    {"id": "parser-before-check", "group": "A", "expect": ("R-MUSTPASS", "mjXReader::Parse->Compiler"),
     "edits": [(_RD, "  // validate\n  XMLElement* bad = 0;", "  Compiler(root, spec);\n  // validate\n  XMLElement* bad = 0;")]},
    {"id": "wrong-row-count", "group": "A", "expect": ("R-LAYOUT-CALL", "OneJoint"),
     "edits": [(_RD, "kJointAttrs, kJointAttrsN", "kJointAttrs, kGeomAttrsN")]},
    {"id": "wrong-object", "group": "A", "expect": ("R-LAYOUT-CALL", "OneSite"),
     "edits": [(_RD, "ReadAttrTable(elem, site, site->element, kSiteAttrs, kSiteAttrsN)",
                "ReadAttrTable(elem, site, site->element, kGeomAttrs, kGeomAttrsN)")]},
    # ---- must fire (group B)
    {"id": "check-inverted", "group": "B", "expect": ("R-MUSTPASS", "mjXReader::Parse"),
     "edits": [(_RD, "if ((bad = schema.Check(root, 0))) {", "if (!(bad = schema.Check(root, 0))) {")]},
    {"id": "empty-message", "group": "B", "expect": ("R-ERRMSG", "SpecFromXML:return-null"),
     "edits": [(_XML, 'mjCopyError(error, "XML root element not found", nerror);', 'mjCopyError(error, "", nerror);')]},
    {"id": "mapsz-too-big", "group": "B", "expect": ("R-LAYOUT", "kLengthrangeAttrs[useexisting]"),
     "edits": [(READ_TABLE, "offsetof(mjLROpt, useexisting), bool_map, 2}", "offsetof(mjLROpt, useexisting), bool_map, 3}")]},
    {"id": "handler-narrowed", "group": "B", "expect": ("R-CATCH", ":mjXError"),
     "edits": [(_XML, "  catch (mjXError err) {\n    mjCopyError(error, err.message, nerror);\n    mj_deleteSpec(spec);",
                "  catch (std::string err) {\n    mjCopyError(error, err.c_str(), nerror);\n    mj_deleteSpec(spec);")]},
    {"id": "offset-missing", "group": "B", "expect": ("R-LAYOUT", "kCompilerAttrs[usethread]"),
     "edits": [(READ_TABLE, "(int)offsetof(mjsCompiler, usethread)", "-1")]},
    # ---- controls (group C): behaviour-preserving edits, the result must be identical
    {"id": "rename-local-parse", "group": "C", "expect": None,
     "edits": [(_RD, "XMLElement* bad = 0;\n  if ((bad = schema.Check(root, 0))) {\n    throw mjXError(bad,",
                "XMLElement* offending = 0;\n  if ((offending = schema.Check(root, 0))) {\n    throw mjXError(offending,")]},
    {"id": "rename-local-parsexml", "group": "C", "expect": None,
     "edits": [(_XML, "rerror", "resource_error", 10)]},
    {"id": "reorder-handler-statements", "group": "C", "expect": None,
     "edits": [(_XML, "    mjCopyError(error, err.message, nerror);\n    mj_deleteSpec(spec);\n    return nullptr;",
                "    mj_deleteSpec(spec);\n    mjCopyError(error, err.message, nerror);\n    return nullptr;")]},
    {"id": "reformat-table", "group": "C", "expect": None,
     "edits": [(READ_TABLE, '  {"autolimits", mjXAttr::kBool, 1, true, false, false, false, (int)offsetof(mjsCompiler, autolimits)},',
                '  { "autolimits",\n      mjXAttr::kBool ,1,true,false,false,false,   /* bound field */\n'
                '      (int) offsetof( mjsCompiler , autolimits ) },'),
               (READ_TABLE, "// clang-format off\n", "// clang-format off\n\n\n")]},
    {"id": "extract-message-helper", "group": "C", "expect": None,
     "edits": [(_XML, "// Main parser function\n",
                "static void Fail(char* error, int nerror, const char* msg) {\n  mjCopyError(error, msg, nerror);\n}\n\n"
                "// Main parser function\n"),
               (_XML, 'mjCopyError(error, "XML root element not found", nerror);',
                'Fail(error, nerror, "XML root element not found");')]},
]

# ---- shapes of behaviour-preserving refactorings (controls, added to groups C / D) and the same shapes hiding a defect
# (group A)
_LOOP = ('  for (XMLElement* section = FirstChildElement(root, "%s"); section;\n'
         '       section = NextSiblingElement(section, "%s")) {\n    %s\n  }\n')
_EACH = ("  auto for_each_section = [root](const char* name, auto&& handler) {\n"
         "    XMLElement* section = FirstChildElement(root, name);\n    while (section) {\n      handler(section);\n"
         "      section = NextSiblingElement(section, name);\n    }\n  };\n")
MUTANTS += [
    {"id": "check-in-if-declaration", "group": "D", "expect": None,
     "edits": [(_RD, "  XMLElement* bad = 0;\n  if ((bad = schema.Check(root, 0))) {",
                "  if (XMLElement* bad = schema.Check(root, 0)) {")]},
    {"id": "sections-through-generic-lambda", "group": "C", "expect": None,
     "edits": [(_RD, _LOOP % ("compiler", "compiler", "Compiler(section, spec);"),
                _EACH + '  for_each_section("compiler", [&](XMLElement* section) { Compiler(section, spec); });\n'),
               (_RD, _LOOP % ("visual", "visual", "Visual(section);"),
                '  for_each_section("visual", [&](XMLElement* section) { Visual(section); });\n'),
               (_RD, _LOOP % ("keyframe", "keyframe", "Keyframe(section);"),
                '  for_each_section("keyframe", [&](XMLElement* section) {\n    if (!section) {\n      return;\n    }\n'
                '    Keyframe(section);\n  });\n')]},
    {"id": "section-parser-through-named-lambda", "group": "C", "expect": None,
     "edits": [(_RD, _LOOP % ("size", "size", "Size(section, spec);"),
                "  auto parse_size = [&](XMLElement* elem) { Size(elem, spec); };\n"
                + _LOOP % ("size", "size", "parse_size(section);"))]},
    {"id": "section-through-template-helper", "group": "C", "expect": None,
     "edits": [(_RD, "void mjXReader::Parse(XMLElement* root, const mjVFS* vfs) {",
                "template <class F>\nstatic void ForEachSection(XMLElement* root, const char* name, F&& f) {\n"
                "  XMLElement* section = FirstChildElement(root, name);\n  while (section) {\n    f(section);\n"
                "    section = NextSiblingElement(section, name);\n  }\n}\n\n"
                "void mjXReader::Parse(XMLElement* root, const mjVFS* vfs) {"),
               (_RD, _LOOP % ("tendon", "tendon", "Tendon(section);"),
                '  ForEachSection(root, "tendon", [&](XMLElement* section) { Tendon(section); });\n')]},
    {"id": "parser-in-lambda-before-check", "group": "A", "expect": ("R-MUSTPASS", "mjXReader::Parse->Size"),
     "edits": [(_RD, "  // validate\n  XMLElement* bad = 0;",
                "  auto early = [&](XMLElement* elem) { Size(elem, spec); };\n  early(root);\n"
                "  // validate\n  XMLElement* bad = 0;")]},
    {"id": "section-lambda-before-check", "group": "A", "expect": ("R-MUSTPASS", "mjXReader::Parse->Statistic"),
     "edits": [(_RD, "  // validate\n  XMLElement* bad = 0;",
                "  auto each_early = [root](const char* name, auto&& handler) {\n"
                "    for (XMLElement* e = FirstChildElement(root, name); e; e = NextSiblingElement(e, name)) {\n"
                "      handler(e);\n    }\n  };\n"
                '  each_early("statistic", [&](XMLElement* e) { Statistic(e); });\n'
                "  // validate\n  XMLElement* bad = 0;")]},
]

# the proposed repair of the reported leak: with it, exactly the two R-CATCH reports disappear
MUTANTS.append({
    "id": "fix-catch-mjCError", "group": "D", "expect": None, "fixes": [("R-CATCH", ":mjCError")],
    "edits": [(_XML, "    return nullptr;\n  }\n\n  return spec;\n}",
               "    return nullptr;\n  }\n\n  // errors raised by the spec/compiler layer while the document is built\n"
               "  catch (mjCError err) {\n    mjCopyError(error, err.message, nerror);\n    mj_deleteSpec(spec);\n"
               "    return nullptr;\n  }\n\n  return spec;\n}")]})

# ---- R-INPUT-BOUND: the stored seed (duplicate rejection dropped), the other legs of the uniqueness argument, guards
# weakened by one, and behaviour-preserving reshapes of the same code.  Copies of the keyword-list reader under other names
# share a scratch tree with the edits of the real one: the rule finds them by pattern, not by name.
_UT = "src/xml/xml_util.cc"
_DUP = ("    if (found_keys.count(key)) {\n      throw mjXError(elem, \"duplicate keyword: '%s'\", key.c_str());\n      return 0;\n    }\n\n")
_REJ = ("    if (value == -1) {\n      throw mjXError(elem, \"invalid keyword: '%s'\", key.c_str());\n      return 0;\n    }\n\n")
_INS = "    found_keys.insert(key);\n"
_ANCHOR = "//---------------------------------- write functions -----------------------------------------------\n"


def _clone(name, body, caller=False):
    """A free-standing copy of the keyword-list reader (pattern-found, not name-found), optionally with a caller."""
    txt = ("static int %s(XMLElement* elem, const std::string& text, int* data, const mjMap* map, int mapSz) {\n"
           "  std::istringstream strm(text);\n  std::string key;\n  std::set<std::string> found_keys;\n  int count = 0;\n"
           "%s  return count;\n}\n\n") % (name, body)
    if caller:
        txt += ("int %sUser(XMLElement* elem, const std::string& text) {\n"
                "  static const mjMap tbl[2] = {{\"a\", 0}, {\"b\", 1}};\n  int bits[2];\n"
                "  return %s(elem, text, bits, tbl, 2);\n}\n\n") % (name, name)
    return (_UT, _ANCHOR, txt + _ANCHOR)


_LOOP_HEAD = "  while (strm >> key) {\n"
_LOOKUP = "    int value = mjXUtil::FindKey(map, mapSz, key);\n"
_REJ2 = "    if (value == -1) {\n      throw mjXError(elem, \"invalid keyword\");\n    }\n"
_DUP2 = "    if (found_keys.count(key)) {\n      throw mjXError(elem, \"duplicate keyword\");\n    }\n"

MUTANTS += [
    # ---- must fire
    {"id": "mapvalues-duplicate-test-dropped", "group": "A", "expect": ("R-INPUT-BOUND", "mjXUtil::MapValues:data:input-bounded-store"),
     "edits": [(_UT, _DUP, ""), (_UT, _INS, "")]},
    {"id": "keylist-insert-dropped", "group": "A", "expect": ("R-INPUT-BOUND", "KeyListNoInsert:data:input-bounded-store"),
     "edits": [_clone("KeyListNoInsert", _LOOP_HEAD + _DUP2 + _LOOKUP + _REJ2 + "    data[count++] = value;\n  }\n")]},
    {"id": "keylist-guard-off-by-one", "group": "A", "expect": ("R-INPUT-BOUND-CALL", "KeyListWeakGuardUser->KeyListWeakGuard:data:extent"),
     "edits": [_clone("KeyListWeakGuard", _LOOP_HEAD + _LOOKUP + _REJ2 +
                      "    if (count > mapSz) {\n      throw mjXError(elem, \"too many keywords\");\n    }\n"
                      "    data[count++] = value;\n  }\n", caller=True)]},
    {"id": "mapvalues-unknown-keyword-accepted", "group": "B", "expect": ("R-INPUT-BOUND", "mjXUtil::MapValues:data:input-bounded-store"),
     "edits": [(_UT, _REJ, "")]},
    # ---- controls
    {"id": "mapvalues-insert-second", "group": "C", "expect": None,
     "edits": [(_UT, _DUP, ""), (_UT, _INS, ""),
               (_UT, "    int value = FindKey(map, mapSz, key);\n    if (value == -1) {",
                "    if (!found_keys.insert(key).second) {\n      throw mjXError(elem, \"duplicate keyword: '%s'\", key.c_str());\n    }\n\n"
                "    int value = FindKey(map, mapSz, key);\n    if (value == -1) {")]},
    {"id": "keylist-presplit-tokens", "group": "C", "expect": None,
     "edits": [_clone("KeyListPresplit",
                      "  std::vector<std::string> tokens;\n  while (strm >> key) {\n    tokens.push_back(key);\n  }\n"
                      "  for (const std::string& tok : tokens) {\n"
                      "    if (found_keys.find(tok) != found_keys.end()) {\n      throw mjXError(elem, \"duplicate keyword\");\n    }\n"
                      "    const int value = mjXUtil::FindKey(map, mapSz, tok);\n"
                      "    if (value < 0) {\n      throw mjXError(elem, \"invalid keyword\");\n    }\n"
                      "    found_keys.insert(tok);\n    data[count] = value;\n    count++;\n  }\n", caller=True)]},
    {"id": "mapvalues-explicit-guard", "group": "D", "expect": None,
     "edits": [(_UT, _DUP, "    if (count >= mapSz) {\n      throw mjXError(elem, \"too many keywords\");\n    }\n\n"),
               (_UT, _INS, "")]},
]

MUTANTS += [
    {"id": "curve-guard-off-by-one", "group": "A", "expect": ("R-INPUT-BOUND", "mjXReader::OneComposite:comp.curve:input-bounded-store"),
     "edits": [(_RD, "    if (i > 2) {\n      throw mjXError(elem, \"The curve array must have", "    if (i > 3) {\n      throw mjXError(elem, \"The curve array must have")]},
    {"id": "readattr-too-much-data-unchecked", "group": "A", "expect": ("R-INPUT-BOUND", "mjXUtil::ReadAttr:data:input-bounded-copy"),
     "edits": [(_UT, "  if (maybe_vec->size() > len) {\n    throw mjXError(elem, \"attribute '%s' has too much data\", attr);\n  }\n", "")]},
    {"id": "readattrvalues-bound-inclusive", "group": "B", "expect": ("R-INPUT-BOUND-CALL", "mjXUtil::ReadAttrArr->ReadAttrValues:push():extent"),
     "edits": [(_UT, "(max < 0 || i < max) && !strm.eof()", "(max < 0 || i <= max) && !strm.eof()")]},
    {"id": "keylist-set-cleared", "group": "B", "expect": ("R-INPUT-BOUND", "KeyListCleared:data:input-bounded-store"),
     "edits": [_clone("KeyListCleared", _LOOP_HEAD + _DUP2 + _LOOKUP + _REJ2 +
                      "    if (found_keys.size() > 1) {\n      found_keys.clear();\n    }\n"
                      "    found_keys.insert(key);\n    data[count++] = value;\n  }\n")]},
    {"id": "keylist-token-changed-after-test", "group": "B", "expect": ("R-INPUT-BOUND", "KeyListRetoken:data:input-bounded-store"),
     "edits": [_clone("KeyListRetoken", _LOOP_HEAD + _DUP2 + "    strm >> key;\n" + _LOOKUP + _REJ2 +
                      "    found_keys.insert(key);\n    data[count++] = value;\n  }\n")]},
]


def selftest(res):
    cxx3.run_mutants("C37", res, MUTANTS)
