"""C19 Internal stack and arena allocation is memory-safe.

Decides: (R-FRAME) on every path of every engine function mj_markStack/mj_freeStack are
balanced, frees never run without an open frame, stack allocations happen inside an open
frame or in an inferred caller-frame helper all of whose call sites are inside a frame;
(R-NULLABLE) every arena result is null-tested before use; (R-THREADLOCK) the shape of
engine_memory.c: under d->threadlock the stack pointer is advanced only through the atomic
add and mark/free are no-ops; the non-threadlock path updates pstack only from the local
mjStackInfo; both overflow tests end the path in mju_error before any pointer is formed.
Does not decide: the alignment/overlap arithmetic of returned blocks.
"""
from __future__ import annotations

from .. import cir, engine, paths, r_frame
from ..cfront import AnalysisError
from . import c20

FLOOR_FRAME_FUNCS = 80    # 89 functions open a frame on the pinned tree
FLOOR_SITES = 190         # 219 mark/free sites


def frame_pass(res, tus):
    out = engine.map_tus("sa.r_frame", "analyse_unit", tus)
    res.rule("R-FRAME", "mark/free balanced on all paths; no free without frame; allocations inside a frame "
             "or in a caller-frame helper whose every call site is inside a frame", floor=FLOOR_FRAME_FUNCS)
    res.rule("R-FRAME-HELPER", "every call site of an inferred caller-frame helper is inside an open frame (or in "
             "another helper)", floor=4)
    funcs = {}
    for tu, fs in out.items():
        for name, s in fs.items():
            key = (tu if s["static"] else None, name) if s["file"] == tu else ("hdr", name)
            funcs[(tu, name)] = s
    # helpers: allocate at depth 0 and never mark
    helpers = set()
    for (tu, name), s in funcs.items():
        if s["alloc0"] and not s["marks"]:
            helpers.add((tu if s["static"] else None, name))
    # fixpoint: a function that calls a helper at depth 0 and never marks is a helper itself

    def is_helper(tu, callee):
        return (tu, callee) in helpers or (None, callee) in helpers
    changed = True
    while changed:
        changed = False
        for (tu, name), s in funcs.items():
            hk = (tu if s["static"] else None, name)
            if hk in helpers or s["marks"]:
                continue
            if any(is_helper(tu, c) for c, _ in s["calls0"]):
                helpers.add(hk)
                changed = True
    nsites = 0
    for (tu, name), s in sorted(funcs.items()):
        nsites += len(s["marks"]) + len(s["frees"])
        if s["marks"] or s["frees"] or s["alloc0"] or s["alloc_ok"]:
            res.count("functions_with_frame_ops")
            bad = list(s["reports"])
            if s["marks"] and s["alloc0"]:
                for line, prim in s["alloc0"]:
                    bad.append({"file": s["file"], "line": line, "kind": "F3",
                                "msg": f"{prim} reached with no open frame on some path in a function that opens frames"})
            if bad:
                for b in bad:
                    res.bad("R-FRAME", f"{name}:{b.get('kind')}", b["file"], b["line"], b["msg"])
            else:
                res.ok("R-FRAME", name, {"file": s["file"], "line": s["line"], "marks": len(s["marks"]),
                                         "frees": len(s["frees"]), "allocs": len(s["alloc_ok"]) + len(s["alloc0"])})
        # helper call sites
        for callee, line in s["calls0"]:
            if is_helper(tu, callee):
                hk = (tu if s["static"] else None, name)
                if hk in helpers:
                    res.ok("R-FRAME-HELPER", f"{name}->{callee}", None)
                else:
                    res.bad("R-FRAME-HELPER", f"{name}->{callee}", s["file"], line,
                            f"caller-frame helper {callee}() allocates on the caller's stack frame but is called with no "
                            f"open frame")
        for callee, line in s["calls_in"]:
            if is_helper(tu, callee):
                res.ok("R-FRAME-HELPER", f"{name}->{callee}", {"file": s["file"], "line": line})
    res.count("mark_free_sites", nsites)
    if nsites < FLOOR_SITES:
        raise AnalysisError(f"only {nsites} mark/free sites found (floor {FLOOR_SITES})")
    res.extra["caller_frame_helpers"] = sorted(n for _, n in helpers)
    # exported helpers would leak the obligation to users: the public header must not declare them
    return funcs, helpers


def _find_calls_under(node, name):
    return [c for c in cir.calls(node, name)]


def _effects(fn):
    """(node, description) for every statement-level effect on non-local state: stores through pointers / to members of
    pointed-to objects / to globals, atomic operations and calls (calls left after inlining the static helpers)."""
    local_ids = {x.get("id") for x in cir.walk(fn) if x.get("k") == "VarDecl"}
    out = []
    for n in cir.walk(fn):
        k = n.get("k")
        if cir.is_call(n):
            out.append((n, f"call {cir.callee(n) or cir.text(n)[:30]}"))
        elif k == "AtomicExpr":
            out.append((n, "atomic " + cir.text(cir.kids(n)[0])))
        elif (k == "BinaryOperator" and n.get("op") == "=") or k == "CompoundAssignOperator" or \
                (k == "UnaryOperator" and n.get("op") in ("++", "--")):
            lhs = cir.strip(cir.kids(n)[0])
            x = lhs
            through_ptr = False
            while x is not None and x.get("k") in ("MemberExpr", "ArraySubscriptExpr", "UnaryOperator"):
                if (x.get("k") == "MemberExpr" and x.get("arrow")) or x.get("k") == "ArraySubscriptExpr" or \
                        (x.get("k") == "UnaryOperator" and x.get("op") == "*"):
                    b_ = cir.strip(cir.kids(x)[0])
                    if not (x.get("k") == "ArraySubscriptExpr" and "[" in ((b_ or {}).get("t") or "")):
                        through_ptr = True
                x = cir.strip(cir.kids(x)[0])
            is_local = x is not None and x.get("k") == "DeclRefExpr" and (x.get("ref") or {}).get("id") in local_ids
            if through_ptr or not is_local:
                out.append((n, "store " + cir.text(lhs)))
    return out


def _tl_guard(gs):
    """truth value of d->threadlock among the guards of a node, or None"""
    for c, pol in gs or ():
        if c.get("k") == "MemberExpr" and c.get("n") == "threadlock":
            return pol
    return None


def threadlock_shape(res):
    """Structural obligations inside engine_memory.c, decided on the canonical view of each primitive (static helpers
    inlined, early returns and error exits turned into nested if/else, so that the chain of enclosing conditions of a
    statement is its guard)."""
    from .. import linform as _lf, norm
    res.rule("R-THREADLOCK", "stack primitives: threadlock branch reserves only via the atomic add; mark/free are "
             "no-ops under threadlock; pstack otherwise written only from the local mjStackInfo; overflow tests end "
             "in mju_error", floor=6)
    u = engine.unit("src/engine/engine_memory.c")
    need = ["mj_markStack", "mj_freeStack", "mj_arenaAllocByte"]
    for f in need:
        if f not in u.funcs:
            raise AnalysisError(f"anchor function {f} not found in engine_memory.c")
    file = "src/engine/engine_memory.c"

    # 1. mark/free: nothing happens while d->threadlock is set (frames are owned by mju_dispatch): every effect on
    #    non-local state is guarded by !d->threadlock
    for f in ("mj_markStack", "mj_freeStack"):
        fn = norm.canon(u, f)
        body = cir.body(fn)
        effs = _effects(body)
        unguarded = [(n, what) for n, what in effs if _tl_guard(norm.guards(body, n)) is not False]
        if not effs:
            raise AnalysisError(f"{f}: no effects found")
        if not unguarded:
            res.ok("R-THREADLOCK", f"{f}:noop-under-threadlock", {"file": file, "effects_guarded": len(effs),
                                                                "inlined": fn.get("inlined")})
        else:
            n, what = unguarded[0]
            res.bad("R-THREADLOCK", f"{f}:noop-under-threadlock", file, n.get("line") or u.funcs[f].get("line"),
                    f"{f} does not return immediately when d->threadlock is set (frames are owned by mju_dispatch): "
                    f"`{what}` is not guarded by !d->threadlock")
    # 2. the allocation primitive: the function that contains the atomic add on &d->pstack (found by role, not by name)
    # = the smallest function whose canonical view contains the atomic operation under a d->threadlock guard
    cands = []
    for name in u.funcs:
        cf_ = norm.canon(u, name)
        at = [x for x in cir.walk(cf_) if x.get("k") == "AtomicExpr"]
        if at and all(_tl_guard(norm.guards(cir.body(cf_), x)) is True for x in at):
            cands.append((sum(1 for _ in cir.walk(cf_)), name))
    tops = [n for _sz, n in sorted(cands)[:1]]
    if len(tops) != 1:
        raise AnalysisError(f"allocation primitive with the atomic reservation not identified: {cands}")
    aname = tops[0]
    fn = norm.canon(u, aname)
    body = cir.body(fn)
    G = lambda n: norm.guards(body, n)
    atomic_nodes = [x for x in cir.walk(body) if x.get("k") == "AtomicExpr"]
    atomic_calls = [x for x in atomic_nodes if (cir.atomic_info(x, file) or (None,))[0] in ("fetch_add", "add_fetch")]
    writes = []
    for n in cir.walk(body):
        if (n.get("k") == "BinaryOperator" and n.get("op") == "=") or n.get("k") == "CompoundAssignOperator" or \
                (n.get("k") == "UnaryOperator" and n.get("op") in ("++", "--")):
            t = cir.strip(cir.kids(n)[0])
            if t is not None and t.get("k") == "MemberExpr" and t.get("n") == "pstack" and t.get("arrow"):
                writes.append(n)
    plain_writes_in = [n for n in writes if _tl_guard(G(n)) is not False]
    plain_writes_out = [n for n in writes if _tl_guard(G(n)) is False]
    anchor_line = (atomic_nodes[0].get("line") if atomic_nodes else fn.get("line"))
    okk = len(atomic_calls) == 1 and len(atomic_nodes) == 1 and \
        "&d->pstack" == cir.atomic_info(atomic_calls[0], file)[2] and not plain_writes_in and \
        _tl_guard(G(atomic_calls[0])) is True
    if okk:
        res.ok("R-THREADLOCK", "stackalloc:atomic-reservation", {"file": file, "line": atomic_calls[0].get("line"),
                                                                  "atomic": list(cir.atomic_info(atomic_calls[0], file)),
                                                                  "function": aname, "inlined": fn.get("inlined")})
    else:
        res.bad("R-THREADLOCK", "stackalloc:atomic-reservation", file, anchor_line,
                "under d->threadlock the shared stack pointer must be advanced only by one atomic add on &d->pstack "
                f"(atomic calls: {len(atomic_calls)}, plain writes in branch: {len(plain_writes_in)})")
    # the block must be derived from the value RETURNED by the atomic add (this thread's own reservation): the result is bound
    # to a local, and under threadlock there is no other read of the shared stack pointer (directly or through a function that
    # reads it)
    bound = [x for x in cir.walk(body) if (x.get("k") == "VarDecl" and x.get("init") and
                                           any(y.get("k") == "AtomicExpr" for y in cir.walk(x))) or
             (x.get("k") == "BinaryOperator" and x.get("op") == "=" and cir.strip(cir.kids(x)[0]).get("k") == "DeclRefExpr"
              and any(y.get("k") == "AtomicExpr" for y in cir.walk(cir.kids(x)[1])))]
    other_reads = []
    readers_of_pstack = {name for name, f_ in u.funcs.items()
                         if any(y.get("k") == "MemberExpr" and y.get("n") == "pstack" for y in cir.walk(f_))}
    in_atomic = set()
    for a_ in atomic_nodes:
        in_atomic |= {id(z) for z in cir.walk(a_)}
    for x in cir.walk(body):
        if x.get("k") == "MemberExpr" and x.get("n") == "pstack" and id(x) not in in_atomic:
            if _tl_guard(G(x)) is not False:
                other_reads.append(x.get("line"))
        if cir.is_call(x) and cir.callee(x) in readers_of_pstack and cir.callee(x) != aname and _tl_guard(G(x)) is not False:
            other_reads.append(x.get("line"))
    if len(bound) == 1 and not other_reads:
        res.ok("R-THREADLOCK", "stackalloc:block-from-atomic-result", {"bound_to": bound[0].get("n") or cir.text(cir.kids(bound[0])[0])})
    else:
        res.bad("R-THREADLOCK", "stackalloc:block-from-atomic-result", file, anchor_line,
                "under d->threadlock the block must be computed from the value returned by the atomic add; "
                + ("the result of the atomic add is discarded" if len(bound) != 1 else "")
                + (f" d->pstack is read again (line {other_reads[0]}): another thread's reservation can land in between and both "
                   f"threads derive the same block" if other_reads else ""))
    # every path of the function is decided by d->threadlock before it touches the stack: all effects are guarded by a
    # definite truth value of d->threadlock (the threadlock branch cannot fall into the single-threaded allocation)
    undecided = [(n, w) for n, w in _effects(body) if _tl_guard(G(n)) is None and not w.startswith("call mju_")
                 and not w.startswith("call __")]
    if undecided:
        res.bad("R-THREADLOCK", "stackalloc:threadlock-branch-returns", file, undecided[0][0].get("line"),
                "the threadlock branch can fall through into the single-threaded allocation path: "
                f"`{undecided[0][1]}` runs for either value of d->threadlock")
    else:
        res.ok("R-THREADLOCK", "stackalloc:threadlock-branch-returns", {"file": file})
    # the amount reserved atomically, as a linear form, must dominate size + (alignment - 1) (the block is formed at
    # bottom - old - size and aligned DOWN by up to alignment-1), and the overflow test must test exactly that amount
    defs = _lf.single_defs(fn)
    added_node = cir.kids(atomic_calls[0])[2] if atomic_calls and len(cir.kids(atomic_calls[0])) > 2 else None
    form = _lf.linform(added_node, defs) if added_node is not None else {}
    opaque = [t for t in form if t not in ("size", "alignment", "1")]
    if added_node is not None and form.get("size", 0) >= 1 and form.get("alignment", 0) >= 1 and form.get("1", 0) >= -1 and \
            all(form[t] >= 0 for t in opaque):
        res.ok("R-THREADLOCK", "stackalloc:reservation-covers-alignment", {"reserved": _lf.fmt(form)})
    else:
        res.bad("R-THREADLOCK", "stackalloc:reservation-covers-alignment", file, anchor_line,
                f"the atomically reserved amount `{_lf.fmt(form)}` is not provably >= size + alignment - 1: the block start is "
                f"aligned down inside the reservation, so a smaller reservation lets blocks of different threads overlap")
    # overflow test of the threadlock branch: every return of a block under threadlock is guarded by
    #   (narena - parena) - (old + reserved) >= 0, and the failing side ends in mju_error (made a guard by the canonical view)
    oldv = [(x.get("n") if x.get("k") == "VarDecl" else cir.text(cir.kids(x)[0])) for x in bound]
    want = _lf._add({"d->narena": 1, "d->parena": -1}, _lf._add({oldv[0]: 1} if oldv else {}, form), -1)
    tl_rets = [r for r in cir.walk(body) if r.get("k") == "ReturnStmt" and _tl_guard(G(r)) is True
               and cir.kids(r) and cir.text(cir.kids(r)[0]) not in ("NULL", "0")]
    okg = bool(tl_rets)
    detail = ""
    for r in tl_rets:
        rels = [_lf.relation(c, pol, defs) for c, pol in G(r)]
        rels = [x for x in rels if x]
        if not any(f == want for f, _strict in rels):
            okg = False
            detail = "guards of the returned block: " + "; ".join(_lf.fmt(f) + (" > 0" if st else " >= 0") for f, st in rels)
    if okg:
        res.ok("R-THREADLOCK", "stackalloc:overflow-test-matches-reservation", {"guard": _lf.fmt(want) + " >= 0"})
    else:
        res.bad("R-THREADLOCK", "stackalloc:overflow-test-matches-reservation", file, anchor_line,
                f"the threadlock overflow test does not compare (old pstack + reserved amount) with (narena - parena): {detail}")
    # single-threaded path: d->pstack is written back from the local mjStackInfo whose top was lowered
    okk = bool(plain_writes_out)
    for w in plain_writes_out:
        rhs = cir.kids(w)[1] if len(cir.kids(w)) > 1 else None
        mem = [x for x in cir.walk(rhs) if x.get("k") == "MemberExpr" and x.get("n") == "top" and not x.get("arrow")] if rhs else []
        if not mem or w.get("k") != "BinaryOperator":
            okk = False
    if okk:
        res.ok("R-THREADLOCK", "stackalloc:pstack-from-local-info", {"line": plain_writes_out[0].get("line")})
    else:
        res.bad("R-THREADLOCK", "stackalloc:pstack-from-local-info", file, fn.get("line"),
                "single-threaded path must write d->pstack from the local mjStackInfo (bottom - top)")
    # 3. overflow tests of the single-threaded path: lowering the local top is guarded by (new top - limit) >= 0 whose failing
    #    side ends in mju_error; the same for mj_markStack's frame
    for fname in (aname, "mj_markStack"):
        f2 = norm.canon(u, fname)
        b2 = cir.body(f2)
        d2 = _lf.single_defs(f2)
        lowers = [n for n in cir.walk(b2) if n.get("k") == "BinaryOperator" and n.get("op") == "=" and
                  cir.strip(cir.kids(n)[0]).get("k") == "MemberExpr" and cir.strip(cir.kids(n)[0]).get("n") == "top"
                  and not cir.strip(cir.kids(n)[0]).get("arrow") and "$" not in cir.text(cir.kids(n)[0])]
        key = "stackallocinternal" if fname == aname else fname
        if not lowers:
            raise AnalysisError(f"{fname}: lowering of the local stack top not found")
        bad = None
        for n in lowers:
            base = cir.text(cir.kids(cir.strip(cir.kids(n)[0]))[0])
            want2 = _lf._add(_lf.linform(cir.kids(n)[1], d2), {f"{base}.limit": 1}, -1)
            rels = [x for x in (_lf.relation(c, pol, d2) for c, pol in norm.guards(b2, n)) if x]
            if not any(f == want2 for f, _s in rels):
                bad = (n, "; ".join(_lf.fmt(f) for f, _s in rels))
        if bad is None:
            res.ok("R-THREADLOCK", f"{key}:overflow-test-dominates-result", {"lowerings": len(lowers)})
        else:
            res.bad("R-THREADLOCK", f"{key}:overflow-test-dominates-result", file, bad[0].get("line"),
                    "no overflow test ending in mju_error dominates the returned block pointer: the new stack top is not "
                    f"compared with the arena limit on this path (guards: {bad[1]})")
    # 4. module-wide: in every entry point of the allocator module, plain stores to the shared stack scalars happen only
    #    when d->threadlock is clear (C02 relies on this for every function of this file that pool tasks reach)
    inlined_somewhere = set()
    for name in u.funcs:
        inlined_somewhere |= set(norm.canon(u, name).get("inlined") or ())
    for name in sorted(u.funcs):
        if name in inlined_somewhere and u.funcs[name].get("storageClass") == "static":
            continue
        if (u.funcs[name].get("file") or file) != file:
            continue
        f2 = norm.canon(u, name)
        b2 = cir.body(f2)
        for n in cir.walk(b2):
            if (n.get("k") == "BinaryOperator" and n.get("op") == "=") or n.get("k") == "CompoundAssignOperator" or \
                    (n.get("k") == "UnaryOperator" and n.get("op") in ("++", "--")):
                t = cir.strip(cir.kids(n)[0])
                if t is not None and t.get("k") == "MemberExpr" and t.get("arrow") and t.get("n") in ("pstack", "pbase", "maxuse_stack") \
                        and "mjData" in ((cir.strip(cir.kids(t)[0]) or {}).get("t") or ""):
                    if _tl_guard(norm.guards(b2, n)) is False:
                        res.ok("R-THREADLOCK", f"{name}:store:{t.get('n')}", None)
                    else:
                        res.bad("R-THREADLOCK", f"{name}:plain-store:{t.get('n')}", file, n.get("line"),
                                f"{name} stores d->{t.get('n')} without a !d->threadlock guard: pool tasks share this scalar")
    arena_guard(res, "R-THREADLOCK", u)


def arena_guard(res, rule, u=None):
    """mj_arenaAllocByte: tested amount == consumed amount, against narena - pstack, before the advance."""
    from .. import linform as _lf, norm
    file = "src/engine/engine_memory.c"
    if u is None:
        u = engine.unit(file)
    if "mj_arenaAllocByte" not in u.funcs:
        raise AnalysisError("mj_arenaAllocByte not found")
    # 4. arena: every advance of d->parena is guarded by (narena - pstack) - (parena + advance) >= 0: the amount tested
    #    equals the amount consumed, against the space below the stack
    fn = norm.canon(u, "mj_arenaAllocByte")
    body = cir.body(fn)
    defs = _lf.single_defs(fn)
    advs = []
    for st in cir.walk(body):
        if st.get("k") == "CompoundAssignOperator" and st.get("op") == "+=" and cir.text(cir.kids(st)[0]) == "d->parena":
            advs.append((st, _lf.linform(cir.kids(st)[1], defs)))
        elif st.get("k") == "BinaryOperator" and st.get("op") == "=" and cir.text(cir.kids(st)[0]) == "d->parena":
            advs.append((st, _lf._add(_lf.linform(cir.kids(st)[1], defs), {"d->parena": 1}, -1)))
        elif st.get("k") in ("CompoundAssignOperator", "UnaryOperator") and st.get("op") in ("-=", "++", "--", "*=") and \
                cir.text(cir.kids(st)[0]) == "d->parena":
            advs.append((st, None))
    problems = []
    if len(advs) != 1 or advs[0][1] is None:
        problems.append("size test or single advance of d->parena not found")
    else:
        st, adv = advs[0]
        want = _lf._add({"d->narena": 1, "d->pstack": -1, "d->parena": -1}, adv, -1)
        rels = [x for x in (_lf.relation(c, pol, defs) for c, pol in norm.guards(body, st)) if x]
        if not any(f == want for f, _s in rels):
            got = "; ".join(_lf.fmt(f) + " >= 0" for f, _s in rels) or "none"
            problems.append(f"the advance of d->parena by `{_lf.fmt(adv)}` is not guarded by `{_lf.fmt(want)} >= 0` "
                            f"(narena - pstack against parena + the same amount); guards on that path: {got}")
    if problems:
        res.bad(rule, "mj_arenaAllocByte:size-test-before-advance", file, fn.get("line"), "; ".join(problems))
    else:
        res.ok(rule, "mj_arenaAllocByte:size-test-before-advance", {"advance": _lf.fmt(advs[0][1]), "inlined": fn.get("inlined")})
    # 5. the size test is written in unsigned arithmetic: every subtraction inside it must be non-negative as a consequence
    #    of the allocator invariant  pstack + parena <= narena  (all quantities unsigned), otherwise it wraps to a huge value
    #    and the test accepts exactly when too little room is left.  Entailment: L = c*(narena - pstack - parena) + sum d_i*v_i
    #    with c >= 0 and every d_i >= 0.
    if len(advs) == 1 and advs[0][1] is not None:
        st = advs[0][0]
        wraps = []
        nsub = 0
        for cnd, _pol in norm.guards(body, st):
            rel = _lf.relation(cnd, _pol, defs)
            if not rel:
                continue
            for x in cir.walk(cnd):
                if x.get("k") == "BinaryOperator" and x.get("op") == "-" and \
                        any(w in (x.get("dt") or x.get("t") or "") for w in ("size_t", "unsigned", "uint")):
                    a, b = cir.kids(x)
                    L = _lf._add(_lf.linform(a, defs), _lf.linform(b, defs), -1)
                    if L is None:
                        continue
                    nsub += 1
                    c = L.get("d->narena", 0)
                    rem = _lf._add(L, {"d->narena": 1, "d->pstack": -1, "d->parena": -1}, -c) if c else dict(L)
                    if c < 0 or any(v < 0 for k2, v in (rem or {}).items()):
                        wraps.append(cir.text(x))
        if wraps:
            res.bad(rule, "mj_arenaAllocByte:size-test-no-wrap", file, st.get("line"),
                    f"the unsigned subtraction `{wraps[0]}` in the size test is not non-negative under pstack + parena <= narena: when "
                    f"less room than the subtrahend is left it wraps around and the allocation is granted past the end of the arena")
        else:
            res.ok(rule, "mj_arenaAllocByte:size-test-no-wrap", {"unsigned_subtractions": nsub})


def run(res, tier):
    tus = engine.engine_tus()
    res.count("tus", len(tus))
    frame_pass(res, tus)
    threadlock_shape(res)
    if tier == "thorough":
        # first-party C++ callers of the frame API outside src/engine (plugins); mju_dispatch is decided under C02.
        # The TU list is selected by a text scan, the verdict comes from the AST.
        import os
        from .. import cfront, r_frame as _rf
        extra = []
        for root, dn, fn_ in os.walk(os.path.join(cfront.REPO, "plugin")):
            for f in fn_:
                if f.endswith(".cc"):
                    pth = os.path.join(root, f)
                    try:
                        txt = open(pth, errors="replace").read()
                    except OSError:
                        continue
                    if "mj_markStack" in txt or "mj_stackAlloc" in txt or "mjSTACKALLOC" in txt:
                        extra.append(os.path.relpath(pth, cfront.REPO))
        res.count("cxx_plugin_tus", len(extra))
        for tu in sorted(extra):
            u = engine.unit(tu)
            for name, s_ in sorted(_rf.analyse_unit(u).items()):
                if not (s_["marks"] or s_["frees"] or s_["alloc0"] or s_["alloc_ok"]):
                    continue
                bad = list(s_["reports"]) + [{"file": s_["file"], "line": l, "msg": f"{p_} outside any frame"} for l, p_ in s_["alloc0"]]
                if bad:
                    for b in bad:
                        res.bad("R-FRAME", f"{name}:{b.get('kind', 'F3')}", b["file"], b["line"], b["msg"])
                else:
                    res.ok("R-FRAME", f"{tu}:{name}", {"marks": len(s_["marks"]), "frees": len(s_["frees"])})
    # arena null discipline (shared with C20)
    out, producers, clr, rounds = c20.nullable_pass(res)
    res.rule("R-NULLABLE", "every arena allocation result is null-tested (that value) before use", floor=c20.FLOOR_SITES)
    for tu, fs in sorted(out.items()):
        for name, s in sorted(fs.items()):
            by = {}
            for rp in s["reports"]:
                if rp.get("kind") in ("N1", "N2"):
                    by.setdefault((rp.get("site"), rp.get("text")), []).append(rp)
            for site in s["sites"]:
                bad = by.pop((site["line"], site["text"]), [])
                construct = f"{name}:{site['text']}"
                if not site["tested"] and not bad:
                    bad = [{"file": s["file"], "line": site["line"], "msg": "arena result never null-tested"}]
                if bad:
                    res.bad("R-NULLABLE", construct, bad[0]["file"], bad[0]["line"], bad[0]["msg"])
                else:
                    res.ok("R-NULLABLE", construct, None)
            for k, rps in by.items():
                for rp in rps:
                    res.bad("R-NULLABLE", f"{name}:{rp.get('text')}", rp["file"], rp["line"], rp["msg"])
    res.explanation = (
        "Typestate analysis over all structured paths (correlated pure predicates) of all functions of the 37 engine "
        "C translation units: stack frames balanced, frees only with an open frame, allocations only inside a frame or "
        "in inferred caller-frame helpers whose call sites are all framed (fixpoint); null discipline of arena results; "
        "structural shape of the threadlock/atomic reservation and overflow tests in engine_memory.c.")
    res.not_decided = ("alignment and non-overlap arithmetic of returned blocks (value-level); C++ callers "
                       "(engine_thread.cc, plugins) are covered by the thorough tier only.")
    res.assumptions = ["error handlers do not return", "paths through impure predicates are over-approximated"]
