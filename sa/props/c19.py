"""C19 Internal stack and arena allocation is memory-safe.

Decides: (R-FRAME) on every path of every engine function mj_markStack/mj_freeStack are
balanced, frees never run without an open frame, stack allocations happen inside an open
frame or in an inferred caller-frame helper all of whose call sites are inside a frame;
(R-NULLABLE) every arena result is null-tested before use; (R-THREADLOCK) the shape of
engine_memory.c: under d->threadlock the stack pointer is advanced only through the atomic
add and mark/free are no-ops; the non-threadlock path updates pstack only from the local
mjStackInfo; both overflow tests end the path in mju_error before any pointer is formed.
Does not decide: the alignment/overlap arithmetic of returned blocks.
"""
from __future__ import annotations

from .. import cir, engine, paths, r_frame
from ..cfront import AnalysisError
from . import c20

FLOOR_FRAME_FUNCS = 80    # 89 functions open a frame on the pinned tree
FLOOR_SITES = 190         # 219 mark/free sites


def frame_pass(res, tus):
    out = engine.map_tus("sa.r_frame", "analyse_unit", tus)
    res.rule("R-FRAME", "mark/free balanced on all paths; no free without frame; allocations inside a frame "
             "or in a caller-frame helper whose every call site is inside a frame", floor=FLOOR_FRAME_FUNCS)
    res.rule("R-FRAME-HELPER", "every call site of an inferred caller-frame helper is inside an open frame (or in "
             "another helper)", floor=4)
    funcs = {}
    for tu, fs in out.items():
        for name, s in fs.items():
            key = (tu if s["static"] else None, name) if s["file"] == tu else ("hdr", name)
            funcs[(tu, name)] = s
    # helpers: allocate at depth 0 and never mark
    helpers = set()
    for (tu, name), s in funcs.items():
        if s["alloc0"] and not s["marks"]:
            helpers.add((tu if s["static"] else None, name))
    # fixpoint: a function that calls a helper at depth 0 and never marks is a helper itself

    def is_helper(tu, callee):
        return (tu, callee) in helpers or (None, callee) in helpers
    changed = True
    while changed:
        changed = False
        for (tu, name), s in funcs.items():
            hk = (tu if s["static"] else None, name)
            if hk in helpers or s["marks"]:
                continue
            if any(is_helper(tu, c) for c, _ in s["calls0"]):
                helpers.add(hk)
                changed = True
    nsites = 0
    for (tu, name), s in sorted(funcs.items()):
        nsites += len(s["marks"]) + len(s["frees"])
        if s["marks"] or s["frees"] or s["alloc0"] or s["alloc_ok"]:
            res.count("functions_with_frame_ops")
            bad = list(s["reports"])
            if s["marks"] and s["alloc0"]:
                for line, prim in s["alloc0"]:
                    bad.append({"file": s["file"], "line": line, "kind": "F3",
                                "msg": f"{prim} reached with no open frame on some path in a function that opens frames"})
            if bad:
                for b in bad:
                    res.bad("R-FRAME", f"{name}:{b.get('kind')}", b["file"], b["line"], b["msg"])
            else:
                res.ok("R-FRAME", name, {"file": s["file"], "line": s["line"], "marks": len(s["marks"]),
                                         "frees": len(s["frees"]), "allocs": len(s["alloc_ok"]) + len(s["alloc0"])})
        # helper call sites
        for callee, line in s["calls0"]:
            if is_helper(tu, callee):
                hk = (tu if s["static"] else None, name)
                if hk in helpers:
                    res.ok("R-FRAME-HELPER", f"{name}->{callee}", None)
                else:
                    res.bad("R-FRAME-HELPER", f"{name}->{callee}", s["file"], line,
                            f"caller-frame helper {callee}() allocates on the caller's stack frame but is called with no "
                            f"open frame")
        for callee, line in s["calls_in"]:
            if is_helper(tu, callee):
                res.ok("R-FRAME-HELPER", f"{name}->{callee}", {"file": s["file"], "line": line})
    res.count("mark_free_sites", nsites)
    if nsites < FLOOR_SITES:
        raise AnalysisError(f"only {nsites} mark/free sites found (floor {FLOOR_SITES})")
    res.extra["caller_frame_helpers"] = sorted(n for _, n in helpers)
    # exported helpers would leak the obligation to users: the public header must not declare them
    return funcs, helpers


def _find_calls_under(node, name):
    return [c for c in cir.calls(node, name)]


def threadlock_shape(res):
    """Structural obligations inside engine_memory.c."""
    res.rule("R-THREADLOCK", "stack primitives: threadlock branch reserves only via the atomic add; mark/free are "
             "no-ops under threadlock; pstack otherwise written only from the local mjStackInfo; overflow tests end "
             "in mju_error", floor=6)
    u = engine.unit("src/engine/engine_memory.c")
    need = ["stackalloc", "mj_markStack", "mj_freeStack", "stackallocinternal", "mj_arenaAllocByte"]
    for f in need:
        if f not in u.funcs:
            raise AnalysisError(f"anchor function {f} not found in engine_memory.c")
    file = "src/engine/engine_memory.c"

    def is_threadlock_if(n):
        if n.get("k") != "IfStmt":
            return False
        c = cir.kids(n)
        return "d->threadlock" == cir.text(c[0])

    # 1. mark/free: first statement is `if (d->threadlock) return;`
    for f in ("mj_markStack", "mj_freeStack"):
        b = cir.body(u.funcs[f])
        first = cir.kids(b)[0] if cir.kids(b) else None
        okk = first is not None and is_threadlock_if(first)
        if okk:
            then = cir.kids(first)[1]
            rets = [x for x in cir.walk(then) if x.get("k") == "ReturnStmt"]
            okk = bool(rets) and not any(cir.is_call(x) for x in cir.walk(then))
        if okk:
            res.ok("R-THREADLOCK", f"{f}:noop-under-threadlock", {"file": file, "line": first.get("line")})
        else:
            res.bad("R-THREADLOCK", f"{f}:noop-under-threadlock", file, u.funcs[f].get("line"),
                    f"{f} does not return immediately when d->threadlock is set (frames are owned by mju_dispatch)")
    # 2. stackalloc: inside the threadlock branch, every write reaching d->pstack is the atomic add; outside, the
    #    only write is `d->pstack = stack_info.bottom - stack_info.top`
    fn = u.funcs["stackalloc"]
    tl = [n for n in cir.walk(fn) if is_threadlock_if(n)]
    if len(tl) != 1:
        raise AnalysisError("stackalloc: expected exactly one `if (d->threadlock)`")
    tlif = tl[0]
    then = cir.kids(tlif)[1]
    inside = set(id(x) for x in cir.walk(then))
    atomic_nodes = [x for x in cir.walk(then) if x.get("k") == "AtomicExpr"]
    atomic_calls = [x for x in atomic_nodes if (cir.atomic_info(x, file) or (None,))[0] in ("fetch_add", "add_fetch")]
    plain_writes_in = []
    plain_writes_out = []
    for n in cir.walk(fn):
        if (n.get("k") == "BinaryOperator" and n.get("op") == "=") or n.get("k") == "CompoundAssignOperator" or \
                (n.get("k") == "UnaryOperator" and n.get("op") in ("++", "--")):
            t = cir.text(cir.kids(n)[0])
            if t == "d->pstack":
                (plain_writes_in if id(n) in inside else plain_writes_out).append(n)
    okk = len(atomic_calls) == 1 and len(atomic_nodes) == 1 and \
        "&d->pstack" == cir.atomic_info(atomic_calls[0], file)[2] and not plain_writes_in
    if okk:
        res.ok("R-THREADLOCK", "stackalloc:atomic-reservation", {"file": file, "line": atomic_calls[0].get("line"),
                                                                  "atomic": list(cir.atomic_info(atomic_calls[0], file))})
    else:
        res.bad("R-THREADLOCK", "stackalloc:atomic-reservation", file, tlif.get("line"),
                "under d->threadlock the shared stack pointer must be advanced only by one atomic add on &d->pstack "
                f"(atomic calls: {len(atomic_calls)}, plain writes in branch: {len(plain_writes_in)})")
    # the block must be derived from the value RETURNED by the atomic add (this thread's own reservation): the result is bound
    # to a local, and the branch contains no other read of the shared stack pointer (directly or through a helper that reads it)
    bound = [x for x in cir.walk(then) if x.get("k") == "VarDecl" and x.get("init") and
             any(y.get("k") == "AtomicExpr" for y in cir.walk(x))]
    other_reads = []
    readers_of_pstack = {name for name, f_ in u.funcs.items()
                         if any(y.get("k") == "MemberExpr" and y.get("n") == "pstack" for y in cir.walk(f_))}
    for x in cir.walk(then):
        if x.get("k") == "MemberExpr" and x.get("n") == "pstack":
            inside_atomic = any(any(z is x for z in cir.walk(a_)) for a_ in atomic_nodes)
            if not inside_atomic:
                other_reads.append(x.get("line"))
        if cir.is_call(x) and cir.callee(x) in readers_of_pstack and cir.callee(x) != "stackalloc":
            other_reads.append(x.get("line"))
    if len(bound) == 1 and not other_reads:
        res.ok("R-THREADLOCK", "stackalloc:block-from-atomic-result", {"bound_to": bound[0].get("n")})
    else:
        res.bad("R-THREADLOCK", "stackalloc:block-from-atomic-result", file, tlif.get("line"),
                "under d->threadlock the block must be computed from the value returned by the atomic add; "
                + ("the result of the atomic add is discarded" if len(bound) != 1 else "")
                + (f" d->pstack is read again (line {other_reads[0]}): another thread's reservation can land in between and both "
                   f"threads derive the same block" if other_reads else ""))
    # threadlock branch must return on every path (never fall into the single-thread path)
    class R(paths.Rule):
        def fallthrough(self, st, ctx):
            ctx.report(ctx.fn, "fallthrough")
    # explore the branch body as a pseudo function
    pseudo = {"k": "FunctionDecl", "n": "stackalloc.threadlock", "file": file, "line": then.get("line"), "i": [then]}
    if then.get("k") != "CompoundStmt":
        pseudo["i"] = [{"k": "CompoundStmt", "i": [then], "line": then.get("line")}]
    ctx = paths.explore(R(), u, pseudo)
    if ctx.reports:
        res.bad("R-THREADLOCK", "stackalloc:threadlock-branch-returns", file, then.get("line"),
                "the threadlock branch can fall through into the single-threaded allocation path")
    else:
        res.ok("R-THREADLOCK", "stackalloc:threadlock-branch-returns", {"file": file, "line": then.get("line")})
    # the amount reserved atomically, as a linear form, must dominate size + (alignment - 1) (the block is formed at
    # bottom - old - size and aligned DOWN by up to alignment-1), and the overflow test must test exactly that amount
    from .. import linform as _lf
    defs = _lf.single_defs(fn)
    added_node = cir.kids(atomic_calls[0])[2] if atomic_calls and len(cir.kids(atomic_calls[0])) > 2 else None
    form = _lf.linform(added_node, defs) if added_node is not None else {}
    opaque = [t for t in form if t not in ("size", "alignment", "1")]
    if added_node is not None and form.get("size", 0) >= 1 and form.get("alignment", 0) >= 1 and form.get("1", 0) >= -1 and \
            all(form[t] >= 0 for t in opaque):
        res.ok("R-THREADLOCK", "stackalloc:reservation-covers-alignment", {"reserved": _lf.fmt(form)})
    else:
        res.bad("R-THREADLOCK", "stackalloc:reservation-covers-alignment", file, tlif.get("line"),
                f"the atomically reserved amount `{_lf.fmt(form)}` is not provably >= size + alignment - 1: the block start is "
                f"aligned down inside the reservation, so a smaller reservation lets blocks of different threads overlap")
    # overflow test of the threadlock branch tests old + reserved against the space above the arena
    gd = None
    for st in cir.kids(then):
        if st is not None and st.get("k") == "IfStmt" and any(cir.callee(c) == "mju_error" for c in cir.calls(cir.kids(st)[1])):
            gd = cir.strip(cir.kids(st)[0])
            while gd is not None and gd.get("k") == "CallExpr" and cir.callee(gd) == "__builtin_expect":
                gd = cir.strip(cir.args(gd)[0])
            while gd is not None and gd.get("k") == "UnaryOperator" and gd.get("op") == "!":
                gd = cir.strip(cir.kids(gd)[0])
    okg = False
    detail = ""
    if gd is not None and gd.get("k") == "BinaryOperator" and gd.get("op") in (">", ">="):
        lhs = _lf.linform(cir.kids(gd)[0], defs)
        rhs = _lf.linform(cir.kids(gd)[1], defs)
        oldv = [x.get("n") for x in cir.walk(then) if x.get("k") == "VarDecl" and any(y.get("k") == "AtomicExpr" for y in cir.walk(x))]
        want = _lf._add({oldv[0]: 1} if oldv else {}, form)
        okg = lhs == want and rhs == {"d->narena": 1, "d->parena": -1}
        detail = f"tests `{_lf.fmt(lhs)}` > `{_lf.fmt(rhs)}`; reserved `{_lf.fmt(form)}`"
    if okg:
        res.ok("R-THREADLOCK", "stackalloc:overflow-test-matches-reservation", {"detail": detail})
    else:
        res.bad("R-THREADLOCK", "stackalloc:overflow-test-matches-reservation", file, tlif.get("line"),
                f"the threadlock overflow test does not compare (old pstack + reserved amount) with (narena - parena): {detail}")
    okk = len(plain_writes_out) == 1 and cir.text(cir.kids(plain_writes_out[0])[1]) == "stack_info.bottom - stack_info.top"
    if okk:
        res.ok("R-THREADLOCK", "stackalloc:pstack-from-local-info", {"line": plain_writes_out[0].get("line")})
    else:
        res.bad("R-THREADLOCK", "stackalloc:pstack-from-local-info", file, fn.get("line"),
                "single-threaded path must write d->pstack exactly once, from the local mjStackInfo")
    # 3. overflow tests: in stackalloc (threadlock) and stackallocinternal an if whose then-branch calls mju_error
    #    must dominate the formation of the returned pointer: check that every ReturnStmt returning a non-NULL
    #    expression comes after an if-with-mju_error in statement order within the same block
    for fname, where in (("stackallocinternal", cir.body(u.funcs["stackallocinternal"])), ("stackalloc", then)):
        stmts = cir.kids(where)
        guard_idx = None
        for i, st in enumerate(stmts):
            if st is not None and st.get("k") == "IfStmt" and any(cir.callee(c) == "mju_error" for c in cir.calls(cir.kids(st)[1])):
                cond = cir.text(cir.kids(st)[0])
                guard_idx = i
                guard_cond = cond
        ret_idx = [i for i, st in enumerate(stmts) if st is not None and st.get("k") == "ReturnStmt"
                   and cir.text(cir.kids(st)[0]) not in ("NULL", "0", "(void *)0")]
        if guard_idx is not None and ret_idx and all(i > guard_idx for i in ret_idx) and ">" in guard_cond:
            res.ok("R-THREADLOCK", f"{fname}:overflow-test-dominates-result", {"cond": guard_cond})
        else:
            res.bad("R-THREADLOCK", f"{fname}:overflow-test-dominates-result", file, where.get("line"),
                    "no overflow test ending in mju_error dominates the returned block pointer")
    arena_guard(res, "R-THREADLOCK", u)


def arena_guard(res, rule, u=None):
    """mj_arenaAllocByte: tested amount == consumed amount, against narena - pstack, before the advance."""
    file = "src/engine/engine_memory.c"
    if u is None:
        u = engine.unit(file)
    if "mj_arenaAllocByte" not in u.funcs:
        raise AnalysisError("mj_arenaAllocByte not found")
    # 4. arena: the amount tested by the rejecting comparison equals the amount by which parena advances, the test is
    #    against (narena - pstack), and it precedes the advance
    from .. import linform as _lf
    fn = u.funcs["mj_arenaAllocByte"]
    defs = _lf.single_defs(fn)
    stmts = cir.kids(cir.body(fn))
    gi = None
    tested = avail = None
    for i, st in enumerate(stmts):
        if st is not None and st.get("k") == "IfStmt":
            rets = [x for x in cir.walk(cir.kids(st)[1]) if x.get("k") == "ReturnStmt"]
            c = cir.strip(cir.kids(st)[0])
            while c is not None and c.get("k") == "CallExpr" and cir.callee(c) == "__builtin_expect":
                c = cir.strip(cir.args(c)[0])
            while c is not None and c.get("k") == "UnaryOperator" and c.get("op") == "!":
                c = cir.strip(cir.kids(c)[0])
            if rets and c is not None and c.get("k") == "BinaryOperator" and c.get("op") in (">", ">=") and gi is None:
                gi = i
                tested = _lf.linform(cir.kids(c)[0], defs)
                avail = _lf.linform(cir.kids(c)[1], defs)
    adv = None
    wi = []
    for i, st in enumerate(stmts):
        if st is not None and st.get("k") == "CompoundAssignOperator" and st.get("op") == "+=" and cir.text(cir.kids(st)[0]) == "d->parena":
            adv = _lf.linform(cir.kids(st)[1], defs)
            wi.append(i)
        elif st is not None and st.get("k") == "BinaryOperator" and st.get("op") == "=" and cir.text(cir.kids(st)[0]) == "d->parena":
            adv = _lf._add(_lf.linform(cir.kids(st)[1], defs), {"d->parena": 1}, -1)
            wi.append(i)
    problems = []
    if gi is None or adv is None or len(wi) != 1:
        problems.append("size test or single advance of d->parena not found")
    else:
        if wi[0] < gi:
            problems.append("d->parena is advanced before the size test")
        if _lf._add(tested, {"d->parena": 1}, -1) != adv:
            problems.append(f"the test budgets `{_lf.fmt(_lf._add(tested, {'d->parena': 1}, -1))}` but d->parena advances by `{_lf.fmt(adv)}`")
        if avail != {"d->narena": 1, "d->pstack": -1}:
            problems.append(f"the test compares against `{_lf.fmt(avail)}`, not narena - pstack")
    if problems:
        res.bad(rule, "mj_arenaAllocByte:size-test-before-advance", file, fn.get("line"), "; ".join(problems))
    else:
        res.ok(rule, "mj_arenaAllocByte:size-test-before-advance", {"tested": _lf.fmt(tested), "advance": _lf.fmt(adv)})


def run(res, tier):
    tus = engine.engine_tus()
    res.count("tus", len(tus))
    frame_pass(res, tus)
    threadlock_shape(res)
    if tier == "thorough":
        # first-party C++ callers of the frame API outside src/engine (plugins); mju_dispatch is decided under C02.
        # The TU list is selected by a text scan, the verdict comes from the AST.
        import os
        from .. import cfront, r_frame as _rf
        extra = []
        for root, dn, fn_ in os.walk(os.path.join(cfront.REPO, "plugin")):
            for f in fn_:
                if f.endswith(".cc"):
                    pth = os.path.join(root, f)
                    try:
                        txt = open(pth, errors="replace").read()
                    except OSError:
                        continue
                    if "mj_markStack" in txt or "mj_stackAlloc" in txt or "mjSTACKALLOC" in txt:
                        extra.append(os.path.relpath(pth, cfront.REPO))
        res.count("cxx_plugin_tus", len(extra))
        for tu in sorted(extra):
            u = engine.unit(tu)
            for name, s_ in sorted(_rf.analyse_unit(u).items()):
                if not (s_["marks"] or s_["frees"] or s_["alloc0"] or s_["alloc_ok"]):
                    continue
                bad = list(s_["reports"]) + [{"file": s_["file"], "line": l, "msg": f"{p_} outside any frame"} for l, p_ in s_["alloc0"]]
                if bad:
                    for b in bad:
                        res.bad("R-FRAME", f"{name}:{b.get('kind', 'F3')}", b["file"], b["line"], b["msg"])
                else:
                    res.ok("R-FRAME", f"{tu}:{name}", {"marks": len(s_["marks"]), "frees": len(s_["frees"])})
    # arena null discipline (shared with C20)
    out, producers, clr, rounds = c20.nullable_pass(res)
    res.rule("R-NULLABLE", "every arena allocation result is null-tested (that value) before use", floor=c20.FLOOR_SITES)
    for tu, fs in sorted(out.items()):
        for name, s in sorted(fs.items()):
            by = {}
            for rp in s["reports"]:
                if rp.get("kind") in ("N1", "N2"):
                    by.setdefault((rp.get("site"), rp.get("text")), []).append(rp)
            for site in s["sites"]:
                bad = by.pop((site["line"], site["text"]), [])
                construct = f"{name}:{site['text']}"
                if not site["tested"] and not bad:
                    bad = [{"file": s["file"], "line": site["line"], "msg": "arena result never null-tested"}]
                if bad:
                    res.bad("R-NULLABLE", construct, bad[0]["file"], bad[0]["line"], bad[0]["msg"])
                else:
                    res.ok("R-NULLABLE", construct, None)
            for k, rps in by.items():
                for rp in rps:
                    res.bad("R-NULLABLE", f"{name}:{rp.get('text')}", rp["file"], rp["line"], rp["msg"])
    res.explanation = (
        "Typestate analysis over all structured paths (correlated pure predicates) of all functions of the 37 engine "
        "C translation units: stack frames balanced, frees only with an open frame, allocations only inside a frame or "
        "in inferred caller-frame helpers whose call sites are all framed (fixpoint); null discipline of arena results; "
        "structural shape of the threadlock/atomic reservation and overflow tests in engine_memory.c.")
    res.not_decided = ("alignment and non-overlap arithmetic of returned blocks (value-level); C++ callers "
                       "(engine_thread.cc, plugins) are covered by the thorough tier only.")
    res.assumptions = ["error handlers do not return", "paths through impure predicates are over-approximated"]
