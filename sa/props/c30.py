"""C30 Numerical blow-ups are contained.

Decided:
  R-MUSTPASS  the state checks sit at the documented points of every stepping pipeline: mj_checkPos and mj_checkVel before
              the first forward stage of mj_step and mj_step1, mj_checkAcc after the acceleration stage and before the
              integrator in mj_step and mj_step2 (order of events in the flattened sequences)
  R-CHECK     each check function scans the whole (awake) vector with mju_isBad and on the bad branch, on every path:
              raises the warning that names the same component, resets the data iff autoreset is not disabled
              (guard is exactly !mjDISABLED(mjDSBL_AUTORESET)), re-counts the warning after the reset so the counter
              increases, and returns; mj_checkAcc additionally re-runs mj_forward under the same guard
  R-FINITE    mju_isBad as a finite table over {NaN, -inf, < -MAX, = -MAX, 0, = MAX, > MAX, +inf}: bad exactly for NaN
              and |x| > mjMAXVAL
  R-COUNTER   mj_warning increments the counter of its warning on every returning path
Not decided: "after mj_step every state component is finite" (values); blow-ups in quantities that are not checked.
"""
from __future__ import annotations

import math

from .. import cir, ctypeinfo, engine, paths, pipeline
from ..cfront import AnalysisError

FWD = "src/engine/engine_forward.c"


def feval(n, env):
    """evaluate a comparison-only C expression on Python floats (IEEE semantics: NaN compares false)"""
    n = cir.strip(n)
    k = n.get("k")
    if k == "DeclRefExpr":
        return env[(n.get("ref") or {}).get("n")]
    if k in ("FloatingLiteral", "IntegerLiteral"):
        return float(str(n.get("v")))
    if k == "UnaryOperator":
        v = feval(cir.kids(n)[0], env)
        return {"-": lambda x: -x, "+": lambda x: x, "!": lambda x: float(not x)}[n.get("op")](v)
    if k == "BinaryOperator":
        op = n.get("op")
        if op == "||":
            return float(bool(feval(cir.kids(n)[0], env)) or bool(feval(cir.kids(n)[1], env)))
        if op == "&&":
            return float(bool(feval(cir.kids(n)[0], env)) and bool(feval(cir.kids(n)[1], env)))
        a, b = feval(cir.kids(n)[0], env), feval(cir.kids(n)[1], env)
        return float({"<": a < b, ">": a > b, "<=": a <= b, ">=": a >= b, "==": a == b, "!=": a != b}[op])
    if k == "CallExpr" and cir.callee(n) in ("isnan", "__builtin_isnan", "mju_isnan"):
        return float(math.isnan(feval(cir.args(n)[0], env)))
    if k == "CallExpr" and cir.callee(n) in ("fabs", "mju_abs", "__builtin_fabs"):
        return abs(feval(cir.args(n)[0], env))
    raise AnalysisError(f"mju_isBad: expression kind {k} is outside the comparison-only fragment")


def run(res, tier):
    uf = engine.unit(FWD)
    um = engine.unit("src/engine/engine_util_misc.c")
    uc = engine.unit("src/engine/engine_core_util.c")
    for f in ("mj_step", "mj_step1", "mj_step2", "mj_checkPos", "mj_checkVel", "mj_checkAcc"):
        if f not in uf.funcs:
            raise AnalysisError(f"anchor {f} missing")
    if "mju_isBad" not in um.funcs or "mj_warning" not in uc.funcs:
        raise AnalysisError("anchor mju_isBad / mj_warning missing")
    enum = ctypeinfo.load()["enumerators"]
    F = pipeline.Flattener(uf, stop=pipeline.STAGES[uf.tu])

    # ------------------------------------------------------------------ R-MUSTPASS
    res.rule("R-MUSTPASS", "checks placed before the first stage / after acceleration and before integration", floor=6)

    def names(evs):
        return [e[1] for e in evs if e[0] == "call"]

    for integ in ("mjINT_EULER", "mjINT_RK4", "mjINT_IMPLICIT", "mjINT_IMPLICITFAST"):
        env = {"m->opt.integrator": enum[integ]}
        for pname, fns in (("mj_step", ["mj_step"]), ("mj_step1;mj_step2", ["mj_step1", "mj_step2"])):
            if pname != "mj_step" and integ == "mjINT_RK4":
                continue
            evs = []
            for f in fns:
                evs += [e for e in F.flatten(uf.funcs[f], env) if e[0] == "call" and not e[-1]]
            seq = [e[1] for e in evs]
            stages = [i for i, n in enumerate(seq) if n in ("mj_kinematics", "mj_fwdPosition", "mj_fwdKinematics")]
            integs = [i for i, n in enumerate(seq) if n in ("mj_EulerSkip", "mj_implicitSkip", "mj_RungeKutta", "mj_Euler", "mj_implicit")]
            acc = [i for i, n in enumerate(seq) if n in ("mj_fwdConstraint",)]
            problems = []
            if not stages or not integs or not acc:
                raise AnalysisError(f"{pname}[{integ}]: stage / integrator events not found in the flattened sequence")
            for chk in ("mj_checkPos", "mj_checkVel"):
                idx = [i for i, n in enumerate(seq) if n == chk]
                if not idx or idx[0] > stages[0]:
                    problems.append(f"{chk} does not precede the first position-stage call")
            idx = [i for i, n in enumerate(seq) if n == "mj_checkAcc"]
            if not idx or not (acc[-1] < idx[0] < integs[0]):
                problems.append("mj_checkAcc is not between the acceleration stage and the integrator")
            construct = f"{pname}:{integ}"
            if problems:
                res.bad("R-MUSTPASS", construct, FWD, uf.funcs[fns[0]].get("line"), "; ".join(problems))
            else:
                res.ok("R-MUSTPASS", construct, {"order": [n for n in seq if n.startswith("mj_check") or n in ("mj_kinematics", "mj_fwdConstraint") or "Skip" in n or n == "mj_RungeKutta"]})

    # ------------------------------------------------------------------ R-CHECK
    res.rule("R-CHECK", "each check: whole vector scanned, bad branch warns, resets under the autoreset guard, re-counts, returns", floor=3)
    want = {"mj_checkPos": ("qpos", "mjWARN_BADQPOS"), "mj_checkVel": ("qvel", "mjWARN_BADQVEL"), "mj_checkAcc": ("qacc", "mjWARN_BADQACC")}
    for fname, (field, warn) in want.items():
        fn = uf.funcs[fname]
        problems = []
        bad_ifs = [n for n in cir.walk(fn) if n.get("k") == "IfStmt" and any(cir.callee(c) == "mju_isBad" for c in cir.calls(cir.kids(n)[0]))]
        if len(bad_ifs) != 1:
            raise AnalysisError(f"{fname}: expected exactly one mju_isBad test")
        bi = bad_ifs[0]
        # the tested value comes from d-><field> (directly or via a const local alias)
        arg = cir.args(next(c for c in cir.calls(cir.kids(bi)[0]) if cir.callee(c) == "mju_isBad"))[0]
        base = cir.strip(arg)
        while base is not None and base.get("k") == "ArraySubscriptExpr":
            base = cir.strip(cir.kids(base)[0])
        src = cir.text(base)
        if base is not None and base.get("k") == "DeclRefExpr":
            for x in cir.walk(fn):
                if x.get("k") == "VarDecl" and x.get("n") == src and x.get("init"):
                    src = cir.text([c for c in cir.kids(x) if c][-1])
        if src != f"d->{field}":
            problems.append(f"tests `{src}` instead of d->{field}")
        # the scan covers the whole vector: the enclosing loop bound is m->n* or the awake count under the sleep filter
        loops = [n for n in cir.walk(fn) if n.get("k") == "ForStmt" and any(x is bi for x in cir.walk(n))]
        if len(loops) != 1:
            problems.append("the test is not inside exactly one loop")
        else:
            bound = cir.text(cir.kids(loops[0])[2])
            decl = {x.get("n"): cir.text([c for c in cir.kids(x) if c][-1]) for x in cir.walk(fn) if x.get("k") == "VarDecl" and x.get("init")}
            lim = bound.split("<")[-1].strip()
            lim = decl.get(lim, lim)
            full = {"qpos": "m->nq", "qvel": "m->nv", "qacc": "m->nv"}[field]
            if not (lim == full or (full in lim and "awake" in lim)):
                problems.append(f"loop bound `{bound}` (= {lim}) does not cover {full}")
            init = cir.kids(loops[0])[0]
            start = None
            if init is not None and init.get("k") == "DeclStmt":
                vd = [x for x in cir.kids(init) if x is not None and x.get("k") == "VarDecl"]
                if vd and vd[0].get("init"):
                    start = cir.text([c for c in cir.kids(vd[0]) if c][-1])
            elif init is not None and init.get("k") == "BinaryOperator":
                start = cir.text(cir.kids(init)[1])
            if start != "0":
                problems.append(f"scan starts at `{start}`, not 0")
        # events of the bad branch
        then = cir.kids(bi)[1]
        pseudo = {"k": "FunctionDecl", "n": fname + ".bad", "i": [then if then.get("k") == "CompoundStmt" else {"k": "CompoundStmt", "i": [then]}]}
        evs = pipeline.Flattener(uf, inline=set()).flatten(pseudo, {})
        guard = (("m->opt.disableflags & mjDSBL_AUTORESET", False),)
        calls = [(e[1], e[-1]) for e in evs if e[0] == "call"]
        warn_calls = [c for c in cir.calls(then, "mj_warning")]
        if not warn_calls or cir.text(cir.args(warn_calls[0])[1]) != warn or ("mj_warning", ()) not in calls:
            problems.append(f"bad branch does not raise mj_warning(d, {warn}, ...) unconditionally")
        if ("mj_resetData", guard) not in calls:
            problems.append("mj_resetData is not guarded exactly by !mjDISABLED(mjDSBL_AUTORESET)")
        elif calls.index(("mj_resetData", guard)) < calls.index(("mj_warning", ())):
            problems.append("reset happens before the warning is raised")
        sets = [e for e in evs if e[0] == "set" and f"d->warning[{warn}].number" in e[1]]
        incs = [n for n in cir.walk(then) if n.get("k") == "UnaryOperator" and n.get("op") == "++" and
                cir.text(cir.kids(n)[0]) == f"d->warning[{warn}].number"]
        reset_line = next((c.get("line") for c in cir.calls(then, "mj_resetData")), None)
        if not incs or (reset_line is not None and incs[0].get("line") < reset_line):
            problems.append(f"the warning counter d->warning[{warn}].number is not re-incremented after the reset (reset zeroes it)")
        if not any(e[0] == "return" and not e[-1] for e in evs):
            problems.append("bad branch does not return (bad values would be scanned/propagated further)")
        if fname == "mj_checkAcc" and ("mj_forward", guard) not in calls:
            problems.append("mj_checkAcc does not recompute mj_forward after the reset under the same guard")
        if problems:
            res.bad("R-CHECK", fname, FWD, bi.get("line"), "; ".join(problems))
        else:
            res.ok("R-CHECK", fname, {"events": [pipeline.fmt(e) for e in evs][:8]})

    # ------------------------------------------------------------------ R-FINITE
    res.rule("R-FINITE", "mju_isBad truth table", floor=8)
    from .. import norm
    fn = norm.canon(um, "mju_isBad", propagate=True, nested=False)      # named sub-expressions substituted
    rets = [n for n in cir.walk(fn) if n.get("k") == "ReturnStmt"]
    if len(rets) != 1:
        raise AnalysisError("mju_isBad: expected a single return expression")
    par = cir.params(fn)[0].get("n")
    MAXV = 1e10
    # read mjMAXVAL from the literal the macro expanded to
    lits = [float(str(x.get("v"))) for x in cir.walk(rets[0]) if x.get("k") == "FloatingLiteral"]
    if lits:
        MAXV = max(lits)
    cases = {"NaN": (float("nan"), True), "-inf": (float("-inf"), True), "below -MAX": (-MAXV * 2, True), "-MAX": (-MAXV, False),
             "zero": (0.0, False), "MAX": (MAXV, False), "above MAX": (MAXV * 2, True), "+inf": (float("inf"), True)}
    for name, (v, want_bad) in cases.items():
        got = bool(feval(cir.kids(rets[0])[0], {par: v}))
        if got == want_bad:
            res.ok("R-FINITE", f"mju_isBad:{name}", {"bad": got})
        else:
            res.bad("R-FINITE", f"mju_isBad:{name}", "src/engine/engine_util_misc.c", rets[0].get("line"),
                    f"mju_isBad({name}) evaluates to {got}; documented: bad iff NaN or |x| > mjMAXVAL")

    # ------------------------------------------------------------------ R-COUNTER
    res.rule("R-COUNTER", "mj_warning increments its counter on every returning path", floor=1)

    class Inc(paths.Rule):
        def initial(self, fn):
            return False

        def assign(self, st, node, ctx):
            if node.get("k") == "UnaryOperator" and node.get("op") == "++" and cir.text(cir.kids(node)[0]).endswith(".number") \
                    and cir.text(cir.kids(node)[0]).startswith("d->warning["):
                return True
            if node.get("k") == "CompoundAssignOperator" and cir.text(cir.kids(node)[0]).endswith(".number"):
                return True
            return st

        def ret(self, st, node, ctx):
            if not st:
                ctx.report(node, "return without incrementing the warning counter")

        def fallthrough(self, st, ctx):
            if not st:
                ctx.report(ctx.fn, "function end reached without incrementing the warning counter")
    ctx = paths.explore(Inc(), uc, uc.funcs["mj_warning"])
    if ctx.reports:
        res.bad("R-COUNTER", "mj_warning", "src/engine/engine_core_util.c", ctx.reports[0]["line"], ctx.reports[0]["msg"])
    else:
        res.ok("R-COUNTER", "mj_warning", None)
    res.explanation = (
        "Placement of the three state checks in the flattened stepping pipelines (all integrators), shape of each check on "
        "all paths of its bad branch (warning, guarded reset, re-count, return, recompute), exhaustive finite evaluation of "
        "mju_isBad over IEEE order types, counter increment on all returning paths of mj_warning.")
    res.not_decided = "finiteness of every state component after a step (value-level); quantities that no check inspects."
    res.assumptions = ["error handlers do not return"]
