"""C30 Numerical blow-ups are contained.

Decided:
  R-MUSTPASS  the state checks sit at the documented points of every stepping pipeline: mj_checkPos and mj_checkVel before
              the first forward stage of mj_step and mj_step1, mj_checkAcc after the acceleration stage and before the
              integrator in mj_step and mj_step2 (order of events in the flattened sequences)
  R-CHECK     each check function scans the whole (awake) vector with mju_isBad and on the bad branch, on every path:
              raises the warning that names the same component, resets the data iff autoreset is not disabled
              (guard is exactly !mjDISABLED(mjDSBL_AUTORESET)), re-counts the warning after the reset so the counter
              increases, and returns; mj_checkAcc additionally re-runs mj_forward under the same guard
  R-FINITE    mju_isBad as a finite table over {NaN, -inf, < -MAX, = -MAX, 0, = MAX, > MAX, +inf}: bad exactly for NaN
              and |x| > mjMAXVAL
  R-COUNTER   mj_warning increments the counter of its warning on every returning path
Not decided: "after mj_step every state component is finite" (values); blow-ups in quantities that are not checked.
"""
from __future__ import annotations

import math

from .. import cir, ctypeinfo, engine, paths, pipeline
from ..cfront import AnalysisError

FWD = "src/engine/engine_forward.c"


def feval(n, env):
    """evaluate a comparison-only C expression on Python floats (IEEE semantics: NaN compares false)"""
    n = cir.strip(n)
    k = n.get("k")
    if k == "DeclRefExpr":
        return env[(n.get("ref") or {}).get("n")]
    if k in ("FloatingLiteral", "IntegerLiteral"):
        return float(str(n.get("v")))
    if k == "UnaryOperator":
        v = feval(cir.kids(n)[0], env)
        return {"-": lambda x: -x, "+": lambda x: x, "!": lambda x: float(not x)}[n.get("op")](v)
    if k == "BinaryOperator":
        op = n.get("op")
        if op == "||":
            return float(bool(feval(cir.kids(n)[0], env)) or bool(feval(cir.kids(n)[1], env)))
        if op == "&&":
            return float(bool(feval(cir.kids(n)[0], env)) and bool(feval(cir.kids(n)[1], env)))
        a, b = feval(cir.kids(n)[0], env), feval(cir.kids(n)[1], env)
        return float({"<": a < b, ">": a > b, "<=": a <= b, ">=": a >= b, "==": a == b, "!=": a != b}[op])
    if k == "CallExpr" and cir.callee(n) in ("isnan", "__builtin_isnan", "mju_isnan"):
        return float(math.isnan(feval(cir.args(n)[0], env)))
    if k == "CallExpr" and cir.callee(n) in ("fabs", "mju_abs", "__builtin_fabs"):
        return abs(feval(cir.args(n)[0], env))
    raise AnalysisError(f"mju_isBad: expression kind {k} is outside the comparison-only fragment")



def wake_nan(res):
    """R-WAKE-NAN: a sleeping tree is skipped by the velocity / acceleration scans, so a non-finite velocity written into it is
    contained only if it wakes the tree.  The predicate mj_wake uses to decide whether a sleeping tree was touched (a function
    of engine_sleep.c that reads qvel and the applied forces and returns an int; called with a zero tolerance) is evaluated by
    the finite interpreter on a one-dof tree with all applied forces zero: it must say "may stay asleep" for qvel = 0 (which
    validates the set-up) and "touched" for qvel = NaN and for qvel = 1."""
    import math
    from types import SimpleNamespace
    from .. import finite
    from . import c25 as _c25
    SLEEP = "src/engine/engine_sleep.c"
    res.rule("R-WAKE-NAN", "the test that keeps a sleeping tree asleep treats a NaN velocity as a change", floor=1)
    us = engine.unit(SLEEP)
    if "mj_wake" not in us.funcs:
        raise AnalysisError(f"anchor mj_wake missing in {SLEEP}")
    cands = []
    for name, fn in us.funcs.items():
        if (fn.get("file") or us.tu) != us.tu or not (fn.get("t") or "").startswith("int"):
            continue
        txt = {x.get("n") for x in cir.walk(fn) if x.get("k") == "MemberExpr"}
        if {"qvel", "qfrc_applied", "xfrc_applied"} <= txt and any(cir.callee(c) == name for c in cir.calls(us.funcs["mj_wake"])):
            cands.append(fn)
    if len(cands) != 1:
        raise AnalysisError(f"{SLEEP}: the predicate mj_wake uses on a sleeping tree (reads qvel, qfrc_applied, xfrc_applied) was not "
                            f"identified ({[f.get('n') for f in cands]})")
    fn = cands[0]
    merged = {}
    for tu in engine.engine_tus():
        merged.update(engine.unit(tu).funcs)
    ns = SimpleNamespace(funcs=merged, vars={}, tu=SLEEP, enums=getattr(us, "enums", {}))
    enum = ctypeinfo.load()["enumerators"]
    policies = sorted({v for k_, v in enum.items() if k_.startswith("mjSLEEP_")}) or [0, 1, 2, 3]

    def evaluate(v, policy):
        env = {}
        for _ in range(200):
            it = _c25._zinterp(ns, env)
            base_abs = it.call_abs

            def abs_(name, node, it2, base_abs=base_abs, it=it):
                if name == "mju_isZeroByte":
                    a = cir.args(node)
                    p_, nb = it.rvalue(a[0]), it.rvalue(a[1])
                    cnt = nb.count if isinstance(nb, finite._Bytes) else None
                    if not isinstance(p_, finite.Ptr) or not isinstance(cnt, int) or cnt > 64:
                        raise finite.Unsupported("mju_isZeroByte on a region of unknown extent")
                    for k_ in range(cnt):
                        key = p_.cell(k_)
                        x = it.mem[key] if key in it.mem else it.input(key, "mjtNum")
                        if not (isinstance(x, (int, float)) and x == 0 and math.copysign(1.0, float(x)) > 0):
                            return 0
                    return 1
                return base_abs(name, node, it2)
            it.call_abs = abs_
            frame = {}
            for p_ in cir.params(fn):
                t = p_.get("t") or ""
                if "*" in t:
                    frame[p_.get("id")] = finite.Ptr(p_.get("n"), 0)
                elif finite.is_float_type(finite.base_type(t)) or "mjtNum" in t:
                    frame[p_.get("id")] = 0.0
                else:
                    frame[p_.get("id")] = 0
            it.frames.append(frame)
            try:
                try:
                    it.stmt(cir.body(fn))
                    return None
                except finite._Return as r:
                    return r.v
            except finite.NeedKey as nk:
                key = nk.key
                if "qvel" in key:
                    env[key] = v
                elif "sleep_policy" in key:
                    env[key] = policy
                elif "applied" in key:
                    env[key] = 0.0
                elif key.endswith("num[0]") or "dofnum" in key or "bodynum" in key:
                    env[key] = 1
                elif "adr" in key:
                    env[key] = 0
                elif finite.is_float_type(finite.base_type(nk.ctype or "")) or "mjtNum" in (nk.ctype or ""):
                    env[key] = 1.0
                else:
                    env[key] = 0
        raise AnalysisError(f"{fn.get('n')}: too many inputs in the finite evaluation")
    try:
        good = [p_ for p_ in policies if evaluate(0.0, p_) == 1]
        if not good:
            raise AnalysisError(f"{fn.get('n')}: no sleep policy lets a force-free tree at rest stay asleep in the finite evaluation")
        pol = good[0]
        r_nan, r_one = evaluate(float("nan"), pol), evaluate(1.0, pol)
    except finite.Unsupported as e:
        raise AnalysisError(f"{fn.get('n')}: cannot be evaluated ({e})")
    construct = f"{fn.get('n')}:nan-velocity-wakes"
    if r_one != 0:
        res.bad("R-WAKE-NAN", construct, SLEEP, fn.get("line"), f"{fn.get('n')} lets a tree with qvel = 1 stay asleep")
    elif r_nan != 0:
        res.bad("R-WAKE-NAN", construct, SLEEP, fn.get("line"),
                f"{fn.get('n')} (zero tolerance, the call mj_wake makes) returns {r_nan} for qvel = NaN: the sleeping tree is not woken, "
                f"the velocity / acceleration scans skip sleeping dofs, so the NaN stays in d->qvel with no warning and no reset")
    else:
        res.ok("R-WAKE-NAN", construct, {"policy_value": pol})


def run(res, tier):
    uf = engine.unit(FWD)
    um = engine.unit("src/engine/engine_util_misc.c")
    uc = engine.unit("src/engine/engine_core_util.c")
    for f in ("mj_step", "mj_step1", "mj_step2", "mj_checkPos", "mj_checkVel", "mj_checkAcc"):
        if f not in uf.funcs:
            raise AnalysisError(f"anchor {f} missing")
    if "mju_isBad" not in um.funcs or "mj_warning" not in uc.funcs:
        raise AnalysisError("anchor mju_isBad / mj_warning missing")
    enum = ctypeinfo.load()["enumerators"]
    F = pipeline.Flattener(uf, stop=pipeline.STAGES[uf.tu])

    # ------------------------------------------------------------------ R-MUSTPASS
    res.rule("R-MUSTPASS", "checks placed before the first stage / after acceleration and before integration", floor=6)

    def names(evs):
        return [e[1] for e in evs if e[0] == "call"]

    for integ in ("mjINT_EULER", "mjINT_RK4", "mjINT_IMPLICIT", "mjINT_IMPLICITFAST"):
        env = {"m->opt.integrator": enum[integ]}
        for pname, fns in (("mj_step", ["mj_step"]), ("mj_step1;mj_step2", ["mj_step1", "mj_step2"])):
            if pname != "mj_step" and integ == "mjINT_RK4":
                continue
            evs = []
            for f in fns:
                evs += [e for e in F.flatten(uf.funcs[f], env) if e[0] == "call" and not e[-1]]
            seq = [e[1] for e in evs]
            stages = [i for i, n in enumerate(seq) if n in ("mj_kinematics", "mj_fwdPosition", "mj_fwdKinematics")]
            integs = [i for i, n in enumerate(seq) if n in ("mj_EulerSkip", "mj_implicitSkip", "mj_RungeKutta", "mj_Euler", "mj_implicit")]
            acc = [i for i, n in enumerate(seq) if n in ("mj_fwdConstraint",)]
            problems = []
            if not stages or not integs or not acc:
                raise AnalysisError(f"{pname}[{integ}]: stage / integrator events not found in the flattened sequence")
            for chk in ("mj_checkPos", "mj_checkVel"):
                idx = [i for i, n in enumerate(seq) if n == chk]
                if not idx or idx[0] > stages[0]:
                    problems.append(f"{chk} does not precede the first position-stage call")
            idx = [i for i, n in enumerate(seq) if n == "mj_checkAcc"]
            if not idx or not (acc[-1] < idx[0] < integs[0]):
                problems.append("mj_checkAcc is not between the acceleration stage and the integrator")
            construct = f"{pname}:{integ}"
            if problems:
                res.bad("R-MUSTPASS", construct, FWD, uf.funcs[fns[0]].get("line"), "; ".join(problems))
            else:
                res.ok("R-MUSTPASS", construct, {"order": [n for n in seq if n.startswith("mj_check") or n in ("mj_kinematics", "mj_fwdConstraint") or "Skip" in n or n == "mj_RungeKutta"]})

    # ------------------------------------------------------------------ R-CHECK
    res.rule("R-CHECK", "each check: whole vector scanned, bad branch warns, resets under the autoreset guard, re-counts, returns", floor=3)
    want = {"mj_checkPos": ("qpos", "mjWARN_BADQPOS"), "mj_checkVel": ("qvel", "mjWARN_BADQVEL"), "mj_checkAcc": ("qacc", "mjWARN_BADQACC")}
    from .. import norm, linform as _lf
    from .c26 import counted_loop
    AUTORESET = "m->opt.disableflags & mjDSBL_AUTORESET"
    for fname, (field, warn) in want.items():
        # canonical view: static helpers analysed in place, early exits nested.  A helper that searches (returns from inside
        # its loop) stays a call; its result then stands for "a bad value was found" (see found_result below).
        fn = norm.canon(uf, fname)
        body = cir.body(fn)
        problems = []
        closure = {fname: fn}
        work = [fn]
        while work:
            f_ = work.pop()
            for c in cir.calls(f_):
                h = uf.funcs.get(cir.callee(c))
                if h is not None and h.get("storageClass") == "static" and h.get("n") not in closure:
                    closure[h.get("n")] = norm.canon(uf, h.get("n"))
                    work.append(closure[h.get("n")])
        tests = [(n_, f_, c) for n_, f_ in closure.items() for c in cir.calls(f_, "mju_isBad")]
        # the scanning test: the one applied to an array element inside a loop; any other use of mju_isBad is an ordinary
        # condition (and makes whatever it guards conditional, see "scan is unconditional" below)

        def _in_loop(f_, c):
            return any(l.get("k") in ("ForStmt", "WhileStmt", "DoStmt") and any(x is c for x in cir.walk(l)) for l in cir.walk(f_))
        scans = [t for t in tests if _in_loop(t[1], t[2]) and (cir.strip(cir.args(t[2])[0]) or {}).get("k") == "ArraySubscriptExpr"]
        if len(scans) != 1:
            raise AnalysisError(f"{fname}: expected exactly one element-wise mju_isBad scan in the function and its static helpers, "
                                f"found {len(scans)} (of {len(tests)} mju_isBad calls)")
        tname, tfn, tcall = scans[0]
        tbody = cir.body(tfn)
        # ---- what is tested: d-><field>, directly, through a local alias or through the helper's pointer parameter
        arg = cir.args(tcall)[0]
        base = cir.strip(arg)
        while base is not None and base.get("k") == "ArraySubscriptExpr":
            base = cir.strip(cir.kids(base)[0])
        src = cir.text(base)
        helper_call = None
        if tname != fname:
            hc = [c for c in cir.calls(fn, tname)]
            if len(hc) != 1:
                raise AnalysisError(f"{fname}: the scanning helper {tname} is not called exactly once")
            helper_call = hc[0]
        for _round in range(3):
            if base is not None and base.get("k") == "DeclRefExpr":
                r_ = base.get("ref") or {}
                if r_.get("k") == "ParmVarDecl" and helper_call is not None:
                    pn_ = [p_.get("n") for p_ in cir.params(uf.funcs[tname])]
                    if r_.get("n") in pn_:
                        base = cir.strip(cir.args(helper_call)[pn_.index(r_.get("n"))])
                        src = cir.text(base)
                        continue
                for x in list(cir.walk(tfn)) + list(cir.walk(fn)):
                    if x.get("k") == "VarDecl" and x.get("id") == r_.get("id") and x.get("init"):
                        base = cir.strip([c for c in cir.kids(x) if c][-1])
                        src = cir.text(base)
                        break
        if src != f"d->{field}":
            problems.append(f"tests `{src}` instead of d->{field}")
        # ---- the scan covers the whole vector: the enclosing loop counts from 0 to m->n* (or the awake count under the filter)
        loops = [n for n in cir.walk(tbody) if n.get("k") in ("ForStmt", "WhileStmt") and any(x is tcall for x in cir.walk(n))]
        if len(loops) != 1:
            problems.append("the test is not inside exactly one loop")
        else:
            lp = loops[0]
            cvars = [x for x in cir.walk(cir.kids(lp)[2] if lp.get("k") == "ForStmt" else cir.kids(lp)[0]) if x.get("k") == "DeclRefExpr"
                     and (x.get("ref") or {}).get("k") == "VarDecl"]
            cl = None
            for cv in cvars:
                c_ = counted_loop(tbody, lp, cv["ref"]["id"])
                if not c_["problems"] and c_["bound"] is not None:
                    cl = c_
                    break
            if cl is None:
                problems.append("the scan loop does not count a local up by one to a bound")
            else:
                decl = {x.get("n"): cir.text([c for c in cir.kids(x) if c][-1]) for x in cir.walk(tfn) if x.get("k") == "VarDecl" and x.get("init")}
                lim = decl.get(cl["bound"], cl["bound"])
                full = {"qpos": "m->nq", "qvel": "m->nv", "qacc": "m->nv"}[field]
                if not (lim == full or (full in lim and "awake" in lim)):
                    problems.append(f"loop bound `{cl['bound']}` (= {lim}) does not cover {full}")
                if cl["start"] != "0":
                    problems.append(f"scan starts at `{cl['start']}`, not 0")
        # ---- the scan is unconditional: nothing but the function's own entry decides whether the vector is scanned
        if len(loops) == 1:
            lg = [(cir.text(c_), p_) for c_, p_, st_ in (norm.guards(tbody, loops[0], stmts=True) or [])
                  if not (st_ is not None and st_.get("k") in ("ForStmt", "WhileStmt", "DoStmt"))]
            if tname != fname:
                hc_ = [c for c in cir.calls(fn, tname)]
                if hc_:
                    lg += [(cir.text(c_), p_) for c_, p_ in (norm.guards(body, hc_[0]) or [])]
            if lg:
                problems.append("the scan is skipped unless " + " && ".join((a if p_ else f"!({a})") for a, p_ in lg[:3]) +
                                ": a bad value the shortcut does not see (e.g. a NaN masked by a later finite entry in a max-reduction) "
                                "is never reported")
        # ---- which guards mean "a bad value was found"
        found_var = None
        none_val = None
        if helper_call is not None:
            hraw = closure[tname]
            hb = cir.body(hraw)
            lits = set()
            okh = True
            for r_ in cir.walk(hb):
                if r_.get("k") != "ReturnStmt" or not cir.kids(r_):
                    continue
                gs = [(cir.text(c_), p_) for c_, p_ in (norm.guards(hb, r_) or [])]
                if any(t.startswith("mju_isBad(") and p_ for t, p_ in gs):
                    continue
                v_ = F.ceval(cir.kids(r_)[0], {})
                if v_ is None:
                    okh = False
                lits.add(v_)
            if not okh or len(lits) != 1:
                raise AnalysisError(f"{tname}: cannot summarise the scan result (not-found returns {sorted(map(str, lits))})")
            none_val = lits.pop()
            for x in cir.walk(fn):
                if x.get("k") == "VarDecl" and x.get("init") and any(y is helper_call for y in cir.walk(x)):
                    found_var = x.get("n")
                elif x.get("k") == "BinaryOperator" and x.get("op") == "=" and any(y is helper_call for y in cir.walk(cir.kids(x)[1])):
                    found_var = cir.text(cir.kids(x)[0])
            if found_var is None:
                raise AnalysisError(f"{fname}: the result of {tname} is not bound to a local")

        def split_guards(n):
            """(is a bad path, extra atoms beyond loop conditions and the badness test)"""
            bad_, extra = False, []
            contradiction = False
            for c_, pol, st_ in norm.guards(body if helper_call is not None or tname == fname else tbody, n, stmts=True) or ():
                if st_ is not None and st_.get("k") in ("ForStmt", "WhileStmt", "DoStmt"):
                    continue
                t = cir.text(c_)
                if t.startswith("mju_isBad("):
                    if pol:
                        bad_ = True
                    else:
                        contradiction = True
                    continue
                if found_var is not None and cir.vars_in(c_) == {found_var}:
                    at_none = F.ceval(c_, {found_var: none_val})
                    at_zero = F.ceval(c_, {found_var: 0})
                    if at_none is not None and at_zero is not None and bool(at_none) != pol and bool(at_zero) == pol:
                        bad_ = True
                        continue
                    if at_none is not None and bool(at_none) == pol and at_zero is not None and bool(at_zero) != pol:
                        contradiction = True
                        continue
                extra.append((t, pol))
            return (bad_ and not contradiction), extra
        evs = []      # (kind, node, extra guards) of the bad region, in execution order
        for n in cir.walk(body):
            k_ = n.get("k")
            kind = None
            if cir.is_call(n) and cir.callee(n) in ("mj_warning", "mj_resetData", "mj_forward"):
                kind = cir.callee(n)
            elif k_ == "UnaryOperator" and n.get("op") == "++" and cir.text(cir.kids(n)[0]) == f"d->warning[{warn}].number":
                kind = "count"
            elif k_ == "CompoundAssignOperator" and cir.text(cir.kids(n)[0]) == f"d->warning[{warn}].number":
                kind = "count"
            elif k_ == "ReturnStmt":
                kind = "return"
            if kind is None:
                continue
            isbad, extra = split_guards(n)
            if isbad:
                evs.append((kind, n, tuple(extra)))
        kinds = [e[0] for e in evs]
        guard = ((AUTORESET, False),)

        def first(kind, g=None):
            for i, e in enumerate(evs):
                if e[0] == kind and (g is None or e[2] == g):
                    return i
            return None
        iw = first("mj_warning", ())
        if iw is None or cir.text(cir.args(evs[iw][1])[1]) != warn:
            problems.append(f"bad branch does not raise mj_warning(d, {warn}, ...) unconditionally")
        ir = first("mj_resetData", guard)
        if ir is None:
            problems.append("mj_resetData is not guarded exactly by !mjDISABLED(mjDSBL_AUTORESET)")
        elif iw is not None and ir < iw:
            problems.append("reset happens before the warning is raised")
        ic = [i for i, e in enumerate(evs) if e[0] == "count" and e[2] == ()]
        if not ic or (ir is not None and max(ic) < ir):
            problems.append(f"the warning counter d->warning[{warn}].number is not re-incremented after the reset (reset zeroes it)")
        in_loop_bad = helper_call is None
        if in_loop_bad and first("return", ()) is None:
            problems.append("bad branch does not return (bad values would be scanned/propagated further)")
        if fname == "mj_checkAcc":
            if_ = first("mj_forward", guard)
            if if_ is None or (ir is not None and if_ < ir):
                problems.append("mj_checkAcc does not recompute mj_forward after the reset under the same guard")
        if problems:
            res.bad("R-CHECK", fname, FWD, tcall.get("line"), "; ".join(problems))
        else:
            res.ok("R-CHECK", fname, {"events": [f"{e[0]}" + (f" [if {' && '.join((a if p else '!(' + a + ')') for a, p in e[2])}]" if e[2] else "")
                                                 for e in evs][:8], "scan_in": tname})

    # ------------------------------------------------------------------ R-FINITE
    res.rule("R-FINITE", "mju_isBad truth table", floor=8)
    from .. import norm
    fn = norm.canon(um, "mju_isBad", propagate=True, nested=False)      # named sub-expressions substituted
    rets = [n for n in cir.walk(fn) if n.get("k") == "ReturnStmt"]
    if len(rets) != 1:
        raise AnalysisError("mju_isBad: expected a single return expression")
    par = cir.params(fn)[0].get("n")
    MAXV = 1e10
    # read mjMAXVAL from the literal the macro expanded to
    lits = [float(str(x.get("v"))) for x in cir.walk(rets[0]) if x.get("k") == "FloatingLiteral"]
    if lits:
        MAXV = max(lits)
    cases = {"NaN": (float("nan"), True), "-inf": (float("-inf"), True), "below -MAX": (-MAXV * 2, True), "-MAX": (-MAXV, False),
             "zero": (0.0, False), "MAX": (MAXV, False), "above MAX": (MAXV * 2, True), "+inf": (float("inf"), True)}
    for name, (v, want_bad) in cases.items():
        got = bool(feval(cir.kids(rets[0])[0], {par: v}))
        if got == want_bad:
            res.ok("R-FINITE", f"mju_isBad:{name}", {"bad": got})
        else:
            res.bad("R-FINITE", f"mju_isBad:{name}", "src/engine/engine_util_misc.c", rets[0].get("line"),
                    f"mju_isBad({name}) evaluates to {got}; documented: bad iff NaN or |x| > mjMAXVAL")

    # ------------------------------------------------------------------ R-COUNTER
    res.rule("R-COUNTER", "mj_warning increments its counter on every returning path", floor=1)

    class Inc(paths.Rule):
        def initial(self, fn):
            return False

        def assign(self, st, node, ctx):
            if node.get("k") == "UnaryOperator" and node.get("op") == "++" and cir.text(cir.kids(node)[0]).endswith(".number") \
                    and cir.text(cir.kids(node)[0]).startswith("d->warning["):
                return True
            if node.get("k") == "CompoundAssignOperator" and cir.text(cir.kids(node)[0]).endswith(".number"):
                return True
            return st

        def ret(self, st, node, ctx):
            if not st:
                ctx.report(node, "return without incrementing the warning counter")

        def fallthrough(self, st, ctx):
            if not st:
                ctx.report(ctx.fn, "function end reached without incrementing the warning counter")
    ctx = paths.explore(Inc(), uc, uc.funcs["mj_warning"])
    if ctx.reports:
        res.bad("R-COUNTER", "mj_warning", "src/engine/engine_core_util.c", ctx.reports[0]["line"], ctx.reports[0]["msg"])
    else:
        res.ok("R-COUNTER", "mj_warning", None)
    wake_nan(res)
    res.explanation = (
        "Placement of the three state checks in the flattened stepping pipelines (all integrators), shape of each check on "
        "all paths of its bad branch (warning, guarded reset, re-count, return, recompute), exhaustive finite evaluation of "
        "mju_isBad over IEEE order types, counter increment on all returning paths of mj_warning.")
    res.not_decided = "finiteness of every state component after a step (value-level); quantities that no check inspects."
    res.assumptions = ["error handlers do not return"]
