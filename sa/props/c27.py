"""C27 Actuation follows the documented transmission and force laws (clamps, disabled groups, index spaces).

Decided, all inside mj_fwdActuation (engine_forward.c) unless stated:
  R-CTRL-COPY   d->ctrl is read only to fill the local copy (directly, or through a callee whose closure reads d->ctrl
                and whose value is stored into the copy); no other callee that receives `d` reads d->ctrl
  R-MUSTPASS    ctrl:   on every path from the completed copy to any other use of the copy lies the call
                        clamp(copy, m->actuator_ctrlrange, m->actuator_ctrllimited) (callee verified to clip vec[j] to
                        range[2i], range[2i+1] under limited[i]); the only paths around it are those on which
                        mjDSBL_CLAMPCTRL is set; the bad-value scan (mju_isBad on the copy => mj_warning(mjWARN_BADCTRL)
                        and zeroing of the copy) also precedes every use
                force:  the forcerange clamp loop (store of mju_clip(f, forcerange..) under actuator_forcelimited) is
                        passed on every path before the moment-transpose product that computes qfrc_actuator; after it
                        actuator_force is written only by the named DC-motor mechanical-force loop
                joint:  on every path that computes qfrc_actuator the call clamp(d->qfrc_actuator, m->jnt_actfrcrange,
                        m->jnt_actfrclimited) is passed afterwards and nothing writes qfrc_actuator after it
  R-DISABLED    every write of actuator_force (other than the initial clear) happens where mj_actuatorDisabled(m, i)
                is known false for the current i, or is zero-preserving (in-place scaling)
  R-INDEXDIM    engine_forward.c: every subscript / pointer offset of an array whose X-macro row dimension is nu, nout or
                na (and of stack copies sized by them) is derived from the matching address array or a loop over that
                dimension (plus counts/constants); nactuator arrays are not indexed by such values
Not decided: gain/bias/dynamics formulas, transmission (mj_transmission), muscle curves, activation clamp (C05),
plugins' handling of disabled actuators, callbacks.
"""
from __future__ import annotations

import re

from .. import callgraph, cir, engine, modref, paths, r_misc, xmacro
from ..cfront import AnalysisError

FWD = "src/engine/engine_forward.c"
FN = "mj_fwdActuation"

# loops that may write actuator_force after the forcerange clamp: keyed by the enumerator their body is restricted to
POST_CLAMP_WRITERS = {
    "mjBIAS_DCMOTOR": "DC motor mechanical forces (cogging torque, LuGre friction) are documented as not subject to the "
                      "force (current) limit",
}
# in-place scaling helpers: res == vec => zero stays zero
SCALING_CALLS = {"mju_scl3": (0, 1), "mju_scl": (0, 1)}
ZEROING_CALLS = {"mju_zero", "mju_zero3", "memset"}
# struct types whose integer members are offsets inside one actuator's block (not elements of an index space)
OFFSET_STRUCTS = {
    "mjDCMotorSlots": "slot offsets inside the actuator's activation block, bounded by num_slots == actuator_actnum[i]",
}


# ---------------------------------------------------------------------------------------------------------------


def _mfield(e, struct):
    rf = modref.root_field(e) if e is not None else None
    return rf[1] if rf and rf[0] == struct else None


class Shape:
    """static facts about mj_fwdActuation used by the path rules"""

    def __init__(self, unit, fn):
        self.unit = unit
        self.fn = fn
        self.defs = r_misc.local_defs(fn)
        self.force_alias = r_misc.aliases(fn, "mjData", "actuator_force", self.defs)
        self.range_alias = r_misc.aliases(fn, "mjModel", "actuator_forcerange", self.defs)

    # ---- control copy
    def find_copy(self, ctrl_reader_calls):
        """local variables filled from d->ctrl, the nodes that fill them, d->ctrl reads that do anything else"""
        fn = self.fn
        makes, stray = [], []
        covered = set()
        copy_vars = set()
        for n in cir.walk(fn):
            if cir.is_call(n) and cir.callee(n) in ("mju_copy", "memcpy", "mju_copy3", "mju_copy4"):
                a = cir.args(n)
                if len(a) >= 2 and _mfield(a[1], "mjData") == "ctrl" and _mfield(a[0], "mjData") is None:
                    v = r_misc.ref_id(a[0])
                    if v in self.defs.names:
                        copy_vars.add(v)
                        makes.append((n, a[0]))
                        covered |= r_misc.node_ids(a[1])
            elif n.get("k") == "BinaryOperator" and n.get("op") == "=":
                lhs, rhs = cir.kids(n)
                v = r_misc.ref_id(lhs)
                if v in self.defs.names and _mfield(lhs, "mjData") is None and cir.strip(lhs).get("k") != "DeclRefExpr":
                    direct = list(r_misc.member_nodes(rhs, "mjData", "ctrl"))
                    s = cir.strip(rhs)
                    via = cir.is_call(s) and cir.callee(s) in ctrl_reader_calls
                    if (direct and cir.strip(rhs).get("k") in ("ArraySubscriptExpr", "UnaryOperator")) or via:
                        copy_vars.add(v)
                        makes.append((n, lhs))
                        covered |= r_misc.node_ids(rhs)
        for x in r_misc.member_nodes(fn, "mjData", "ctrl"):
            if id(x) not in covered:
                stray.append(x)
        return copy_vars, makes, stray

    def is_force(self, e):
        if e is None:
            return False
        if _mfield(e, "mjData") == "actuator_force":
            return True
        rf = modref.root_field(e)
        return rf is None and r_misc.ref_id(e) in self.force_alias

    def is_forcerange(self, e):
        if _mfield(e, "mjModel") == "actuator_forcerange":
            return True
        return modref.root_field(e) is None and r_misc.ref_id(e) in self.range_alias

    def force_write(self, n):
        """kind of write of actuator_force performed by node n itself: 'store', 'scale', 'zero', 'call:<name>' or None"""
        if r_misc.is_assign(n):
            lhs = cir.kids(n)[0]
            s = cir.strip(lhs)
            if s is not None and s.get("k") != "DeclRefExpr" and self.is_force(lhs):
                if n.get("k") == "CompoundAssignOperator" and n.get("op") in ("*=", "/="):
                    return "scale"
                rhs = cir.strip(cir.kids(n)[1]) if n.get("k") == "BinaryOperator" else None
                if rhs is not None and cir.is_call(rhs) and cir.callee(rhs) == "mju_clip":
                    return "store:mju_clip"
                return "store"
            return None
        if cir.is_call(n):
            name = cir.callee(n)
            ce = cir.callee_expr(n)
            pt = modref._param_types((ce.get("ref") or {}).get("t") if ce is not None and ce.get("k") == "DeclRefExpr"
                                     else (ce.get("t") if ce is not None else None))
            for i, a in enumerate(cir.args(n)):
                s = cir.strip(a)
                if s is None or "*" not in (s.get("t") or ""):
                    continue
                if not self.is_force(a):
                    continue
                if i < len(pt) and modref._const_pointee(pt[i]):
                    continue
                if name in ZEROING_CALLS and i == 0:
                    return "zero"
                if name in SCALING_CALLS and i == SCALING_CALLS[name][0]:
                    j = SCALING_CALLS[name][1]
                    if cir.text(cir.args(n)[j]) == cir.text(a):
                        return "scale"
                return f"call:{name}"
        return None


def flag_polarity(cond, defs, flag):
    """+1 if cond true implies the disable flag is set, -1 if cond true implies it is clear, None if unrelated."""
    s = r_misc.resolve(cond, defs)
    pol = 1
    while s is not None:
        if s.get("k") == "UnaryOperator" and s.get("op") == "!":
            pol = -pol
            s = r_misc.resolve(cir.kids(s)[0], defs)
            continue
        if s.get("k") == "BinaryOperator" and s.get("op") in ("!=", "==") and cir.text(cir.kids(s)[1]) == "0":
            if s.get("op") == "==":
                pol = -pol
            s = r_misc.resolve(cir.kids(s)[0], defs)
            continue
        break
    if s is not None and s.get("k") == "BinaryOperator" and s.get("op") == "&" and flag in r_misc.enum_refs(s) and \
            "disableflags" in cir.text(s) and len(r_misc.enum_refs(s)) == 1:
        return pol
    return None


def clamp_call(call, unit, vec_pred, range_field, limited_field):
    """is `call` f(vec, m-><range_field>, m-><limited_field>, ...) with f verified to clamp vec by range under limited"""
    if not cir.is_call(call):
        return False
    fn = unit.funcs.get(cir.callee(call))
    if fn is None:
        return False
    shape = r_misc.clamp_shape(fn)
    if shape is None:
        return False
    ps = [p.get("n") for p in cir.params(fn)]
    a = cir.args(call)
    if len(a) < len(ps):
        return False
    bind = dict(zip(ps, a))
    vec, rng, lim = shape
    return vec_pred(bind[vec]) and _mfield(bind[rng], "mjModel") == range_field and \
        _mfield(bind[lim], "mjModel") == limited_field and cir.strip(bind[rng]).get("k") == "MemberExpr" and \
        cir.strip(bind[lim]).get("k") == "MemberExpr"


# ---------------------------------------------------------------------------------------------------------------
# path rules


class CtrlClamp(paths.Rule):
    """state: (copied, clamped, disabled, badchk)"""
    use_kinds = frozenset({"DeclRefExpr"})

    def __init__(self, sh, copy_vars, makes, clamp_ids, exempt, copy_loops, bad_loops, bad_ids):
        self.sh, self.copy_vars, self.clamp_ids, self.exempt = sh, copy_vars, clamp_ids, exempt
        self.make_ids = {id(n) for n, _ in makes}
        self.copy_loops, self.bad_loops, self.bad_ids = copy_loops, bad_loops, bad_ids

    def initial(self, fn):
        return (False, False, False, False)

    def use(self, st, node, ctx):
        if (node.get("ref") or {}).get("id") in self.copy_vars and id(node) not in self.exempt:
            self._use(st, node, ctx)
        return st

    def _use(self, st, node, ctx):
        if not st[0]:
            ctx.report(node, "the local control copy is used before it has been filled from d->ctrl", kind="copy")
        if not (st[1] or st[2]):
            ctx.report(node, "the local control copy is used on a path that neither passed the ctrlrange clamp nor has "
                       "mjDSBL_CLAMPCTRL set: an out-of-range control reaches the force computation", kind="clamp")
        if not st[3]:
            ctx.report(node, "the local control copy is used on a path that skipped the bad-value scan (mju_isBad => "
                       "mjWARN_BADCTRL, zero the copy): a NaN/huge control reaches the force computation", kind="badcheck")

    def call(self, st, node, name, ctx):
        if id(node) in self.make_ids:
            return (st[0], False, st[2], False)
        if id(node) in self.clamp_ids:
            return (st[0], st[0], st[2], st[3])
        return st

    def assign(self, st, node, ctx):
        if id(node) in self.make_ids:
            return (st[0], False, st[2], False)
        return st

    def branch(self, st, cond, taken, ctx):
        p = flag_polarity(cond, self.sh.defs, "mjDSBL_CLAMPCTRL")
        if p is not None:
            isset = taken if p > 0 else (not taken)
            if st[2] and not isset:
                return None
            return (st[0], st[1], isset, st[3])
        return st

    def loop_exit(self, st, node, ctx):
        if id(node) in self.copy_loops:
            st = (True, st[1], st[2], st[3])
        if id(node) in self.bad_loops:
            st = (st[0], st[1], st[2], st[0])
        return st


class ForceClamp(paths.Rule):
    """state: (fclamp, q) ; q in None / zero / computed / clamped"""

    def __init__(self, sh, clamp_loops, allowed_ids, product_ids, jclamp_ids):
        self.sh, self.clamp_loops, self.allowed_ids = sh, clamp_loops, allowed_ids
        self.product_ids, self.jclamp_ids = product_ids, jclamp_ids

    def initial(self, fn):
        return (False, None)

    def _force_write(self, st, node, ctx):
        w = self.sh.force_write(node)
        if w and w != "zero" and st[0] and id(node) not in self.allowed_ids:
            ctx.report(node, f"actuator_force is written (`{cir.text(node)[:100]}`) after the forcerange clamp: the value that "
                       f"reaches qfrc_actuator can leave forcerange", kind="write-after-clamp")

    def _q_write(self, node):
        for e in modref.events(node, {"mjData"}):
            if e["field"] == "qfrc_actuator" and e["kind"] in ("pass", "addr", "elem", "assign") and \
                    (not cir.is_call(node) or e.get("callee") == cir.callee(node)):
                return True
        return False

    def call(self, st, node, name, ctx):
        self._force_write(st, node, ctx)
        fc, q = st
        if id(node) in self.jclamp_ids:
            return (fc, "clamped" if q in ("computed", "clamped") else q)
        if id(node) in self.product_ids:
            if not fc:
                ctx.report(node, "qfrc_actuator is computed from actuator_force on a path that did not pass the forcerange "
                           "clamp loop", kind="forcerange")
            return (fc, "computed")
        if self._q_write(node):
            if q == "clamped":
                ctx.report(node, f"`{cir.text(node)[:100]}` writes qfrc_actuator after the joint-level actfrcrange clamp",
                           kind="write-after-jointclamp")
                return (fc, "computed")
            if name in ZEROING_CALLS and q is None:
                return (fc, "zero")
            return (fc, "computed")
        return st

    def assign(self, st, node, ctx):
        self._force_write(st, node, ctx)
        if node.get("k") != "VarDecl" and self._q_write(node):
            if st[1] == "clamped":
                ctx.report(node, f"`{cir.text(node)[:100]}` writes qfrc_actuator after the joint-level actfrcrange clamp",
                           kind="write-after-jointclamp")
            return (st[0], "computed")
        return st

    def loop_exit(self, st, node, ctx):
        if id(node) in self.clamp_loops:
            return (True, st[1])
        return st

    def _exit(self, st, node, ctx):
        if st[1] == "computed":
            ctx.report(node, "the function returns with qfrc_actuator computed but not clamped to jnt_actfrcrange",
                       kind="jointclamp")
        elif st[1] is None:
            ctx.report(node, "the function returns without writing qfrc_actuator", kind="jointclamp")

    def ret(self, st, node, ctx):
        self._exit(st, node, ctx)

    def fallthrough(self, st, ctx):
        self._exit(st, ctx.fn, ctx)


class DisabledSkip(paths.Rule):
    """state: (status, var) ; status in unknown / no / yes for `mj_actuatorDisabled(m, var)`"""

    def __init__(self, sh):
        self.sh = sh

    def initial(self, fn):
        return ("unknown", None)

    def branch(self, st, cond, taken, ctx):
        s = cir.strip(cond)
        if cir.is_call(s) and cir.callee(s) == "mj_actuatorDisabled":
            a = cir.args(s)
            return ("yes" if taken else "no", cir.text(a[1]) if len(a) > 1 else None)
        return st

    def _w(self, st, node, ctx):
        w = self.sh.force_write(node)
        if w and w not in ("zero", "scale") and st[0] != "no":
            ctx.report(node, f"`{cir.text(node)[:110]}` writes actuator_force where mj_actuatorDisabled(m, i) has not been "
                       f"excluded: an actuator of a disabled group can end up with a non-zero force", kind=w)

    def call(self, st, node, name, ctx):
        self._w(st, node, ctx)
        return st

    def assign(self, st, node, ctx):
        self._w(st, node, ctx)
        tgt = node.get("n") if node.get("k") == "VarDecl" else cir.text(cir.kids(node)[0])
        if st[1] is not None and tgt == st[1]:
            return ("unknown", None)
        return st



# ---------------------------------------------------------------------------------------------------------------


def loops_containing(fn, pred):
    out = []
    for n in cir.walk(fn):
        if n.get("k") in ("ForStmt", "WhileStmt", "DoStmt"):
            if any(pred(x) for x in cir.walk(n)):
                out.append(n)
    return out


def innermost(loops):
    """drop loops that contain another loop of the list"""
    out = []
    for l in loops:
        ids = r_misc.node_ids(l)
        if not any(o is not l and id(o) in ids for o in loops):
            out.append(l)
    return out


def check_actuation(res, uf, g):
    # statement-level static helpers are expanded first, so that extracting a block of mj_fwdActuation into a helper does
    # not change what the rules see; the clamp primitive itself stays a call (it is recognised by shape)
    fn, inlined = r_misc.inline_helpers(uf, uf.funcs[FN], skip=lambda name, h: r_misc.clamp_shape(h) is not None)
    res.extra["inlined_helpers"] = sorted(set(inlined))
    sh = Shape(uf, fn)
    key = g.find(FN)
    # ---------------- R-CTRL-COPY
    readers = {k for k, f in g.funcs.items()
               if any(e["kind"] == "read" and e["struct"] == "mjData" and e["field"] == "ctrl" for e in f["events"])}
    via = {}
    for c in sorted({cir.callee(x) for x in cir.calls(fn) if cir.callee(x)}):
        r = g.resolve(key[0], c)
        if r is not None and r != key and (g.closure([r], indirect=False) & readers):
            via[c] = r
    copy_vars, makes, stray = sh.find_copy(set(via))
    if not copy_vars or not makes:
        raise AnalysisError(f"{FN}: the local copy of d->ctrl was not found")
    cnames = sorted(sh.defs.names[v] for v in copy_vars)
    res.extra["ctrl_copy"] = {"variables": cnames, "filled_by": sorted({cir.text(n)[:80] for n, _ in makes})}
    for n, _ in makes:
        res.ok("R-CTRL-COPY", f"{FN}:copy:{cir.callee(n) or cir.callee(cir.strip(cir.kids(n)[1])) or 'store'}",
               {"stmt": cir.text(n)[:100]})
    seen = set()
    for x in stray:
        c = f"{FN}:d->ctrl:raw-read"
        if c not in seen:
            seen.add(c)
            res.bad("R-CTRL-COPY", c, FWD, x.get("line"),
                    f"d->ctrl is read outside the statements that fill the local copy {cnames}: the value bypasses "
                    f"the ctrlrange clamp and the bad-value scan")
    # callees that get `d` and read ctrl themselves
    make_calls = {id(cir.strip(cir.kids(n)[1])) for n, _ in makes if n.get("k") == "BinaryOperator"}
    for call in cir.calls(fn):
        nm = cir.callee(call)
        if nm in via and id(call) not in make_calls:
            res.bad("R-CTRL-COPY", f"{FN}:{nm}:reads-ctrl", FWD, call.get("line"),
                    f"{nm}() reads d->ctrl (unclamped) and its result does not go into the local copy")
        elif nm in via:
            res.ok("R-CTRL-COPY", f"{FN}:{nm}:reads-ctrl", {"into": "local copy"})

    # ---------------- ctrl clamp
    def is_copy(e):
        return r_misc.ref_id(e) in copy_vars and modref.root_field(e) is None
    clamp_calls = [c for c in cir.calls(fn) if clamp_call(c, uf, is_copy, "actuator_ctrlrange", "actuator_ctrllimited")]
    exempt = set()
    for n, dst in makes:
        exempt |= r_misc.node_ids(dst)
    for c in clamp_calls:
        exempt |= r_misc.node_ids(c)
    # bad-value scan: if (mju_isBad(copy[..])) { mj_warning(d, mjWARN_BADCTRL, ..); zero(copy) }
    bad_ifs = []
    for n in cir.walk(fn):
        if n.get("k") == "IfStmt":
            cond, then, els = r_misc.if_parts(n)
            bc = [c for c in cir.calls(cond, "mju_isBad") if cir.args(c) and is_copy(cir.args(c)[0])]
            if not bc:
                continue
            top = [x for x in (cir.kids(then) if then.get("k") == "CompoundStmt" else [then]) if x is not None]
            warn = [x for x in top if cir.is_call(x) and cir.callee(x) == "mj_warning" and "mjWARN_BADCTRL" in r_misc.enum_refs(x)]
            zero = [x for x in top if cir.is_call(x) and cir.callee(x) in ZEROING_CALLS and is_copy(cir.args(x)[0])
                    and cir.strip(cir.args(x)[0]).get("k") == "DeclRefExpr"]
            if warn and zero:
                bad_ifs.append(n)
                exempt |= r_misc.node_ids(cond)
                for z in zero:
                    exempt |= r_misc.node_ids(z)
            else:
                res.bad("R-MUSTPASS", f"{FN}:ctrl:badcheck-action", FWD, n.get("line"),
                        "a bad control value is detected (mju_isBad on the copy) but the branch does not both raise "
                        "mj_warning(mjWARN_BADCTRL) and zero the whole copy")
    copy_loops = {id(l) for l in innermost(loops_containing(fn, lambda x: any(x is m_ for m_, _ in makes)))}
    bad_loops = {id(l) for l in innermost(loops_containing(fn, lambda x: any(x is b for b in bad_ifs)))}
    if not copy_loops:
        raise AnalysisError(f"{FN}: the loop filling the control copy was not found")
    rule = CtrlClamp(sh, copy_vars, makes, {id(c) for c in clamp_calls}, exempt, copy_loops, bad_loops, set())
    ctx = paths.explore(rule, uf, fn)
    kinds = {}
    for r in ctx.reports:
        kinds.setdefault(r.get("kind"), r)
    for kind, what in (("copy", "copy-before-use"), ("clamp", "ctrlrange-clamp"), ("badcheck", "bad-value-scan")):
        c = f"{FN}:ctrl:{what}"
        if kind in kinds:
            res.bad("R-MUSTPASS", c, FWD, kinds[kind]["line"], kinds[kind]["msg"])
        else:
            res.ok("R-MUSTPASS", c, {"clamp_calls": [cir.text(x)[:100] for x in clamp_calls]} if kind == "clamp" else None)

    # ---------------- force clamp / joint clamp
    def clamp_store(x):
        if x.get("k") == "BinaryOperator" and x.get("op") == "=" and sh.force_write(x) == "store:mju_clip":
            a = cir.args(cir.strip(cir.kids(x)[1]))
            return len(a) == 3 and sh.is_forcerange(a[1]) and sh.is_forcerange(a[2]) and cir.text(a[1]) != cir.text(a[2])
        return False

    def limited_test(l):
        for x in cir.walk(l):
            if x.get("k") == "IfStmt" and "actuator_forcelimited" in r_misc.field_reads(r_misc.if_parts(x)[0], "mjModel"):
                return True
        return False
    cl = [l for l in loops_containing(fn, clamp_store) if limited_test(l)]
    # outermost loops among them (the per-actuator loop)
    outer = [l for l in cl if not any(o is not l and id(l) in r_misc.node_ids(o) for o in cl)]
    allowed_ids = set()
    allowed = []
    for l in cir.walk(fn):
        if l.get("k") != "ForStmt":
            continue
        body = (list(cir.kids(l)) + [None] * 5)[4]
        for st in (cir.kids(body) if body is not None and body.get("k") == "CompoundStmt" else []):
            if st is not None and st.get("k") == "IfStmt":
                cond, then, els = r_misc.if_parts(st)
                s = cir.strip(cond)
                if r_misc.ends_path(then) == "ContinueStmt" and s is not None and s.get("k") == "BinaryOperator" and \
                        s.get("op") == "!=" and r_misc.enum_refs(s) & set(POST_CLAMP_WRITERS) and \
                        "actuator_biastype" in r_misc.field_reads(s, "mjModel"):
                    allowed.append((l, sorted(r_misc.enum_refs(s))[0]))
                    allowed_ids |= r_misc.node_ids(l)
    product = []
    for c in cir.calls(fn):
        a = cir.args(c)
        if a and _mfield(a[0], "mjData") == "qfrc_actuator" and any(sh.is_force(x) and "*" in ((cir.strip(x) or {}).get("t") or "")
                                                                     for x in a[1:]):
            product.append(c)
    if not product:
        raise AnalysisError(f"{FN}: the product computing qfrc_actuator from actuator_force was not found")
    jclamp = [c for c in cir.calls(fn)
              if clamp_call(c, uf, lambda e: _mfield(e, "mjData") == "qfrc_actuator", "jnt_actfrcrange", "jnt_actfrclimited")]
    rule = ForceClamp(sh, {id(l) for l in outer}, allowed_ids, {id(c) for c in product}, {id(c) for c in jclamp})
    ctx = paths.explore(rule, uf, fn)
    kinds = {}
    for r in ctx.reports:
        kinds.setdefault(r.get("kind"), r)
    for kind, what in (("forcerange", "forcerange-clamp"), ("write-after-clamp", "actuator_force:write-after-clamp"),
                       ("jointclamp", "jnt_actfrcrange-clamp"), ("write-after-jointclamp", "qfrc_actuator:write-after-clamp")):
        c = f"{FN}:{what}"
        if kind in kinds:
            res.bad("R-MUSTPASS", c, FWD, kinds[kind]["line"], kinds[kind]["msg"])
        else:
            res.ok("R-MUSTPASS", c, None)
    res.extra["post_clamp_force_writers"] = {e: POST_CLAMP_WRITERS[e] for _, e in allowed}
    res.extra["forcerange_clamp_loops"] = len(outer)

    # ---------------- disabled groups
    ctx = paths.explore(DisabledSkip(sh), uf, fn)
    nwrites = sum(1 for n in cir.walk(fn) if sh.force_write(n) not in (None, "zero", "scale"))
    if nwrites < 4:
        raise AnalysisError(f"{FN}: only {nwrites} writes of actuator_force found")
    flagged = {(r["line"], r.get("kind")) for r in ctx.reports}
    reported = set()
    for n in cir.walk(fn):
        w = sh.force_write(n)
        if w in (None, "zero", "scale"):
            continue
        c = f"{FN}:actuator_force:{w}"
        if (n.get("line"), w) in flagged:
            if c not in reported:
                reported.add(c)
                msg = [r["msg"] for r in ctx.reports if r["line"] == n.get("line") and r.get("kind") == w][0]
                res.bad("R-DISABLED", c, FWD, n.get("line"), msg)
        else:
            res.ok("R-DISABLED", c, None)


# ---------------------------------------------------------------------------------------------------------------
# R-INDEXDIM


def indexdim(res, uf):
    refs = r_misc.references()
    for need in ("actuator_ctrladr", "actuator_outadr", "actuator_actadr"):
        if need not in refs:
            raise AnalysisError(f"{need} not found in MJMODEL_REFERENCES")
    adr_dim = {a: cod for a, (dom, cod, cnt) in refs.items() if dom == "nactuator" and cnt}
    count_arrays = {cnt for a, (dom, cod, cnt) in refs.items() if dom == "nactuator" and cnt}
    io = set(adr_dim.values())
    if not {"nu", "nout", "na"} <= io:
        raise AnalysisError(f"actuator I/O dimensions missing from MJMODEL_REFERENCES: {sorted(io)}")
    dims = {}
    ncol = {}
    for table in ("MJMODEL_POINTERS", "MJDATA_POINTERS"):
        for r in xmacro.pointers(table):
            dims[r["name"]] = r["nr"]
            if str(r.get("nc", "")).isdigit():
                ncol[r["name"]] = int(r["nc"])
    for need, d in (("ctrl", "nu"), ("act", "na"), ("act_dot", "na")):
        if dims.get(need) != d:
            raise AnalysisError(f"X-macro row dimension of {need} is {dims.get(need)}, expected {d}")
    if dims.get("actuator_force") not in io:
        raise AnalysisError("actuator_force is not dimensioned by an actuator I/O size")
    res.extra["row_dimensions"] = {k: v for k, v in sorted(dims.items()) if v in io}
    res.extra["address_arrays"] = adr_dim
    res.extra["offset_structs"] = OFFSET_STRUCTS
    want_adr = {d: a for a, d in adr_dim.items()}
    sizes = set(xmacro.sizes())
    nsites = 0
    nparam_sites = [0]
    _pv = {}

    def _prov_of(fname):
        if fname not in _pv:
            f_ = uf.funcs[fname]
            _pv[fname] = r_misc.Prov(f_, adr_dim, count_arrays, sizes, r_misc.local_defs(f_), OFFSET_STRUCTS)
        return _pv[fname]

    def _resolve_params(p, fname, depth=0):
        """a parameter of a static helper has the provenance of the arguments its callers (same TU) pass for it"""
        if not any(t.startswith("param:") for t in p):
            return p
        f_ = uf.funcs.get(fname)
        if f_ is None or f_.get("storageClass") != "static" or depth > 3:
            return p
        pnames = [q.get("n") for q in cir.params(f_)]
        out = {t for t in p if not t.startswith("param:")}
        for t in p:
            if not t.startswith("param:"):
                continue
            pn = t[6:]
            if pn not in pnames:
                out.add(t)
                continue
            i_ = pnames.index(pn)
            found = False
            for cname, cfn in uf.funcs.items():
                if cname == fname:
                    continue
                for c in cir.calls(cfn, fname):
                    a_ = cir.args(c)
                    if i_ < len(a_):
                        found = True
                        out |= _resolve_params(_prov_of(cname).prov(a_[i_]), cname, depth + 1)
            if not found:
                out.add(t)
        return out
    for name, fn in sorted(uf.funcs.items()):
        if (fn.get("file") or uf.tu) != uf.tu:
            continue
        defs = r_misc.local_defs(fn)
        # local arrays: aliases of dimensioned fields and stack copies sized by an I/O dimension (keyed by decl id)
        local_dim = {}
        local_off = {}
        sites = []
        for n in cir.walk(fn):
            if n.get("k") == "VarDecl" and "*" in (n.get("t") or ""):
                ds = dict.get(defs, n.get("id")) or []
                if len(ds) != 1 or ds[0][0] != "init":
                    continue
                i = ds[0][1]
                s = cir.strip(i)
                rf = modref.root_field(s) if s is not None else None
                if rf and rf[0] in ("mjModel", "mjData") and dims.get(rf[1]) in io and s.get("k") in ("MemberExpr", "BinaryOperator"):
                    local_dim[n.get("id")] = (dims[rf[1]], rf[1])
                    if s.get("k") == "BinaryOperator":
                        local_off[n.get("id")] = cir.kids(s)[1]
                else:
                    for x in cir.walk(i):
                        if x.get("k") == "BinaryOperator" and x.get("op") == "*" and \
                                any((cir.strip(y) or {}).get("k") == "UnaryExprOrTypeTraitExpr" for y in cir.kids(x)):
                            other = [y for y in cir.kids(x) if (cir.strip(y) or {}).get("k") != "UnaryExprOrTypeTraitExpr"]
                            if other:
                                o = r_misc.resolve(other[0], defs)
                                if o is not None and o.get("k") == "MemberExpr" and o.get("arrow") and o.get("n") in io:
                                    local_dim[n.get("id")] = (o.get("n"), f"local {n.get('n')}[{o.get('n')}]")
        # alias of alias (f = force + outadr)
        changed = True
        while changed:
            changed = False
            for n in cir.walk(fn):
                if n.get("k") == "VarDecl" and "*" in (n.get("t") or "") and n.get("id") not in local_dim:
                    ds = dict.get(defs, n.get("id")) or []
                    if len(ds) != 1 or ds[0][0] != "init":
                        continue
                    s = cir.strip(ds[0][1])
                    if s is not None and modref.root_field(s) is None and r_misc.ref_id(s) in local_dim and \
                            s.get("k") in ("DeclRefExpr", "BinaryOperator"):
                        local_dim[n.get("id")] = local_dim[r_misc.ref_id(s)]
                        if s.get("k") == "BinaryOperator":
                            local_off[n.get("id")] = cir.kids(s)[1]
                        elif r_misc.ref_id(s) in local_off:
                            local_off[n.get("id")] = local_off[r_misc.ref_id(s)]
                        changed = True

        def array_of(base):
            b = cir.strip(base)
            if b is None:
                return None
            if b.get("k") == "MemberExpr" and b.get("arrow"):
                st = modref._struct_of((cir.strip(cir.kids(b)[0]) or {}).get("t")) if cir.kids(b) else None
                if st in ("mjModel", "mjData") and dims.get(b.get("n")) in io | {"nactuator"}:
                    return dims[b.get("n")], b.get("n"), None
                return None
            if b.get("k") == "DeclRefExpr" and (b.get("ref") or {}).get("id") in local_dim:
                v = b["ref"]["id"]
                return local_dim[v][0], local_dim[v][1], local_off.get(v)
            return None
        for n in cir.walk(fn):
            if n.get("k") == "ArraySubscriptExpr":
                a = array_of(cir.kids(n)[0])
                if a:
                    sites.append((n, a, cir.kids(n)[1]))
            elif n.get("k") == "BinaryOperator" and n.get("op") in ("+", "-") and "*" in (n.get("t") or ""):
                a = array_of(cir.kids(n)[0])
                if a:
                    sites.append((n, a, cir.kids(n)[1]))
        if not sites:
            continue
        pv = r_misc.Prov(fn, adr_dim, count_arrays, sizes, defs, OFFSET_STRUCTS)
        per = {}
        for n, (d, fld, off), idx in sites:
            nsites += 1
            p = pv.prov(idx)
            if off is not None:
                p = p | pv.prov(off)
            p = _resolve_params(p, name)
            # a parameter the function itself range-checks against m->nactuator is an actuator id
            for t in [t for t in p if t.startswith("param:")]:
                pn = t[6:]
                for x in cir.walk(fn):
                    if x.get("k") == "BinaryOperator" and x.get("op") in ("<", "<=", ">", ">=") and \
                            {cir.text(cir.strip(k_)) for k_ in cir.kids(x)} == {pn, "m->nactuator"}:
                        p = (p - {t}) | {"nactuator"}
                        break
            if any(t.startswith("param:") for t in p) and fn.get("storageClass") != "static":
                # an index handed in by the caller of an exported function: its meaning is the callers' contract
                nparam_sites[0] += 1
                continue
            if d in io:
                good = bool(p) and p <= {d}
                if not p and off is None and cir.strip(idx).get("k") == "IntegerLiteral":
                    good = False
                why = (f"`{cir.text(n)[:90]}`: {fld} has {d} rows (X-macro) but the index has provenance "
                       f"{sorted(p) or ['constant']}; it must come from m->{want_adr[d]}[id] or a loop over m->{d}. With an "
                       f"actuator whose block in that index space is not of size 1 another actuator's slot is accessed")
            else:
                wrong = p & io
                good = not wrong
                why = (f"`{cir.text(n)[:90]}`: {fld} has nactuator rows but the index runs over {sorted(wrong)}: rows are "
                       f"missed or read past the end when that dimension differs from nactuator")
            # stride: an array with nc > 1 columns is addressed as nc*row + column; a single index variable with coefficient 1
            # addresses element `row` of the flattened array, i.e. row/nc, column row%nc
            ncols = ncol.get(fld)
            if good and ncols and ncols > 1 and off is None and p and p <= (io | {"nactuator"}):
                # (only an index known to be a row id of the actuator family: a flat loop over all entries is not one)
                from .. import linform as _lf
                try:
                    lf_ = _lf.linform(idx, {})
                except Exception:
                    lf_ = None
                if lf_:
                    terms = {k_: v_ for k_, v_ in lf_.items() if k_ != "1"}
                    if len(terms) == 1 and list(terms.values())[0] == 1 and re.fullmatch(r"[A-Za-z_]\w*", list(terms)[0] or ""):
                        good = False
                        why = (f"`{cir.text(n)[:90]}`: {fld} has {ncols} columns per row (X-macro) but is indexed by the bare row index "
                               f"`{list(terms)[0]}`: this addresses row {list(terms)[0]}/{ncols}, column {list(terms)[0]}%{ncols}; the "
                               f"other accesses use {ncols}*row + column")
            cur = per.setdefault(fld, [True, None, None])
            if not good and cur[0]:
                per[fld] = [False, n.get("line"), why]
        for fld, (good, line, why) in sorted(per.items()):
            c = f"{name}:{fld}"
            if good:
                res.ok("R-INDEXDIM", c, {"rows": dims.get(fld, fld)})
            else:
                res.bad("R-INDEXDIM", c, uf.tu, line, why)
    res.count("index_sites", nsites)
    res.count("index_sites_left_to_callers", nparam_sites[0])
    return nsites


def run(res, tier):
    uf = engine.unit(FWD)
    if FN not in uf.funcs:
        raise AnalysisError(f"anchor {FN} missing in {FWD}")
    g = callgraph.build(reads=True)
    res.rule("R-CTRL-COPY", "d->ctrl is read only to fill the local copy", floor=2)
    res.rule("R-MUSTPASS", "ctrlrange clamp + bad-value scan before any use of the copy; forcerange clamp before the "
             "moment product; joint actfrcrange clamp before return", floor=7)
    res.rule("R-DISABLED", "actuator_force written only where the actuator is known not to be disabled (or zero-preserving)",
             floor=3)
    res.rule("R-INDEXDIM", "nu/nout/na arrays indexed through the matching address array or a loop over that dimension",
             floor=20)
    check_actuation(res, uf, g)
    indexdim(res, uf)
    # the transmission stage (moment arms, lengths) indexes the same arrays
    indexdim(res, engine.unit("src/engine/engine_core_smooth.c"))
    # the length-range computation (muscle gain / bias read actuator_lengthrange) writes the same arrays
    indexdim(res, engine.unit("src/engine/engine_setconst.c"))
    res.count("functions", len(uf.funcs))
    res.explanation = (
        "All-paths rules over mj_fwdActuation with small typestates (copy filled / clamp passed / disable flag / bad-value "
        "scan; forcerange clamp loop / moment product / joint clamp; mj_actuatorDisabled known false), with the clamp helper "
        "verified structurally and call arguments matched to the model arrays; reads of d->ctrl through the whole-engine "
        "read sets; index-space provenance of every subscript of nu/nout/na arrays in engine_forward.c against the X-macro "
        "row dimensions and MJMODEL_REFERENCES.")
    res.not_decided = ("gain/bias/dynamics formulas; mj_transmission; muscle curves; activation clamp (decided under C05); "
                       "whether actuator plugins skip disabled actuators; user callbacks.")
    res.assumptions = ["error handlers do not return", "mju_clip(x, a, b) clips x to [a, b]",
                       "callbacks mjcb_act_* and actuator plugins are external"]


_CLAMP = "  if (!mjDISABLED(mjDSBL_CLAMPCTRL)) {\n    clampVec(ctrl, m->actuator_ctrlrange, m->actuator_ctrllimited, nu, NULL);\n  }\n"
MUTANTS = [
    {"id": "drop-ctrl-clamp", "expect": ("R-MUSTPASS", "ctrlrange-clamp"), "edits": [(FWD, _CLAMP, "")]},
    {"id": "drop-clamp-guard", "expect": ("R-MUSTPASS", "ctrlrange-clamp"),
     "edits": [(FWD, "  if (!mjDISABLED(mjDSBL_CLAMPCTRL)) {\n    clampVec(ctrl,", "  if (!mjDISABLED(mjDSBL_CLAMPCTRL) && nu > 1) {\n    clampVec(ctrl,")]},
    {"id": "wrong-clamp-flag", "expect": ("R-MUSTPASS", "ctrlrange-clamp"),
     "edits": [(FWD, "  if (!mjDISABLED(mjDSBL_CLAMPCTRL)) {\n    clampVec(ctrl,", "  if (!mjDISABLED(mjDSBL_ACTUATION)) {\n    clampVec(ctrl,"),
               (FWD, "  if (nactuator == 0 || mjDISABLED(mjDSBL_ACTUATION)) {", "  if (nactuator == 0) {")]},
    {"id": "clamp-wrong-range", "expect": ("R-MUSTPASS", "ctrlrange-clamp"),
     "edits": [(FWD, "    clampVec(ctrl, m->actuator_ctrlrange, m->actuator_ctrllimited, nu, NULL);",
                "    clampVec(ctrl, m->actuator_forcerange, m->actuator_ctrllimited, nu, NULL);")]},
    {"id": "clamp-helper-broken", "expect": ("R-MUSTPASS", "clamp"),
     "edits": [(FWD, "      vec[j] = mju_clip(vec[j], range[2*i], range[2*i + 1]);", "      vec[j] = mju_clip(vec[j], range[2*i], range[2*i]);")]},
    {"id": "read-ctrl-after-copy", "expect": ("R-CTRL-COPY", "raw-read"),
     "edits": [(FWD, "      mjtNum input = m->actuator_ctrlnum[i] ? ctrl[uadr] : 0;", "      mjtNum input = m->actuator_ctrlnum[i] ? d->ctrl[uadr] : 0;")]},
    {"id": "drop-badcheck", "expect": ("R-MUSTPASS", "bad-value-scan"),
     "edits": [(FWD, "    if (mju_isBad(ctrl[i])) {\n      mj_warning(d, mjWARN_BADCTRL, i);\n      mju_zero(ctrl, nu);\n      break;\n    }\n", "")]},
    {"id": "badcheck-no-zero", "expect": ("R-MUSTPASS", "bad"),
     "edits": [(FWD, "      mj_warning(d, mjWARN_BADCTRL, i);\n      mju_zero(ctrl, nu);\n", "      mj_warning(d, mjWARN_BADCTRL, i);\n")]},
    {"id": "drop-forcerange-clamp", "expect": ("R-MUSTPASS", "forcerange-clamp"),
     "edits": [(FWD, "      for (int j=0; j < outnum; j++) {\n        f[j] = mju_clip(f[j], range[0], range[1]);\n      }\n", "")]},
    {"id": "force-after-clamp", "expect": ("R-MUSTPASS", "write-after-clamp"),
     "edits": [(FWD, "  // qfrc_actuator = moment' * force\n", "  for (int i=0; i < nactuator; i++) {\n    if (!mj_actuatorDisabled(m, i)) force[m->actuator_outadr[i]] += 1;\n  }\n  // qfrc_actuator = moment' * force\n")]},
    {"id": "drop-joint-clamp", "expect": ("R-MUSTPASS", "jnt_actfrcrange"),
     "edits": [(FWD, "  clampVec(d->qfrc_actuator, m->jnt_actfrcrange, m->jnt_actfrclimited, m->njnt, m->jnt_dofadr);\n", "")]},
    {"id": "joint-clamp-before-gravcomp", "expect": ("R-MUSTPASS", "qfrc_actuator:write-after-clamp"),
     "edits": [(FWD, "  clampVec(d->qfrc_actuator, m->jnt_actfrcrange, m->jnt_actfrclimited, m->njnt, m->jnt_dofadr);\n", ""),
               (FWD, "  // actuator-level gravity compensation\n", "  clampVec(d->qfrc_actuator, m->jnt_actfrcrange, m->jnt_actfrclimited, m->njnt, m->jnt_dofadr);\n  // actuator-level gravity compensation\n")]},
    {"id": "drop-disabled-skip", "expect": ("R-DISABLED", "actuator_force:store"),
     "edits": [(FWD, "    // skip if disabled\n    if (mj_actuatorDisabled(m, i)) {\n      continue;\n    }\n\n    // skip actuator plugins", "    // skip actuator plugins")]},
    {"id": "index-by-actuator-id", "expect": ("R-INDEXDIM", "mj_fwdActuation:actuator_length"),
     "edits": [(FWD, "        mjtNum err = ctrl[uadr] - d->actuator_length[oadr];", "        mjtNum err = ctrl[uadr] - d->actuator_length[i];")]},
    {"id": "ctrl-copy-by-actuator-id", "expect": ("R-INDEXDIM", "mj_fwdActuation"),
     "edits": [(FWD, "      d->act_dot[act_last] = (ctrl[uadr] - d->act[act_last]) / tau;", "      d->act_dot[act_last] = (ctrl[i] - d->act[act_last]) / tau;")]},
    {"id": "cranklength-by-output-address", "expect": ("R-INDEXDIM", "mj_transmission:actuator_cranklength"),
     "edits": [("src/engine/engine_core_smooth.c", "mjtNum rod = m->actuator_cranklength[i];", "mjtNum rod = m->actuator_cranklength[out];")]},
    {"id": "lengthrange-stored-by-actuator-id", "expect": ("R-INDEXDIM", "mj_setLengthRange:actuator_lengthrange"),
     "edits": [("src/engine/engine_setconst.c", "m->actuator_lengthrange[2*out+side] = (side == 0", "m->actuator_lengthrange[2*index+side] = (side == 0")]},
    {"id": "trnid-bare-row-index", "expect": ("R-INDEXDIM", "mj_setLengthRange:actuator_trnid"),
     "edits": [("src/engine/engine_setconst.c", "int threadid = m->actuator_trnid[2*index];", "int threadid = m->actuator_trnid[index];")]},
    {"id": "ctl-lengthrange-local-row", "expect": None,
     "edits": [("src/engine/engine_setconst.c", "m->actuator_lengthrange[2*out+side] = (side == 0", "mjtNum* lr = m->actuator_lengthrange + 2*out;\n    lr[side] = (side == 0")]},
    # controls
    {"id": "ctl-rename-copy", "expect": None,
     "edits": [(FWD, "  mjtNum *ctrl = mjSTACKALLOC(d, nu, mjtNum);", "  mjtNum *ctrl_local = mjSTACKALLOC(d, nu, mjtNum);\n  mjtNum *ctrl = ctrl_local;")]},
    {"id": "ctl-flag-in-local", "expect": None,
     "edits": [(FWD, "  if (!mjDISABLED(mjDSBL_CLAMPCTRL)) {\n    clampVec(ctrl,", "  int clampctrl = !mjDISABLED(mjDSBL_CLAMPCTRL);\n  if (clampctrl) {\n    clampVec(ctrl,")]},
    {"id": "ctl-extract-clamp-helper", "expect": None,
     "edits": [(FWD, "// (qpos, qvel, ctrl, act) => (qfrc_actuator, actuator_force, act_dot)\nvoid mj_fwdActuation(",
                "static void clampControls(const mjModel* m, mjtNum* u, int n) {\n  if (!mjDISABLED(mjDSBL_CLAMPCTRL)) {\n"
                "    clampVec(u, m->actuator_ctrlrange, m->actuator_ctrllimited, n, NULL);\n  }\n}\n\n"
                "// (qpos, qvel, ctrl, act) => (qfrc_actuator, actuator_force, act_dot)\nvoid mj_fwdActuation("),
               (FWD, _CLAMP, "  clampControls(m, ctrl, nu);\n")]},
    {"id": "ctl-extract-jointclamp-helper", "expect": None,
     "edits": [(FWD, "// (qpos, qvel, ctrl, act) => (qfrc_actuator, actuator_force, act_dot)\nvoid mj_fwdActuation(",
                "static void clampJointForces(const mjModel* m, mjData* d) {\n"
                "  clampVec(d->qfrc_actuator, m->jnt_actfrcrange, m->jnt_actfrclimited, m->njnt, m->jnt_dofadr);\n}\n\n"
                "// (qpos, qvel, ctrl, act) => (qfrc_actuator, actuator_force, act_dot)\nvoid mj_fwdActuation("),
               (FWD, "  clampVec(d->qfrc_actuator, m->jnt_actfrcrange, m->jnt_actfrclimited, m->njnt, m->jnt_dofadr);\n\n  mj_freeStack(d);",
                "  clampJointForces(m, d);\n\n  mj_freeStack(d);")]},
    {"id": "fix-clamp-skips-disabled", "expect": None, "fixes": [("R-DISABLED", "store:mju_clip")],
     "edits": [(FWD, "    if (!m->actuator_forcelimited[i]) {\n      continue;\n    }\n    const mjtNum* range = m->actuator_forcerange + 2*i;",
                "    if (!m->actuator_forcelimited[i] || mj_actuatorDisabled(m, i)) {\n      continue;\n    }\n    const mjtNum* range = m->actuator_forcerange + 2*i;")]},
    {"id": "ctl-reorder-scan-clamp", "expect": None,
     "edits": [(FWD, _CLAMP, ""),
               (FWD, "      mju_zero(ctrl, nu);\n      break;\n    }\n  }\n", "      mju_zero(ctrl, nu);\n      break;\n    }\n  }\n" + _CLAMP)]},
]


def selftest(res):
    r_misc.run_mutants("C27", res, MUTANTS)
