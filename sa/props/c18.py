"""C18 Sleeping islands are frozen and wake on the documented events.

Decided:
  R-MUSTCALL     every wake hook of engine_sleep.c (external functions named mj_wake* taking (const mjModel*, mjData*);
                 the slot is filled from the file) is called unconditionally in the flattened position stage
                 (mj_fwdPosition with its orchestration callees inlined across TUs)
  R-RESULT-USED  the first call after each hook that depends on its result is mj_updateSleep, guarded by exactly that
                 result (awake lists are recomputed before anything else runs on them)
  R-WHO-WRITES   d->tree_asleep (contents) is written only by functions defined in engine_sleep.c and by the reset
                 path of engine_io.c (closure of mj_resetData inside engine_io.c); named whole-mjData copies excepted
  R-FILTER       in mj_advance every write of d->qvel / d->qpos is sleep-filtered: under `if (filter)` the filtered arm
                 passes an awake index list of mjData and the other arm does not, both arms write the same fields;
                 outside such an `if` the call carries `filter ? d->*_awake_ind : ...`; every filter predicate mentions
                 mjENBL_SLEEP
  R-SLEEP-REEVAL on every path of mj_advance mj_sleep is called before the first qvel/qpos write, and when it reports
                 slept trees both mj_forwardSkip and mj_updateSleep run before that write
Not decided: the cycle encoding of tree_asleep, the wake conditions themselves (what the hooks test), bit-identity of
qpos of sleeping trees, the sleep filters of the other stages, plugins and user callbacks.
"""
from __future__ import annotations

from .. import callgraph, cir, engine, modref, paths, pipeline, r_misc
from ..cfront import AnalysisError

SLEEP = "src/engine/engine_sleep.c"
FWD = "src/engine/engine_forward.c"
IO = "src/engine/engine_io.c"

# functions outside the owner set that touch d->tree_asleep without changing the sleep state of a live mjData
WRITE_EXCEPTIONS = {
    "mj_copyDataVisual": "whole-mjData copy: every MJDATA_POINTERS array is memcpy'd from the source mjData (X-macro)",
    "mj_setPtrData": "assigns the buffer pointer itself while laying out the mjData buffer; contents untouched",
}
STATE_FIELDS = ("qvel", "qpos")


def wake_hooks(us):
    hooks, prims = [], []
    for name, fn in sorted(us.funcs.items()):
        if not name.startswith("mj_wake") or (fn.get("file") or us.tu) != us.tu:
            continue
        if fn.get("storageClass") == "static":
            continue
        pt = [(p.get("t") or "") for p in cir.params(fn)]
        if len(pt) >= 2 and "mjModel" in pt[0] and "mjData" in pt[1] and "const" not in pt[1].split("*")[0]:
            hooks.append(name)
        else:
            prims.append(name)
    return hooks, prims


def result_atoms(units, hook):
    """texts under which the result of `hook(...)` can appear in a guard: the call itself or a local holding it."""
    out = set()
    for u in units:
        for fn in u.funcs.values():
            for n in cir.walk(fn):
                if cir.is_call(n) and cir.callee(n) == hook:
                    out.add(cir.text(n))
                if n.get("k") == "VarDecl":
                    i = r_misc.var_init(n)
                    s = cir.strip(i) if i is not None else None
                    if cir.is_call(s) and cir.callee(s) == hook:
                        out |= {n.get("n"), f"{n.get('n')} > 0"}
                if n.get("k") == "BinaryOperator" and n.get("op") == "=":
                    s = cir.strip(cir.kids(n)[1])
                    if cir.is_call(s) and cir.callee(s) == hook:
                        v = cir.text(cir.kids(n)[0])
                        out |= {v, f"{v} > 0"}
    out |= {a + " > 0" for a in list(out) if "(" in a}
    return out


def position_stage(res, g, uf, hooks):
    xu = r_misc.cross_unit(uf, g, opaque_tus=(SLEEP,))
    F = pipeline.Flattener(xu)
    ev = [e for e in F.flatten(uf.funcs["mj_fwdPosition"], {}) if e[0] in ("call", "loop", "return")]
    res.count("position_stage_events", len(ev))
    res.extra["position_stage"] = [pipeline.fmt(e) for e in ev]
    if len(ev) < 12:
        raise AnalysisError(f"mj_fwdPosition flattened to only {len(ev)} events: inlining lost")
    units = list(xu.funcs.units.values()) + [engine.unit(SLEEP)]
    line = uf.funcs["mj_fwdPosition"].get("line")
    for h in hooks:
        idx = [i for i, e in enumerate(ev) if e[0] == "call" and e[1] == h]
        if not idx:
            res.bad("R-MUSTCALL", f"mj_fwdPosition:{h}", FWD, line,
                    f"wake hook {h}() (exported by engine_sleep.c) is never called in the position stage: the event it "
                    f"detects cannot wake a sleeping island")
            continue
        uncond = [i for i in idx if not ev[i][-1]]
        if not uncond:
            g0 = pipeline.fmt(ev[idx[0]])
            res.bad("R-MUSTCALL", f"mj_fwdPosition:{h}", FWD, line,
                    f"wake hook {h}() is only called conditionally in the position stage (`{g0}`): on the other paths its "
                    f"wake event is missed")
            continue
        res.ok("R-MUSTCALL", f"mj_fwdPosition:{h}", {"event": pipeline.fmt(ev[uncond[0]])})
        atoms = result_atoms(units, h)
        for i in idx:
            base = set(ev[i][-1])
            dep = None
            for e in ev[i + 1:]:
                extra = [a for a in e[-1] if a not in base]
                if e[0] == "call" and any(a[0] in atoms for a in extra):
                    dep = (e, extra)
                    break
                if e[0] == "call" and e[1] == h:
                    break
            construct = f"mj_fwdPosition:{h}:result"
            if dep is None:
                res.bad("R-RESULT-USED", construct, FWD, line,
                        f"the result of {h}() guards nothing in the position stage: trees it woke stay out of the awake "
                        f"index lists (no mj_updateSleep) for the rest of the step")
            elif dep[0][1] != "mj_updateSleep" or dep[1] != [a for a in dep[1] if a[0] in atoms and a[1]] or len(dep[1]) != 1:
                res.bad("R-RESULT-USED", construct, FWD, line,
                        f"the first call depending on the result of {h}() is `{pipeline.fmt(dep[0])}`; it must be "
                        f"mj_updateSleep guarded by exactly that result")
            else:
                res.ok("R-RESULT-USED", construct, {"event": pipeline.fmt(dep[0])})


def who_writes(res, g):
    sleep_funcs = {k for k in g.funcs if k[0] == SLEEP}
    root = g.find("mj_resetData")
    if root is None or root[0] != IO:
        raise AnalysisError("anchor mj_resetData not found in engine_io.c")
    reset = {k for k in g.closure([root]) if k[0] == IO}
    owners = sleep_funcs | reset
    res.extra["tree_asleep_owner_set"] = {"engine_sleep.c": len(sleep_funcs), "reset_path": sorted(k[1] for k in reset)}
    n = 0
    for k, f in sorted(g.funcs.items()):
        hits = [e for e in f["events"] if e["struct"] == "mjData" and e["field"] == "tree_asleep"
                and e["kind"] in ("assign", "elem", "pass", "addr", "alias", "memcpy")]
        if not hits:
            continue
        n += 1
        construct = f"{k[1]}:tree_asleep"
        if k in owners:
            res.ok("R-WHO-WRITES", construct, {"file": f["file"], "kinds": sorted({e['kind'] for e in hits})})
        elif k[1] in WRITE_EXCEPTIONS and k[0] == IO:
            res.ok("R-WHO-WRITES", construct, {"exception": WRITE_EXCEPTIONS[k[1]]})
        else:
            e = hits[0]
            res.bad("R-WHO-WRITES", construct, f["file"], e["line"],
                    f"{k[1]} writes d->tree_asleep ({e['kind']}"
                    + (f" to {e.get('callee')}()" if e.get("callee") else "") + ") but is neither defined in engine_sleep.c "
                    "nor on the reset path of engine_io.c: the sleep cycles can be corrupted outside the sleep module")
    if n < 5:
        raise AnalysisError(f"only {n} writers of tree_asleep found: mod events lost")


def _awake_ind_field(e):
    rf = modref.root_field(e) if e is not None else None
    if rf and rf[0] == "mjData" and rf[1].endswith("_awake_ind"):
        return rf[1]
    return None


def advance_filter(res, uf, fn):
    defs = r_misc.local_defs(fn)
    line = fn.get("line")
    # state writes performed by mj_advance itself
    writes = []
    for n in cir.walk(fn):
        if cir.is_call(n) or r_misc.is_assign(n):
            # events of this node only (not of nested calls, which are visited on their own)
            evs = [e for e in modref.events(n, {"mjData"}) if e["field"] in STATE_FIELDS and e["line"] == n.get("line")]
            if cir.is_call(n):
                evs = [e for e in evs if e.get("callee") == cir.callee(n) and e["kind"] in ("pass", "addr")]
            else:
                evs = [e for e in evs if e["kind"] in ("assign", "elem")]
                lhs = modref.root_field(cir.kids(n)[0])
                evs = evs if lhs and lhs[1] in STATE_FIELDS else []
            if evs:
                writes.append((n, sorted({e["field"] for e in evs})))
    if len(writes) < 2:
        raise AnalysisError("mj_advance: qvel/qpos writes not found")
    # candidate filter variables: locals whose definition mentions mjENBL_SLEEP, or that select an awake index list
    def conjuncts(e):
        s_ = cir.strip(e)
        if s_ is not None and s_.get("k") == "BinaryOperator" and s_.get("op") == "&&":
            return conjuncts(cir.kids(s_)[0]) + conjuncts(cir.kids(s_)[1])
        return [s_]
    filt = {}
    changed = True
    while changed:
        changed = False
        for did, ds in dict.items(defs):
            v = defs.names[did]
            if len(defs.ids.get(v, ())) != 1:
                continue          # a re-declared name cannot be told apart in condition texts
            if filt.get(v) or not ds or any(kind not in ("init", "assign") for kind, _ in ds):
                continue
            good = True
            for kind, e in ds:
                cs = conjuncts(e)
                if not any(c is not None and ("mjENBL_SLEEP" in r_misc.enum_refs(c) or
                                              (c.get("k") == "DeclRefExpr" and filt.get((c.get("ref") or {}).get("n"))))
                           for c in cs):
                    good = False
            if good:
                filt[v] = True
                changed = True

    def cond_var(c):
        nc = paths.norm_cond(c)
        if nc is None:
            return None, None
        return nc[0], nc[1]
    for n in cir.walk(fn):
        cond = None
        if n.get("k") == "IfStmt":
            cond, then, els = r_misc.if_parts(n)
            arms = [then, els]
        elif n.get("k") == "ConditionalOperator":
            cond = cir.kids(n)[0]
            arms = [cir.kids(n)[1], cir.kids(n)[2]]
        if cond is None:
            continue
        key, pol = cond_var(cond)
        if key in defs.ids and len(defs.ids[key]) == 1 and key not in filt:
            if any(_awake_ind_field(x) for a in arms if a is not None for x in cir.walk(a)
                   if x.get("k") == "MemberExpr"):
                filt[key] = False
    if not filt:
        raise AnalysisError("mj_advance: no sleep-filter predicate found")
    for v, okk in sorted(filt.items()):
        if okk:
            res.ok("R-FILTER", f"mj_advance:{v}:predicate", {"definition": cir.text(defs[v][0][1])[:120]})
        else:
            res.bad("R-FILTER", f"mj_advance:{v}:predicate", FWD, line,
                    f"`{v}` selects the awake index lists but its definition `{cir.text(defs[v][0][1])[:120]}` does not "
                    f"test mjENBL_SLEEP: with sleeping disabled and stale awake lists the integrator skips dofs")

    # context of every write: inside which arm of an if on a filter variable
    ctx_of = {}

    def visit(st, ctx):
        if st is None:
            return
        if st.get("k") == "IfStmt":
            cond, then, els = r_misc.if_parts(st)
            key, pol = cond_var(cond)
            if key in filt:
                visit(cond, ctx)
                visit(then, (st, pol))
                visit(els, (st, not pol))
                return
        ctx_of[id(st)] = ctx
        for c in cir.kids(st):
            visit(c, ctx)
    visit(cir.body(fn), None)

    def index_args(call):
        out = []
        for a in cir.args(call):
            s = r_misc.resolve(a, defs)
            if s is None:
                continue
            if s.get("k") == "ConditionalOperator":
                key, pol = cond_var(cir.kids(s)[0])
                arm = cir.kids(s)[1] if pol else cir.kids(s)[2]
                f = _awake_ind_field(cir.strip(arm))
                if key in filt and f:
                    out.append(("cond", f))
                continue
            f = _awake_ind_field(s) if "*" in (s.get("t") or "") else None
            if f:
                out.append(("plain", f))
        return out
    per_if = {}
    for n, fields in writes:
        ctx = ctx_of.get(id(n))
        for fld in fields:
            construct = f"mj_advance:{fld}:{cir.callee(n) or 'store'}"
            ia = index_args(n) if cir.is_call(n) else []
            if ctx is None:
                if any(k == "cond" for k, _ in ia):
                    res.ok("R-FILTER", construct, {"index": [f for _, f in ia]})
                else:
                    res.bad("R-FILTER", construct, FWD, n.get("line"),
                            f"`{cir.text(n)[:140]}` writes d->{fld} outside the sleep filter: no argument selects "
                            f"`filter ? d->*_awake_ind : ...`, so dofs/bodies of sleeping trees are integrated")
            else:
                st, arm = ctx
                per_if.setdefault(id(st), {"node": st, True: set(), False: set()})[arm].add(fld)
                if arm and not any(k == "plain" for k, _ in ia):
                    res.bad("R-FILTER", construct, FWD, n.get("line"),
                            f"`{cir.text(n)[:140]}` is the sleep-filtered arm but does not go through an awake index list "
                            f"(d->*_awake_ind): sleeping trees are integrated")
                elif not arm and ia:
                    res.bad("R-FILTER", construct, FWD, n.get("line"),
                            f"`{cir.text(n)[:140]}` is the unfiltered arm but indexes through {ia[0][1]}, which is only "
                            f"valid under the sleep filter")
                else:
                    res.ok("R-FILTER", construct, {"arm": "filtered" if arm else "unfiltered", "index": [f for _, f in ia]})
    for d in per_if.values():
        construct = "mj_advance:arms:" + "+".join(sorted(d[True] | d[False]))
        if d[True] == d[False]:
            res.ok("R-FILTER", construct, {"fields": sorted(d[True])})
        else:
            res.bad("R-FILTER", construct, FWD, d["node"].get("line"),
                    f"the sleep-filtered arm writes {sorted(d[True])} but the unfiltered arm writes {sorted(d[False])}: the "
                    f"two variants of the integrator disagree")
    return {id(n) for n, _ in writes}


class SleepReeval(paths.Rule):
    """state: (slept, reeval, updated, var) ; slept in nocall / called / yes / no"""

    def __init__(self, write_ids):
        self.write_ids = write_ids

    def initial(self, fn):
        return ("nocall", False, False, None)

    def _is_result(self, st, cond):
        s = cir.strip(cond)
        if cir.is_call(s) and cir.callee(s) == "mj_sleep":
            return True
        nc = paths.norm_cond(cond)
        if nc and st[3] and nc[0] in (st[3], f"{st[3]} > 0"):
            return True
        if s is not None and s.get("k") == "BinaryOperator" and s.get("op") == ">":
            a = cir.strip(cir.kids(s)[0])
            return cir.is_call(a) and cir.callee(a) == "mj_sleep" and cir.text(cir.kids(s)[1]) == "0"
        return False

    def _check(self, st, node, ctx):
        if id(node) in self.write_ids:
            if st[0] == "nocall":
                ctx.report(node, "qvel/qpos are integrated on a path where mj_sleep was not called", kind="nosleep")
            elif st[0] != "no" and not (st[1] and st[2]):
                miss = [n for n, f in (("mj_forwardSkip", st[1]), ("mj_updateSleep", st[2])) if not f]
                ctx.report(node, f"qvel/qpos are integrated after mj_sleep put trees to sleep without {' and '.join(miss)}: "
                           f"the awake index lists still contain the slept trees / velocity-dependent quantities are stale",
                           kind="noreeval")

    def call(self, st, node, name, ctx):
        self._check(st, node, ctx)
        if name == "mj_sleep":
            return ("called", False, False, st[3])
        if name == "mj_forwardSkip":
            return (st[0], True, st[2], st[3])
        if name == "mj_updateSleep":
            return (st[0], st[1], True, st[3])
        return st

    def assign(self, st, node, ctx):
        self._check(st, node, ctx)
        if node.get("k") == "VarDecl":
            i = r_misc.var_init(node)
            s = cir.strip(i) if i is not None else None
            if cir.is_call(s) and cir.callee(s) == "mj_sleep":
                return (st[0], st[1], st[2], node.get("n"))
        elif node.get("k") == "BinaryOperator":
            s = cir.strip(cir.kids(node)[1])
            if cir.is_call(s) and cir.callee(s) == "mj_sleep":
                return (st[0], st[1], st[2], cir.text(cir.kids(node)[0]))
        return st

    def branch(self, st, cond, taken, ctx):
        if st[0] == "called" and self._is_result(st, cond):
            return ("yes" if taken else "no", st[1], st[2], st[3])
        return st


DRV = "src/engine/engine_collision_driver.c"


def wake_prune(res):
    """R-WAKE-PRUNE: a candidate pair may be discarded for sleep reasons only when neither side is awake — otherwise an awake
    tree touching a sleeping one produces no contact and mj_wakeCollision has nothing to see.  Decided by finite evaluation:
    every pruning condition of the collision driver that compares the sleep states of TWO objects with mjS_* enumerators is
    evaluated for all 3x3 assignments of {mjS_STATIC, mjS_ASLEEP, mjS_AWAKE} (every other conjunct taken as true); no
    assignment with an awake side may prune."""
    import itertools
    from .. import norm, linform as _lf
    u = engine.unit(DRV)
    F = pipeline.Flattener(u)
    states = {n: v for n, v in F.enum.items() if n in ("mjS_STATIC", "mjS_ASLEEP", "mjS_AWAKE")}
    if len(states) != 3:
        raise AnalysisError("mjtSleepState enumerators not found")
    res.rule("R-WAKE-PRUNE", "no pair with an awake side is discarded by a sleep-state test of the collision driver", floor=1)
    n = 0
    for name, fn0 in sorted(u.funcs.items()):
        if (fn0.get("file") or u.tu) != u.tu:
            continue
        if not any(x.get("k") == "DeclRefExpr" and (x.get("ref") or {}).get("n") in states for x in cir.walk(fn0)):
            continue
        fn = norm.canon(u, name, propagate=True)
        body = cir.body(fn)
        defs = _lf.single_defs(fn)

        def sleep_vars(e):
            """texts of the sub-expressions that are compared with an mjS_* enumerator"""
            out = set()
            for y in cir.walk(e):
                if y.get("k") == "BinaryOperator" and y.get("op") in ("==", "!="):
                    a, b = (cir.strip(k_) for k_ in cir.kids(y))
                    for v, c in ((a, b), (b, a)):
                        if c is not None and c.get("k") == "DeclRefExpr" and (c.get("ref") or {}).get("n") in states and v is not None:
                            out.add(cir.text(v))
            return out
        for st in cir.walk(body):
            if st.get("k") not in ("ReturnStmt", "ContinueStmt"):
                continue
            if st.get("k") == "ReturnStmt" and cir.kids(st) and cir.text(cir.kids(st)[0]) not in ("0",):
                continue
            gs = norm.guards(body, st) or []
            # resolve locals in the atoms
            atoms = []
            for c_, pol in gs:
                e = c_
                for _r in range(3):
                    vs = [y for y in cir.walk(e) if y.get("k") == "DeclRefExpr" and (y.get("ref") or {}).get("n") in defs]
                    if not vs:
                        break
                    e = norm.substitute(e, {y["ref"]["id"]: defs[y["ref"]["n"]] for y in vs})
                atoms.append((e, pol))
            # only discards whose innermost guard is the sleep test itself (a later, unrelated rejection merely sits in
            # the branch where the sleep test did not fire)
            if not atoms or not sleep_vars(atoms[-1][0]):
                continue
            svars = sorted(set().union(*[sleep_vars(e) for e, _p in atoms]) if atoms else set())
            if len(svars) != 2:
                continue
            n += 1
            bad = None
            for va, vb in itertools.product(states.values(), repeat=2):
                env = {svars[0]: va, svars[1]: vb}
                pruned = True
                for e, pol in atoms:
                    if not sleep_vars(e):
                        continue
                    v = F.ceval(e, env)
                    if v is None:
                        raise AnalysisError(f"{name}: sleep pruning condition `{cir.text(e)[:80]}` cannot be evaluated")
                    if bool(v) != pol:
                        pruned = False
                        break
                if pruned and states["mjS_AWAKE"] in (va, vb):
                    inv = {v_: k_ for k_, v_ in states.items()}
                    bad = (inv[va], inv[vb])
                    break
            key = f"{name}:{'/'.join(svars)[:60]}"
            if bad:
                res.bad("R-WAKE-PRUNE", key, DRV, st.get("line"),
                        f"{name} discards the pair when {svars[0]} is {bad[0]} and {svars[1]} is {bad[1]}: a side is awake, so the "
                        f"contact that would wake the sleeping side is never generated")
            else:
                res.ok("R-WAKE-PRUNE", key, {"line": st.get("line")})
    if n == 0:
        raise AnalysisError(f"{DRV}: no pruning condition on the sleep states of two objects found")


def runtime_state(res, us):
    """R-RUNTIME-STATE: the sleep module decides on the run-time state.  A field `X0` of mjModel for which mjData has a
    field `X` is the compiled initial value of run-time state X (the reset path copies it: the positive example below);
    a function of engine_sleep.c that reads m->X0 decides on what the model was compiled with, not on what the user set."""
    res.rule("R-RUNTIME-STATE", "no function of engine_sleep.c reads a mjModel field X0 whose run-time copy d->X exists in "
             "mjData (e.g. eq_active0 / eq_active): wake and sleep decisions are taken on the run-time state; the reset path "
             "of engine_io.c, which performs the copy, is the must-match example", floor=5)
    from .. import ctypeinfo
    dset = {f["name"] for f in ctypeinfo.fields("mjData_")}
    if "eq_active" not in dset or "tree_asleep" not in dset:
        raise AnalysisError("struct mjData_ of the headers lost eq_active / tree_asleep: field table not usable")
    uio = engine.unit(IO)
    example = sorted(f for fn in uio.funcs.values() if (fn.get("file") or uio.tu) == uio.tu
                     for f in r_misc.field_reads(fn, "mjModel") if f.endswith("0") and f[:-1] in dset)
    if "eq_active0" not in example:
        raise AnalysisError("positive example lost: the reset path of engine_io.c no longer reads m->eq_active0 "
                            "(the detector cannot see initial-value reads any more)")
    res.extra["initial_value_fields_read_on_reset_path"] = sorted(set(example))
    for name, fn in sorted(us.funcs.items()):
        if (fn.get("file") or us.tu) != us.tu or not cir.kids(fn):
            continue
        hits = sorted(f for f in r_misc.field_reads(fn, "mjModel") if f.endswith("0") and f[:-1] in dset)
        construct = f"{name}:initial-value-reads"
        if not hits:
            res.ok("R-RUNTIME-STATE", construct, {"file": SLEEP})
            continue
        line = fn.get("line")
        for x in cir.walk(fn):
            if x.get("k") == "MemberExpr" and x.get("n") == hits[0]:
                line = x.get("line") or line
                break
        res.bad("R-RUNTIME-STATE", construct, SLEEP, line,
                f"{name} reads m->{hits[0]}, the compiled initial value of the run-time state d->{hits[0][:-1]}: a tree tied to an "
                f"awake tree through state the user changed at run time (d->{hits[0][:-1]}) is judged by the model's default, so "
                "it is not woken (or is woken needlessly)")


def run(res, tier):
    us = engine.unit(SLEEP)
    uf = engine.unit(FWD)
    for f in ("mj_fwdPosition", "mj_advance"):
        if f not in uf.funcs:
            raise AnalysisError(f"anchor {f} missing in {FWD}")
    for f in ("mj_sleep", "mj_updateSleep", "mj_wake"):
        if f not in us.funcs:
            raise AnalysisError(f"anchor {f} missing in {SLEEP}")
    hooks, prims = wake_hooks(us)
    if len(hooks) < 4:
        raise AnalysisError(f"only {len(hooks)} wake hooks found in engine_sleep.c: {hooks}")
    res.extra["wake_hooks"] = hooks
    res.extra["wake_primitives_not_hooks"] = {p: "operates on a bare tree_asleep array (no mjModel/mjData): the primitive "
                                                 "the hooks call, not a stage hook" for p in prims}
    g = callgraph.build()
    res.rule("R-MUSTCALL", "every wake hook of engine_sleep.c is called unconditionally in the position stage", floor=4)
    # no floor of its own: a hook that is not (unconditionally) called is an R-MUSTCALL report and has no result to use;
    # coverage is checked on the sum instead
    res.rule("R-RESULT-USED", "the result of each wake hook guards an immediate mj_updateSleep", floor=0)
    position_stage(res, g, uf, hooks)
    failed = sum(1 for v in res.violations if v["rule"] == "R-MUSTCALL")
    if res.rules["R-RESULT-USED"]["instances"] + failed < len(hooks):
        raise AnalysisError("R-RESULT-USED lost instances: fewer result obligations than wake hooks")
    res.rule("R-WHO-WRITES", "d->tree_asleep written only by engine_sleep.c and the reset path", floor=7)
    who_writes(res, g)
    runtime_state(res, us)
    wake_prune(res)
    res.rule("R-FILTER", "qvel/qpos writes of mj_advance go through the awake index lists under the sleep filter", floor=5)
    # statement-level static helpers of mj_advance are expanded: extracting a block into a helper changes nothing
    adv, _ = r_misc.inline_helpers(uf, uf.funcs["mj_advance"])
    wids = advance_filter(res, uf, adv)
    res.rule("R-SLEEP-REEVAL", "mj_sleep precedes integration; slept trees => mj_forwardSkip and mj_updateSleep first", floor=1)
    ctx = paths.explore(SleepReeval(wids), uf, adv)
    if ctx.reports:
        seen = set()
        for r in ctx.reports:
            c = "mj_advance:" + r.get("kind", "sleep")
            if c not in seen:
                seen.add(c)
                res.bad("R-SLEEP-REEVAL", c, FWD, r["line"], r["msg"])
    else:
        res.ok("R-SLEEP-REEVAL", "mj_advance:mj_sleep", None)
    res.count("functions", len(g.funcs))
    res.explanation = (
        "Wake hooks are read from engine_sleep.c; the position stage is flattened across translation units (orchestration "
        "callees inlined) and each hook must be an unguarded event whose result guards an immediate mj_updateSleep; "
        "ownership of d->tree_asleep over the whole-engine mod sets; shape of the sleep filter around the qvel/qpos "
        "writes of mj_advance; all-paths rule for mj_sleep -> mj_forwardSkip + mj_updateSleep before integration.")
    res.not_decided = ("cycle encoding invariants of tree_asleep; the wake/sleep conditions themselves; bit-identity of qpos "
                       "of sleeping trees; sleep filters of stages other than mj_advance; C++ callers, plugins, callbacks.")
    res.assumptions = ["error handlers do not return", "user code does not call the exported primitive mj_wakeIsland",
                       "mj_copyDataVisual / mj_setPtrData touch tree_asleep only as part of uniform whole-buffer handling"]


MUTANTS = [
    {"id": "drop-wake-call", "expect": ("R-MUSTCALL", "mj_wakeEquality"),
     "edits": [(FWD, "  if (mj_wakeEquality(m, d)) {\n    mj_updateSleep(m, d);\n  }\n", "")]},
    {"id": "conditional-wake", "expect": ("R-MUSTCALL", "mj_wakeTendon"),
     "edits": [(FWD, "  if (mj_wakeTendon(m, d)) {", "  if (m->ntendon > 1 && mj_wakeTendon(m, d)) {")]},
    {"id": "ignore-wake-result", "expect": ("R-RESULT-USED", "mj_wakeCollision"),
     "edits": [(FWD, "  if (mj_wakeCollision(m, d)) {\n    mj_updateSleep(m, d);\n    mj_collision(m, d);\n  }",
                "  mj_wakeCollision(m, d);")]},
    {"id": "wake-in-other-tu", "expect": ("R-RESULT-USED", "mj_wake:result"),
     "edits": [("src/engine/engine_core_smooth.c", "  if (mj_wake(m, d)) {\n    mj_updateSleep(m, d);\n  }", "  mj_wake(m, d);")]},
    {"id": "update-after-collision", "expect": ("R-RESULT-USED", "mj_wakeCollision"),
     "edits": [(FWD, "    mj_updateSleep(m, d);\n    mj_collision(m, d);\n  }", "    mj_collision(m, d);\n    mj_updateSleep(m, d);\n  }")]},
    {"id": "write-asleep-elsewhere", "expect": ("R-WHO-WRITES", "mj_fwdVelocity:tree_asleep"),
     "edits": [(FWD, "  // tendon velocity: always sparse\n", "  if (m->ntree) d->tree_asleep[0] = -1;\n  // tendon velocity: always sparse\n")]},
    {"id": "unfiltered-velocity", "expect": ("R-FILTER", "mj_advance:qvel"),
     "edits": [(FWD, "    mju_addToSclInd(d->qvel, qacc, d->dof_awake_ind, m->opt.timestep, d->nv_awake);",
                "    mju_addToScl(d->qvel, qacc, m->opt.timestep, m->nv);")]},
    {"id": "unfiltered-position", "expect": ("R-FILTER", "mj_advance:qpos"),
     "edits": [(FWD, "  const int* index = sleep_filter ? d->body_awake_ind : NULL;", "  const int* index = NULL;")]},
    {"id": "filter-without-enable", "expect": ("R-FILTER", "predicate"),
     "edits": [(FWD, "  // advance velocities\n  int sleep_filter = mjENABLED(mjENBL_SLEEP) && d->ntree_awake < m->ntree;",
                "  // advance velocities\n  int sleep_filter = d->ntree_awake < m->ntree;")]},
    {"id": "no-updatesleep-after-sleep", "expect": ("R-SLEEP-REEVAL", "mj_advance"),
     "edits": [(FWD, "\n    // update sleep indices\n    mj_updateSleep(m, d);\n  }\n\n  // advance velocities", "\n  }\n\n  // advance velocities")]},
    {"id": "sleep-after-integration", "expect": ("R-SLEEP-REEVAL", "mj_advance"),
     "edits": [(FWD, "  // put islands to sleep according to velocity tolerance\n  if (mj_sleep(m, d)) {", "  if (0) {")]},
    {"id": "equality-wake-reads-compiled-default", "expect": ("R-RUNTIME-STATE", "mj_wakeEquality:initial-value-reads"),
     "edits": [(SLEEP, "    if (!d->eq_active[i]) continue;", "    if (!m->eq_active0[i]) continue;")]},
    # controls
    {"id": "ctl-equality-wake-flag-in-local", "expect": None,
     "edits": [(SLEEP, "    if (!d->eq_active[i]) continue;", "    const mjtByte* active = d->eq_active;\n    if (!active[i]) continue;")]},
    {"id": "ctl-rename-local", "expect": None,
     "edits": [(FWD, "  // advance velocities\n  int sleep_filter = mjENABLED(mjENBL_SLEEP) && d->ntree_awake < m->ntree;\n  if (sleep_filter) {",
                "  // advance velocities\n  int filt = mjENABLED(mjENBL_SLEEP) && d->ntree_awake < m->ntree;\n  int sleep_filter = filt;\n  if (filt) {")]},
    {"id": "ctl-result-in-local", "expect": None,
     "edits": [(FWD, "  if (mj_wakeEquality(m, d)) {\n    mj_updateSleep(m, d);\n  }", "  int nwoke_eq = mj_wakeEquality(m, d);\n  if (nwoke_eq > 0) {\n    mj_updateSleep(m, d);\n  }")]},
    {"id": "ctl-extract-helper", "expect": None,
     "edits": [(FWD, "// position-dependent computations\nvoid mj_fwdPosition(const mjModel* m, mjData* d) {",
                "static void wakeConstrained(const mjModel* m, mjData* d) {\n  if (mj_wakeEquality(m, d)) {\n    mj_updateSleep(m, d);\n  }\n}\n\n"
                "// position-dependent computations\nvoid mj_fwdPosition(const mjModel* m, mjData* d) {"),
               (FWD, "  if (mj_wakeEquality(m, d)) {\n    mj_updateSleep(m, d);\n  }\n\n  TM_RESTART;", "  wakeConstrained(m, d);\n\n  TM_RESTART;")]},
    {"id": "ctl-extract-velocity-helper", "expect": None,
     "edits": [(FWD, "// advance state and time\n//   act_dot: activation derivatives",
                "static void advanceVelocity(const mjModel* m, mjData* d, const mjtNum* qacc, int filtered) {\n"
                "  if (filtered) {\n    mju_addToSclInd(d->qvel, qacc, d->dof_awake_ind, m->opt.timestep, d->nv_awake);\n"
                "  } else {\n    mju_addToScl(d->qvel, qacc, m->opt.timestep, m->nv);\n  }\n}\n\n"
                "// advance state and time\n//   act_dot: activation derivatives"),
               (FWD, "  if (sleep_filter) {\n    mju_addToSclInd(d->qvel, qacc, d->dof_awake_ind, m->opt.timestep, d->nv_awake);\n  } else {\n"
                "    mju_addToScl(d->qvel, qacc, m->opt.timestep, m->nv);\n  }\n", "  advanceVelocity(m, d, qacc, sleep_filter);\n")]},
    {"id": "ctl-reorder-independent", "expect": None,
     "edits": [(FWD, "  mj_comPos(m, d);\n  mj_camlight(m, d);\n  mj_flex(m, d);", "  mj_camlight(m, d);\n  mj_comPos(m, d);\n  mj_flex(m, d);")]},
]


def selftest(res):
    r_misc.run_mutants("C18", res, MUTANTS)
