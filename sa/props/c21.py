"""C21 Allocation failure never causes undefined behaviour (structure: one hookable choke point that always reports).

Decided:
  R-WHO-CALLS   every reference (call or address-taken, also in uninstantiated templates) to a raw allocator
                (malloc, calloc, realloc, aligned_alloc, posix_memalign, strdup, ... ; free is fine) in the clang AST of
                src/engine/*.c, src/engine/*.cc, src/user/*.cc, src/xml/*.cc and of the headers of src/user, src/xml (a
                header probe; engine headers are seen through the C translation units) lies in
                engine_util_errmem.c; inside that file the referencing functions are static and reachable only from
                mju_malloc (the choke point that consults the mju_user_malloc hook)
  R-MUSTPASS    in mju_malloc every path that returns a possibly-NULL pointer for a request of size > 0 ends in the
                error channel first: at each `return p` either p was tested non-NULL on the path or the size was tested
                not positive, the remaining paths having ended in mju_error (non-returning); decided for the user-hook
                path and the default aligned-allocation path separately; both must exist
Not decided: null handling at the call sites of mju_malloc (they rely on its contract: an assumption, not a check);
leaks / double frees under fault sequences; C++ operator new / containers (std::bad_alloc is not an allocator return);
platform branches not compiled on this host (_WIN32: _aligned_malloc); third-party code (tinyxml2, qhull, lodepng, glad).
"""
from __future__ import annotations

import os

from .. import cfront, cir, engine, paths, r_misc
from ..cfront import AnalysisError

ERRMEM = "src/engine/engine_util_errmem.c"
SCOPE = ("src/engine/", "src/user/", "src/xml/")
# (file, function, allocator) -> reason ; one symbol per line
EXCEPTIONS = {
}


def cxx_tus(repo):
    out = []
    for d in ("engine", "user", "xml"):
        full = os.path.join(repo, "src", d)
        if not os.path.isdir(full):
            raise AnalysisError(f"directory src/{d} vanished")
        out += [f"src/{d}/{f}" for f in sorted(os.listdir(full)) if f.endswith(".cc")]
    return out


def header_probe(repo):
    hs = []
    for d in ("src/user", "src/xml"):
        hs += [f"{d}/{f}" for f in sorted(os.listdir(os.path.join(repo, d))) if f.endswith(".h")]
    text = "".join(f'#include "{h[4:]}"\n' for h in hs)
    os.makedirs(cfront.CACHE, exist_ok=True)
    p = os.path.join(cfront.CACHE, "c21_probe_headers.cc")
    try:
        old = open(p).read()
    except OSError:
        old = None
    if old != text:
        with open(p, "w") as f:
            f.write(text)
    return p, hs


def who_calls(res):
    repo = cfront.REPO
    ctus = engine.engine_tus()
    xtus = cxx_tus(repo)
    if len(ctus) < 30 or len(xtus) < 15:
        raise AnalysisError(f"translation units lost: {len(ctus)} C, {len(xtus)} C++")
    # C++ files: tolerant -- a file that does not parse with the stubs is listed, not decided
    unparsed = []
    ok_x = []
    try:
        cfront.load_tus(xtus, repo, load=False)
        ok_x = list(xtus)
    except AnalysisError:
        for t in xtus:
            try:
                cfront.load_tu(t, repo)
                ok_x.append(t)
            except AnalysisError as e:
                unparsed.append({"tu": t, "error": str(e)[:200]})
    per = engine.map_tus("sa.r_misc", "raw_alloc_refs", ctus + ok_x)
    probe, hs = header_probe(repo)
    try:
        per["<headers of src/user, src/xml>"] = r_misc.raw_alloc_refs(cir.Unit(cfront.load_tu(probe, repo, lang="cxx", types=True)))
        res.extra["header_probe"] = {"headers": len(hs)}
    except AnalysisError as e:
        unparsed.append({"tu": "header probe", "error": str(e)[:300]})
    res.extra["unparsed"] = unparsed
    res.count("c_tus", len(ctus))
    res.count("cxx_tus", len(ok_x))
    if len(unparsed) > 3:
        raise AnalysisError(f"{len(unparsed)} C++ files could not be parsed: {[u['tu'] for u in unparsed]}")
    sites = {}
    outside = []
    for tu, hits in per.items():
        for h in hits:
            f = h["file"] or tu
            if not f.startswith(SCOPE):
                outside.append(f"{f}:{h['func']}:{h['name']}")
                continue
            sites.setdefault((f, h["func"], h["name"]), h)
    res.extra["references_outside_scope"] = sorted(set(outside))
    # every analysed TU is an obligation: "no raw allocator outside the choke point in this file"
    for tu in sorted(per):
        if tu == ERRMEM:
            continue
        bad = sorted(k for k in sites if k[0] == tu or (tu.startswith("<") and not k[0].endswith((".c", ".cc"))))
        if not bad:
            res.ok("R-WHO-CALLS", tu, None)
    for (f, func, name), h in sorted(sites.items()):
        c = f"{func}:{name}"
        if f == ERRMEM:
            continue
        if (f, func, name) in EXCEPTIONS:
            res.ok("R-WHO-CALLS", c, {"exception": EXCEPTIONS[(f, func, name)]})
            continue
        res.bad("R-WHO-CALLS", c, f, h["line"],
                f"{func} references the raw allocator {name}() outside engine_util_errmem.c: the allocation bypasses the "
                f"mju_user_malloc hook and its failure is not routed through mju_error (a NULL result is the caller's "
                f"problem)")
    # inside the choke-point file
    u = engine.unit(ERRMEM)
    if "mju_malloc" not in u.funcs or "mju_free" not in u.funcs:
        raise AnalysisError("anchor mju_malloc / mju_free missing in engine_util_errmem.c")
    inner = {k: h for k, h in sites.items() if k[0] == ERRMEM}
    if not inner:
        raise AnalysisError("no raw allocator reference found in engine_util_errmem.c: the choke point moved")
    callers = {}
    for n, fn in u.funcs.items():
        for c in cir.calls(fn):
            if cir.callee(c) in u.funcs:
                callers.setdefault(cir.callee(c), set()).add(n)
    raw_funcs = {k[1] for k in inner}
    for (f, func, name), h in sorted(inner.items()):
        c = f"engine_util_errmem.c:{func}:{name}"
        fn = u.funcs.get(func)
        if func == "mju_malloc":
            res.ok("R-WHO-CALLS", c, {"choke_point": True})
            continue
        # walk up: every transitive caller chain must end in mju_malloc, all intermediates static
        okk, seen, work = fn is not None, set(), [func]
        while work and okk:
            x = work.pop()
            if x in seen:
                continue
            seen.add(x)
            if x == "mju_malloc":
                continue
            fx = u.funcs.get(x)
            if fx is None or fx.get("storageClass") != "static" or not callers.get(x):
                okk = False
                break
            work += sorted(callers[x])
        addr_taken = any(x.get("k") == "DeclRefExpr" and (x.get("ref") or {}).get("n") in raw_funcs - {"mju_malloc"}
                         and (x.get("ref") or {}).get("k") == "FunctionDecl" and not _is_callee(x, fnn)
                         for fnn in u.funcs.values() for x in cir.walk(fnn))
        if okk and not addr_taken:
            res.ok("R-WHO-CALLS", c, {"reached_only_from": "mju_malloc"})
        else:
            res.bad("R-WHO-CALLS", c, ERRMEM, h["line"],
                    f"{func} calls {name}() but is not a static helper reachable only from mju_malloc: its result can "
                    f"reach callers without the hook and without the error report")
    return u, raw_funcs


def _is_callee(ref, fn):
    # is this DeclRefExpr the callee of some call (rather than an address-taken function)
    for c in cir.calls(fn):
        ce = cir.callee_expr(c)
        if ce is ref:
            return True
    return False


class NullReturn(paths.Rule):
    """state: (source, facts) ; facts = frozenset of (key, truth) for the tracked keys"""

    def __init__(self, size_param, alloc_helpers, hook):
        self.size = size_param
        self.helpers = alloc_helpers
        self.hook = hook
        self.sources = set()
        self.size_keys = {size_param, f"{size_param} > 0", f"{size_param} != 0"}

    def initial(self, fn):
        return (None, frozenset())

    def _forget(self, facts, name):
        return frozenset(f for f in facts if name not in f[2])

    def assign(self, st, node, ctx):
        src, facts = st
        if node.get("k") == "VarDecl":
            name, rhs = node.get("n"), r_misc.var_init(node)
        else:
            t = cir.strip(cir.kids(node)[0])
            name = (t.get("ref") or {}).get("n") if t is not None and t.get("k") == "DeclRefExpr" else None
            rhs = cir.kids(node)[1] if node.get("k") == "BinaryOperator" else None
        if name is None:
            return st
        facts = self._forget(facts, name)
        s = cir.strip(rhs) if rhs is not None else None
        if cir.is_call(s):
            nm = cir.callee(s)
            if nm is None and cir.text(cir.callee_expr(s)) == self.hook:
                src = "user-hook"
            elif nm in self.helpers:
                src = "default"
            else:
                src = "other"
            self.sources.add(src)
        return (src, facts)

    def branch(self, st, cond, taken, ctx):
        nc = paths.norm_cond(cond)
        if nc is None:
            return st
        key, pol, vs = nc
        truth = taken if pol else (not taken)
        src, facts = st
        for f in facts:
            if f[0] == key and f[1] != truth:
                return None
        return (src, facts | {(key, truth, tuple(sorted(vs)))})

    def ret(self, st, node, ctx):
        src, facts = st
        c = [x for x in cir.kids(node) if x is not None]
        if not c:
            return
        v = cir.strip(c[0])
        known = {f[0]: f[1] for f in facts}
        size_nonpos = any(known.get(k) is False for k in self.size_keys)
        nonnull = False
        if v is not None and v.get("k") == "DeclRefExpr":
            nonnull = known.get(cir.text(v)) is True
        elif cir.is_call(v):
            nonnull = False
        ctx.exits.append((src, size_nonpos or nonnull))
        if not (size_nonpos or nonnull):
            ctx.report(node, f"`return {cir.text(c[0])}` is reached on a path ({src or 'no allocation'}) where the pointer may be "
                       f"NULL for size > 0 and mju_error was not raised", source=src)


def mustpass(res, u, raw_funcs):
    fn = u.funcs["mju_malloc"]
    ps = cir.params(fn)
    if len(ps) != 1:
        raise AnalysisError("mju_malloc: expected one (size) parameter")
    if "mju_user_malloc" not in u.vars:
        raise AnalysisError("the allocator hook mju_user_malloc is not defined in engine_util_errmem.c")
    helpers = set(raw_funcs) - {"mju_malloc"}
    rule = NullReturn(ps[0].get("n"), helpers, "mju_user_malloc")
    ex = paths.Explorer(rule, u, fn)
    ex.ctx.exits = []
    ex.run()
    reports = ex.ctx.reports
    by_src = {}
    for src, ok_ in ex.ctx.exits:
        by_src.setdefault(src, []).append(ok_)
    # the error channel itself must be on some path (otherwise the facts came from something else)
    err = [c for c in cir.calls(fn) if paths.is_noreturn_call(c, paths.error_msg_vars(fn))]
    if not err:
        res.bad("R-MUSTPASS", "mju_malloc:error-channel", ERRMEM, fn.get("line"),
                "mju_malloc never calls mju_error: an allocation failure cannot surface through the error channel")
    else:
        res.ok("R-MUSTPASS", "mju_malloc:error-channel", {"call": cir.text(err[0])[:80]})
    for src, label in (("user-hook", "user-hook"), ("default", "aligned-default")):
        c = f"mju_malloc:{label}"
        if src not in rule.sources:
            res.bad("R-MUSTPASS", c, ERRMEM, fn.get("line"),
                    f"mju_malloc has no {label} allocation path any more (the hookable choke point changed shape)")
            continue
        bad = [r for r in reports if r.get("source") == src]
        if bad:
            res.bad("R-MUSTPASS", c, ERRMEM, bad[0]["line"], bad[0]["msg"])
        else:
            res.ok("R-MUSTPASS", c, {"returns": len(by_src.get(src, []))})
    other = [r for r in reports if r.get("source") not in ("user-hook", "default")]
    if other:
        res.bad("R-MUSTPASS", "mju_malloc:other-paths", ERRMEM, other[0]["line"], other[0]["msg"])
    else:
        res.ok("R-MUSTPASS", "mju_malloc:other-paths", None)
    # the hook must be consulted before the default allocator: the default path is taken only when the hook is unset
    defaults = [c for c in cir.calls(fn) if cir.callee(c) in helpers]
    guarded = True
    for n in cir.walk(fn):
        if n.get("k") == "IfStmt":
            cond, then, els = r_misc.if_parts(n)
            nc = paths.norm_cond(cond)
            if nc and nc[0] == "mju_user_malloc":
                tb, eb = (then, els) if nc[1] else (els, then)
                ids = r_misc.node_ids(eb) if eb is not None else set()
                guarded = all(id(c) in ids for c in defaults)
    if defaults and guarded:
        res.ok("R-MUSTPASS", "mju_malloc:hook-precedence", None)
    else:
        res.bad("R-MUSTPASS", "mju_malloc:hook-precedence", ERRMEM, fn.get("line"),
                "the default allocator is not confined to the branch where mju_user_malloc is unset")


def run(res, tier):
    res.rule("R-WHO-CALLS", "raw allocators referenced only inside the choke point of engine_util_errmem.c", floor=55)
    u, raw_funcs = who_calls(res)
    res.rule("R-MUSTPASS", "mju_malloc: no possibly-NULL return for size > 0 without mju_error", floor=5)
    mustpass(res, u, raw_funcs)
    res.explanation = (
        "References to raw allocators in the clang AST of all C and C++ translation units of src/engine, src/user, src/xml "
        "and of the src/user, src/xml headers (calls, address-taken, dependent names in templates); caller chains inside "
        "engine_util_errmem.c; all-paths rule with correlated null/size facts over mju_malloc for the hook and the default "
        "path.")
    res.not_decided = ("null handling at mju_malloc call sites (they rely on the contract below); leak / double free under "
                       "fault sequences; operator new and standard containers; branches not compiled on this host (_WIN32); "
                       "third-party libraries.")
    res.assumptions = ["error handlers do not return (a user-installed mju_user_error that returns voids the contract: callers "
                       "of mju_malloc would then see NULL)",
                       "callers of mju_malloc rely on its contract: non-NULL for size > 0",
                       "the AST is that of this host's configuration (non-Windows, C11 aligned_alloc)"]


XU = "src/xml/xml_util.cc"
UO = "src/user/user_util.cc"
IO = "src/engine/engine_io.c"
MUTANTS = [
    {"id": "malloc-in-engine-io", "expect": ("R-WHO-CALLS", ":malloc"),
     "edits": [(IO, "  d->arena = mju_malloc(d->narena);", "  d->arena = malloc(d->narena);")]},
    {"id": "strdup-in-cxx", "expect": ("R-WHO-CALLS", "strdup"),
     "edits": [(UO, "namespace mujoco::user {", "namespace mujoco::user {\nchar* DupForC21(const char* s) { return strdup(s); }\n")]},
    {"id": "std-malloc-in-xml", "expect": ("R-WHO-CALLS", "malloc"),
     "edits": [(XU, "namespace {", "namespace {\nvoid* RawForC21(std::size_t n) { return std::malloc(n); }\n")]},
    {"id": "malloc-address-taken", "expect": ("R-WHO-CALLS", "malloc"),
     "edits": [(IO, "// number of bytes to be skipped to achieve 64-byte alignment", "static void* (*c21_alloc)(size_t) = malloc;\n// number of bytes to be skipped to achieve 64-byte alignment")]},
    {"id": "silent-null", "expect": ("R-MUSTPASS", "mju_malloc"),
     "edits": [(ERRMEM, "  if (!ptr && size > 0) {\n    mju_error(\"Could not allocate memory\");\n  }\n  return ptr;", "  return ptr;")]},
    {"id": "warning-instead-of-error", "expect": ("R-MUSTPASS", "mju_malloc"),
     "edits": [(ERRMEM, "  if (!ptr && size > 0) {\n    mju_error(\"Could not allocate memory\");\n  }\n  return ptr;",
                "  if (!ptr && size > 0) {\n    mju_warning(\"Could not allocate memory\");\n  }\n  return ptr;")]},
    {"id": "early-null-for-huge", "expect": ("R-MUSTPASS", "mju_malloc"),
     "edits": [(ERRMEM, "void* mju_malloc(size_t size) {\n  void* ptr = 0;\n", "void* mju_malloc(size_t size) {\n  void* ptr = 0;\n  if (size > ((size_t)1 << 40)) return ptr;\n")]},
    {"id": "hook-path-unchecked", "expect": ("R-MUSTPASS", "mju_malloc:user-hook"),
     "edits": [(ERRMEM, "  if (mju_user_malloc) {\n    ptr = mju_user_malloc(size);\n  } else {", "  if (mju_user_malloc) {\n    return mju_user_malloc(size);\n  } else {")]},
    {"id": "export-raw-helper", "expect": ("R-WHO-CALLS", "mju_alignedMalloc"),
     "edits": [(ERRMEM, "static inline void* mju_alignedMalloc(size_t size, size_t align) {", "void* mju_alignedMalloc(size_t size, size_t align) {")]},
    # controls
    {"id": "ctl-nested-test", "expect": None,
     "edits": [(ERRMEM, "  if (!ptr && size > 0) {\n    mju_error(\"Could not allocate memory\");\n  }\n  return ptr;",
                "  if (size > 0) {\n    if (ptr == NULL) {\n      mju_error(\"Could not allocate memory\");\n    }\n  }\n  return ptr;")]},
    {"id": "ctl-rename-local", "expect": None,
     "edits": [(ERRMEM, "  void* ptr = 0;\n\n  if (mju_user_malloc) {\n    ptr = mju_user_malloc(size);", "  void* block = 0;\n  void* ptr = 0;\n\n  if (mju_user_malloc) {\n    block = mju_user_malloc(size);\n    ptr = block;")]},
    {"id": "ctl-free-is-fine", "expect": None,
     "edits": [(UO, "namespace mujoco::user {", "namespace mujoco::user {\nvoid ReleaseForC21(void* p) { free(p); }\n")]},
]


def selftest(res):
    r_misc.run_mutants("C21", res, MUTANTS)
