"""C21 Allocation failure never causes undefined behaviour (structure: one hookable choke point that always reports).

Decided:
  R-WHO-CALLS   every reference (call or address-taken, also in uninstantiated templates) to a raw allocator
                (malloc, calloc, realloc, aligned_alloc, posix_memalign, strdup, ... ; free is fine) in the clang AST of
                src/engine/*.c, src/engine/*.cc, src/user/*.cc, src/xml/*.cc and of the headers of src/user, src/xml (a
                header probe; engine headers are seen through the C translation units) lies in
                engine_util_errmem.c; inside that file the referencing functions are static and reachable only from
                mju_malloc (the choke point that consults the mju_user_malloc hook)
  R-MUSTPASS    in mju_malloc every path that returns a possibly-NULL pointer for a request of size > 0 ends in the
                error channel first: at each `return p` either p was tested non-NULL on the path or the size was tested
                not positive, the remaining paths having ended in mju_error (non-returning); decided for the user-hook
                path and the default aligned-allocation path separately; both must exist
  R-FREE-NULL   in user_model.cc, a model/data pointer that the compiler's error path can see (reference parameter, volatile
                local, member) is set to nullptr right after it is released, before any call that may raise
  R-PUBLISH-INIT mj_makeRawData-like functions publish a fresh object through their out-parameter only after every field the
                matching destructor reads has been set
Not decided: null handling at the call sites of mju_malloc (they rely on its contract: an assumption, not a check);
leaks / double frees under fault sequences; C++ operator new / containers (std::bad_alloc is not an allocator return);
platform branches not compiled on this host (_WIN32: _aligned_malloc); third-party code (tinyxml2, qhull, lodepng, glad).
"""
from __future__ import annotations

import os
import re

from .. import cfront, cir, engine, paths, r_misc
from ..cfront import AnalysisError

ERRMEM = "src/engine/engine_util_errmem.c"
SCOPE = ("src/engine/", "src/user/", "src/xml/")
# (file, function, allocator) -> reason ; one symbol per line
EXCEPTIONS = {
}


def cxx_tus(repo):
    out = []
    for d in ("engine", "user", "xml"):
        full = os.path.join(repo, "src", d)
        if not os.path.isdir(full):
            raise AnalysisError(f"directory src/{d} vanished")
        out += [f"src/{d}/{f}" for f in sorted(os.listdir(full)) if f.endswith(".cc")]
    return out


def header_probe(repo):
    hs = []
    for d in ("src/user", "src/xml"):
        hs += [f"{d}/{f}" for f in sorted(os.listdir(os.path.join(repo, d))) if f.endswith(".h")]
    text = "".join(f'#include "{h[4:]}"\n' for h in hs)
    os.makedirs(cfront.CACHE, exist_ok=True)
    p = os.path.join(cfront.CACHE, "c21_probe_headers.cc")
    try:
        old = open(p).read()
    except OSError:
        old = None
    if old != text:
        with open(p, "w") as f:
            f.write(text)
    return p, hs


def who_calls(res):
    repo = cfront.REPO
    ctus = engine.engine_tus()
    xtus = cxx_tus(repo)
    if len(ctus) < 30 or len(xtus) < 15:
        raise AnalysisError(f"translation units lost: {len(ctus)} C, {len(xtus)} C++")
    # C++ files: tolerant -- a file that does not parse with the stubs is listed, not decided
    unparsed = []
    ok_x = []
    try:
        cfront.load_tus(xtus, repo, load=False)
        ok_x = list(xtus)
    except AnalysisError:
        for t in xtus:
            try:
                cfront.load_tu(t, repo)
                ok_x.append(t)
            except AnalysisError as e:
                unparsed.append({"tu": t, "error": str(e)[:200]})
    per = engine.map_tus("sa.r_misc", "raw_alloc_refs", ctus + ok_x)
    probe, hs = header_probe(repo)
    try:
        per["<headers of src/user, src/xml>"] = r_misc.raw_alloc_refs(cir.Unit(cfront.load_tu(probe, repo, lang="cxx", types=True)))
        res.extra["header_probe"] = {"headers": len(hs)}
    except AnalysisError as e:
        unparsed.append({"tu": "header probe", "error": str(e)[:300]})
    res.extra["unparsed"] = unparsed
    res.count("c_tus", len(ctus))
    res.count("cxx_tus", len(ok_x))
    if len(unparsed) > 3:
        raise AnalysisError(f"{len(unparsed)} C++ files could not be parsed: {[u['tu'] for u in unparsed]}")
    sites = {}
    outside = []
    for tu, hits in per.items():
        for h in hits:
            f = h["file"] or tu
            if not f.startswith(SCOPE):
                outside.append(f"{f}:{h['func']}:{h['name']}")
                continue
            sites.setdefault((f, h["func"], h["name"]), h)
    res.extra["references_outside_scope"] = sorted(set(outside))
    # every analysed TU is an obligation: "no raw allocator outside the choke point in this file"
    for tu in sorted(per):
        if tu == ERRMEM:
            continue
        bad = sorted(k for k in sites if k[0] == tu or (tu.startswith("<") and not k[0].endswith((".c", ".cc"))))
        if not bad:
            res.ok("R-WHO-CALLS", tu, None)
    for (f, func, name), h in sorted(sites.items()):
        c = f"{func}:{name}"
        if f == ERRMEM:
            continue
        if (f, func, name) in EXCEPTIONS:
            res.ok("R-WHO-CALLS", c, {"exception": EXCEPTIONS[(f, func, name)]})
            continue
        res.bad("R-WHO-CALLS", c, f, h["line"],
                f"{func} references the raw allocator {name}() outside engine_util_errmem.c: the allocation bypasses the "
                f"mju_user_malloc hook and its failure is not routed through mju_error (a NULL result is the caller's "
                f"problem)")
    # inside the choke-point file
    u = engine.unit(ERRMEM)
    if "mju_malloc" not in u.funcs or "mju_free" not in u.funcs:
        raise AnalysisError("anchor mju_malloc / mju_free missing in engine_util_errmem.c")
    inner = {k: h for k, h in sites.items() if k[0] == ERRMEM}
    if not inner:
        raise AnalysisError("no raw allocator reference found in engine_util_errmem.c: the choke point moved")
    callers = {}
    for n, fn in u.funcs.items():
        for c in cir.calls(fn):
            if cir.callee(c) in u.funcs:
                callers.setdefault(cir.callee(c), set()).add(n)
    raw_funcs = {k[1] for k in inner}
    for (f, func, name), h in sorted(inner.items()):
        c = f"engine_util_errmem.c:{func}:{name}"
        fn = u.funcs.get(func)
        if func == "mju_malloc":
            res.ok("R-WHO-CALLS", c, {"choke_point": True})
            continue
        # walk up: every transitive caller chain must end in mju_malloc, all intermediates static
        okk, seen, work = fn is not None, set(), [func]
        while work and okk:
            x = work.pop()
            if x in seen:
                continue
            seen.add(x)
            if x == "mju_malloc":
                continue
            fx = u.funcs.get(x)
            if fx is None or fx.get("storageClass") != "static" or not callers.get(x):
                okk = False
                break
            work += sorted(callers[x])
        addr_taken = any(x.get("k") == "DeclRefExpr" and (x.get("ref") or {}).get("n") in raw_funcs - {"mju_malloc"}
                         and (x.get("ref") or {}).get("k") == "FunctionDecl" and not _is_callee(x, fnn)
                         for fnn in u.funcs.values() for x in cir.walk(fnn))
        if okk and not addr_taken:
            res.ok("R-WHO-CALLS", c, {"reached_only_from": "mju_malloc"})
        else:
            res.bad("R-WHO-CALLS", c, ERRMEM, h["line"],
                    f"{func} calls {name}() but is not a static helper reachable only from mju_malloc: its result can "
                    f"reach callers without the hook and without the error report")
    return u, raw_funcs


def _is_callee(ref, fn):
    # is this DeclRefExpr the callee of some call (rather than an address-taken function)
    for c in cir.calls(fn):
        ce = cir.callee_expr(c)
        if ce is ref:
            return True
    return False


class NullReturn(paths.Rule):
    """state: (source, facts) ; facts = frozenset of (key, truth) for the tracked keys"""

    def __init__(self, size_param, alloc_helpers, hook):
        self.size = size_param
        self.helpers = alloc_helpers
        self.hook = hook
        self.sources = set()
        self.size_keys = {size_param, f"{size_param} > 0", f"{size_param} != 0"}

    def initial(self, fn):
        return (None, frozenset())

    def _forget(self, facts, name):
        return frozenset(f for f in facts if name not in f[2])

    def assign(self, st, node, ctx):
        src, facts = st
        if node.get("k") == "VarDecl":
            name, rhs = node.get("n"), r_misc.var_init(node)
        else:
            t = cir.strip(cir.kids(node)[0])
            name = (t.get("ref") or {}).get("n") if t is not None and t.get("k") == "DeclRefExpr" else None
            rhs = cir.kids(node)[1] if node.get("k") == "BinaryOperator" else None
        if name is None:
            return st
        facts = self._forget(facts, name)
        s = cir.strip(rhs) if rhs is not None else None
        if cir.is_call(s):
            nm = cir.callee(s)
            if nm is None and cir.text(cir.callee_expr(s)) == self.hook:
                src = "user-hook"
            elif nm in self.helpers:
                src = "default"
            else:
                src = "other"
            self.sources.add(src)
        return (src, facts)

    def branch(self, st, cond, taken, ctx):
        nc = paths.norm_cond(cond)
        if nc is None:
            return st
        key, pol, vs = nc
        truth = taken if pol else (not taken)
        src, facts = st
        for f in facts:
            if f[0] == key and f[1] != truth:
                return None
        return (src, facts | {(key, truth, tuple(sorted(vs)))})

    def ret(self, st, node, ctx):
        src, facts = st
        c = [x for x in cir.kids(node) if x is not None]
        if not c:
            return
        v = cir.strip(c[0])
        known = {f[0]: f[1] for f in facts}
        size_nonpos = any(known.get(k) is False for k in self.size_keys)
        nonnull = False
        if v is not None and v.get("k") == "DeclRefExpr":
            nonnull = known.get(cir.text(v)) is True
        elif cir.is_call(v):
            nonnull = False
        ctx.exits.append((src, size_nonpos or nonnull))
        if not (size_nonpos or nonnull):
            ctx.report(node, f"`return {cir.text(c[0])}` is reached on a path ({src or 'no allocation'}) where the pointer may be "
                       f"NULL for size > 0 and mju_error was not raised", source=src)


def mustpass(res, u, raw_funcs):
    fn = u.funcs["mju_malloc"]
    ps = cir.params(fn)
    if len(ps) != 1:
        raise AnalysisError("mju_malloc: expected one (size) parameter")
    if "mju_user_malloc" not in u.vars:
        raise AnalysisError("the allocator hook mju_user_malloc is not defined in engine_util_errmem.c")
    helpers = set(raw_funcs) - {"mju_malloc"}
    rule = NullReturn(ps[0].get("n"), helpers, "mju_user_malloc")
    ex = paths.Explorer(rule, u, fn)
    ex.ctx.exits = []
    ex.run()
    reports = ex.ctx.reports
    by_src = {}
    for src, ok_ in ex.ctx.exits:
        by_src.setdefault(src, []).append(ok_)
    # the error channel itself must be on some path (otherwise the facts came from something else)
    err = [c for c in cir.calls(fn) if paths.is_noreturn_call(c, paths.error_msg_vars(fn))]
    if not err:
        res.bad("R-MUSTPASS", "mju_malloc:error-channel", ERRMEM, fn.get("line"),
                "mju_malloc never calls mju_error: an allocation failure cannot surface through the error channel")
    else:
        res.ok("R-MUSTPASS", "mju_malloc:error-channel", {"call": cir.text(err[0])[:80]})
    for src, label in (("user-hook", "user-hook"), ("default", "aligned-default")):
        c = f"mju_malloc:{label}"
        if src not in rule.sources:
            res.bad("R-MUSTPASS", c, ERRMEM, fn.get("line"),
                    f"mju_malloc has no {label} allocation path any more (the hookable choke point changed shape)")
            continue
        bad = [r for r in reports if r.get("source") == src]
        if bad:
            res.bad("R-MUSTPASS", c, ERRMEM, bad[0]["line"], bad[0]["msg"])
        else:
            res.ok("R-MUSTPASS", c, {"returns": len(by_src.get(src, []))})
    other = [r for r in reports if r.get("source") not in ("user-hook", "default")]
    if other:
        res.bad("R-MUSTPASS", "mju_malloc:other-paths", ERRMEM, other[0]["line"], other[0]["msg"])
    else:
        res.ok("R-MUSTPASS", "mju_malloc:other-paths", None)
    # the hook must be consulted before the default allocator: the default path is taken only when the hook is unset
    defaults = [c for c in cir.calls(fn) if cir.callee(c) in helpers]
    guarded = True
    for n in cir.walk(fn):
        if n.get("k") == "IfStmt":
            cond, then, els = r_misc.if_parts(n)
            nc = paths.norm_cond(cond)
            if nc and nc[0] == "mju_user_malloc":
                tb, eb = (then, els) if nc[1] else (els, then)
                ids = r_misc.node_ids(eb) if eb is not None else set()
                guarded = all(id(c) in ids for c in defaults)
    if defaults and guarded:
        res.ok("R-MUSTPASS", "mju_malloc:hook-precedence", None)
    else:
        res.bad("R-MUSTPASS", "mju_malloc:hook-precedence", ERRMEM, fn.get("line"),
                "the default allocator is not confined to the branch where mju_user_malloc is unset")


UM = "src/user/user_model.cc"
DELETERS = ("mj_deleteData", "mj_deleteModel")


def free_null(res):
    """R-FREE-NULL: the compiler's error path (setjmp/longjmp out of mju_error, catch blocks) releases the model/data pointers
    it can see.  A pointer that an error handler can see (a reference parameter, a `volatile` local, a class member) must
    therefore not dangle while a call that may raise runs: after mj_deleteData(p) / mj_deleteModel(p) the next thing that
    happens to p is `p = nullptr` — before any other call."""
    ir = cfront.load_tu(UM, lang="cxx")
    res.rule("R-FREE-NULL", "a handler-visible pointer is nulled right after it is released (before any call that may raise)", floor=3)
    n = 0
    for d in ir["decls"]:
        for fn in cir.walk(d):
            if fn.get("k") not in ("CXXMethodDecl", "FunctionDecl") or cir.body(fn) is None:
                continue
            volat = {x.get("n") for x in cir.walk(fn) if x.get("k") == "VarDecl" and "volatile" in (x.get("t") or "")}
            refs = {p_.get("n") for p_ in cir.params(fn) if (p_.get("t") or "").rstrip().endswith("&")}

            def visible(e):
                x = cir.strip(e)
                if x is None:
                    return False
                if x.get("k") == "DeclRefExpr":
                    return (x.get("ref") or {}).get("n") in (volat | refs)
                if x.get("k") == "MemberExpr":
                    b = cir.strip(cir.kids(x)[0]) if cir.kids(x) else None
                    return b is None or b.get("k") == "CXXThisExpr"
                return False

            def lists(node):
                if node.get("k") == "CompoundStmt":
                    yield [c for c in cir.kids(node) if c is not None]
                for c in cir.kids(node):
                    if c is not None and c.get("k") != "LambdaExpr":
                        yield from lists(c)
            for stmts in lists(cir.body(fn)):
                for i, st in enumerate(stmts):
                    x = cir.strip(st)
                    if not (cir.is_call(x) and cir.callee(x) in DELETERS and cir.args(x) and visible(cir.args(x)[0])):
                        continue
                    n += 1
                    ptxt = cir.text(cir.args(x)[0])
                    okn, why = False, "nothing follows the release in this block"
                    for nxt in stmts[i + 1:]:
                        y = cir.strip(nxt)
                        if y is not None and y.get("k") in ("BinaryOperator", "CXXOperatorCallExpr") and y.get("op", "=") == "=" and \
                                cir.text(cir.kids(y)[0 if y.get("k") == "BinaryOperator" else 1]) == ptxt:
                            rhs = cir.text(cir.kids(y)[-1])
                            okn = rhs in ("nullptr", "NULL", "0") or not any(cir.is_call(z) for z in cir.walk(cir.kids(y)[-1]))
                            why = f"`{ptxt}` is next assigned `{rhs[:40]}`, the result of a call that may raise while it still dangles"
                            break
                        if any(cir.is_call(z) for z in cir.walk(nxt)):
                            why = f"`{cir.text(nxt)[:60]}` runs while `{ptxt}` still points to the released object"
                            break
                    key = f"{fn.get('n')}:{cir.callee(x)}({ptxt})"
                    if okn:
                        res.ok("R-FREE-NULL", key, {"line": x.get("line")})
                    else:
                        res.bad("R-FREE-NULL", key, UM, x.get("line"),
                                f"{fn.get('n')} releases `{ptxt}` (visible to the error path: reference / volatile / member) and does not "
                                f"null it at once: {why}; if that call raises, the handler releases the same object again")
    if n == 0:
        raise AnalysisError(f"{UM}: no release of a handler-visible model/data pointer found")


def publish_init(res):
    """R-PUBLISH-INIT: a constructor-like C function that hands a freshly allocated object back through an out-parameter
    (`*dest = d`) must do so only when everything the matching destructor reads from the object has been initialised: every
    store to such a field precedes the publication.  Otherwise a caller whose error handler does not return (the model
    compiler) releases a half-initialised object after an allocation failure."""
    from .. import modref, norm
    u = engine.unit(IO)
    res.rule("R-PUBLISH-INIT", "an object is published through an out-parameter only after the fields its destructor reads are set", floor=1)
    pairs = {"mjData": "mj_deleteData", "mjModel": "mj_deleteModel"}
    n = 0
    for name, fn0 in u.funcs.items():
        outs = {p_.get("n"): p_.get("t") for p_ in cir.params(fn0) if (p_.get("t") or "").replace(" ", "").endswith("**")}
        if not outs:
            continue
        fn = norm.canon(u, name, nested=False)
        order = {id(x): i for i, x in enumerate(cir.walk(fn))}
        for x in cir.walk(fn):
            if not (x.get("k") == "BinaryOperator" and x.get("op") == "="):
                continue
            l = cir.strip(cir.kids(x)[0])
            if not (l is not None and l.get("k") == "UnaryOperator" and l.get("op") == "*" and cir.text(cir.kids(l)[0]) in outs):
                continue
            r = cir.strip(cir.kids(x)[1])
            if r is None or r.get("k") != "DeclRefExpr" or cir.text(r) in ("NULL", "0"):
                continue
            st = modref._struct_of(outs[cir.text(cir.kids(l)[0])].replace("**", "*"))
            dtor = u.funcs.get(pairs.get(st, ""))
            if dtor is None:
                continue
            n += 1
            # everything the destructor (with what it calls, across the engine) reads from the object
            from .. import callgraph, r_fresh
            g_ = callgraph.build(reads=True)
            k_ = g_.find(pairs[st])
            need = set(r_fresh.summary(g_, k_)[0]) if (k_ is not None and st == "mjData") else \
                {e["field"] for e in modref.events(dtor, {st}, reads=True) if e["kind"] == "read"}
            obj = cir.text(r)
            late = []
            for e_ in cir.walk(fn):
                if (e_.get("k") == "BinaryOperator" and e_.get("op") == "=") or e_.get("k") == "CompoundAssignOperator":
                    rf = modref.root_field(cir.kids(e_)[0])
                    if rf and rf[3] == obj and rf[1] in need and order[id(e_)] > order[id(x)]:
                        late.append((rf[1], e_.get("line")))
            key = f"{name}:*{cir.text(cir.kids(l)[0])}"
            if late:
                res.bad("R-PUBLISH-INIT", key, IO, x.get("line"),
                        f"{name} stores the new object into *{cir.text(cir.kids(l)[0])} (line {x.get('line')}) before it sets "
                        f"{sorted({f for f, _l in late})[:5]}, which {pairs[st]} reads: if an allocation in between raises and the caller's "
                        f"handler releases *{cir.text(cir.kids(l)[0])}, the destructor acts on uninitialised fields")
            else:
                res.ok("R-PUBLISH-INIT", key, {"destructor_reads": len(need)})
    if n == 0:
        raise AnalysisError(f"{IO}: no publication of a fresh object through an out-parameter found")



def alloc_guard(res):
    """R-ALLOC-GUARD: in the C++ API functions that collect their releases in a scope guard (a local of the `Cleanup` class, to
    which lambdas are appended with +=), every block obtained from mju_malloc is handed to the guard before the function can
    leave: between the assignment `X = mju_malloc(..)` and the `guard += [..]{ .. mju_free(<X>) .. }` that releases it, in
    source order, there is no `return` other than under a test that X itself is null.  (A release registered only after a
    second allocation leaks the first block when the second fails.)"""
    UA = "src/user/user_api.cc"
    ir = cfront.load_tu(UA, lang="cxx")
    res.rule("R-ALLOC-GUARD", "a block from mju_malloc is handed to the function's scope guard before any return that is not under its "
             "own null test", floor=2)
    n = 0
    for d in ir["decls"]:
        for fn in cir.walk(d):
            if fn.get("k") not in ("CXXMethodDecl", "FunctionDecl") or cir.body(fn) is None or (fn.get("file") or UA) != UA:
                continue
            guards = {x.get("n") for x in cir.walk(fn) if x.get("k") == "VarDecl" and re.search(r"\bCleanup\b", x.get("t") or "")}
            if not guards:
                continue
            # source-order event list: (kind, payload, enclosing null tests)
            events = []

            def visit(node, tests):
                k = node.get("k")
                if k == "LambdaExpr":
                    return
                if k == "IfStmt":
                    kids = [c for c in cir.kids(node)]
                    idx = int(bool(node.get("hasInit"))) + int(bool(node.get("hasVar")))
                    cond = kids[idx]
                    visit(cond, tests)
                    ct = cir.text(cond).replace(" ", "")
                    m_ = re.fullmatch(r"\(?(.+?)==(?:nullptr|NULL|0)\)?", ct) or re.fullmatch(r"!\(?(.+?)\)?", ct)
                    nulls = {m_.group(1)} if m_ else set()
                    m2 = re.fullmatch(r"\(?(.+?)(?:!=(?:nullptr|NULL|0))?\)?", ct)
                    if len(kids) > idx + 1 and kids[idx + 1] is not None:
                        visit(kids[idx + 1], set(tests) | nulls)
                    if len(kids) > idx + 2 and kids[idx + 2] is not None:
                        visit(kids[idx + 2], set(tests) | ({m2.group(1)} if (m2 and not m_) else set()))
                    return
                ksa = [c for c in cir.kids(node) if c is not None]
                if (k == "BinaryOperator" and node.get("op") == "=") or \
                        (k == "CXXOperatorCallExpr" and ksa and cir.text(ksa[0]).replace(" ", "") == "operator=" and len(ksa) > 2):
                    ks = ksa
                    lhs, rhs = (ks[0], ks[-1]) if k == "BinaryOperator" else (ks[1], ks[-1])
                    if any(cir.is_call(z) and cir.callee(z) == "mju_malloc" for z in cir.walk(rhs)):
                        tests.discard(cir.text(lhs).replace(" ", ""))       # what was known about the old value is gone
                        events.append(("alloc", cir.text(lhs).replace(" ", ""), frozenset(tests), node.get("line")))
                if k == "VarDecl":
                    iv = [c for c in cir.kids(node) if c is not None]
                    if iv and any(cir.is_call(z) and cir.callee(z) == "mju_malloc" for z in cir.walk(iv[-1])):
                        events.append(("alloc", node.get("n"), tests, node.get("line")))
                ks0 = [c for c in cir.kids(node) if c is not None]
                if (k == "CompoundAssignOperator" and node.get("op") == "+=") or \
                        (k == "CXXOperatorCallExpr" and ks0 and cir.text(ks0[0]).replace(" ", "") == "operator+=" and len(ks0) > 1):
                    ks = ks0
                    tgt = cir.text(ks[1] if k == "CXXOperatorCallExpr" else ks[0])
                    if tgt in guards:
                        freed = set()
                        for lam in cir.walk(node):
                            if lam.get("k") == "LambdaExpr":
                                for z in cir.walk(lam):
                                    if cir.is_call(z) and cir.callee(z) in ("mju_free", "free") and cir.args(z):
                                        freed.add(cir.text(cir.args(z)[0]).replace(" ", ""))
                        events.append(("guard", freed, frozenset(tests), node.get("line")))
                        return
                if k == "ReturnStmt":
                    events.append(("return", None, frozenset(tests), node.get("line")))
                for c in cir.kids(node):
                    if c is not None:
                        visit(c, tests)
            visit(cir.body(fn), set())
            open_ = {}
            for kind, payload, tests, line in events:
                if kind == "alloc":
                    open_[payload] = line
                elif kind == "guard":
                    for f_ in payload:
                        open_.pop(f_, None)
                elif kind == "return":
                    for x_, l0 in list(open_.items()):
                        if x_ in tests:
                            continue                      # the block itself is null on this path: nothing to release
                        n += 1
                        res.bad("R-ALLOC-GUARD", f"{fn.get('n')}:{x_}", UA, line,
                                f"{fn.get('n')} can return at line {line} after `{x_} = mju_malloc(..)` (line {l0}) and before the release of "
                                f"`{x_}` is handed to the scope guard: the block leaks on that path (e.g. when a later allocation fails)")
                        open_.pop(x_, None)
            for kind, payload, tests, line in events:
                if kind == "alloc" and not any(v.get("rule") == "R-ALLOC-GUARD" and v.get("construct") == f"{fn.get('n')}:{payload}"
                                               for v in res.violations):
                    n += 1
                    res.ok("R-ALLOC-GUARD", f"{fn.get('n')}:{payload}", {"line": line})
    if n == 0:
        raise AnalysisError(f"{UA}: no mju_malloc inside a function with a Cleanup scope guard found")


def run(res, tier):
    res.rule("R-WHO-CALLS", "raw allocators referenced only inside the choke point of engine_util_errmem.c", floor=55)
    u, raw_funcs = who_calls(res)
    res.rule("R-MUSTPASS", "mju_malloc: no possibly-NULL return for size > 0 without mju_error", floor=5)
    mustpass(res, u, raw_funcs)
    free_null(res)
    publish_init(res)
    alloc_guard(res)
    res.explanation = (
        "References to raw allocators in the clang AST of all C and C++ translation units of src/engine, src/user, src/xml "
        "and of the src/user, src/xml headers (calls, address-taken, dependent names in templates); caller chains inside "
        "engine_util_errmem.c; all-paths rule with correlated null/size facts over mju_malloc for the hook and the default "
        "path.")
    res.not_decided = ("null handling at mju_malloc call sites (they rely on the contract below); leak / double free under "
                       "fault sequences; operator new and standard containers; branches not compiled on this host (_WIN32); "
                       "third-party libraries.")
    res.assumptions = ["error handlers do not return (a user-installed mju_user_error that returns voids the contract: callers "
                       "of mju_malloc would then see NULL)",
                       "callers of mju_malloc rely on its contract: non-NULL for size > 0",
                       "the AST is that of this host's configuration (non-Windows, C11 aligned_alloc)"]


XU = "src/xml/xml_util.cc"
UO = "src/user/user_util.cc"
IO = "src/engine/engine_io.c"
MUTANTS = [
    {"id": "guard-registered-after-second-alloc", "expect": ("R-ALLOC-GUARD", "mj_parse:resource"),
     "edits": [("src/user/user_api.cc", "    cleanup  += [resource]() {\n      if (resource) mju_free(resource);\n    };\n\n    if (resource == nullptr) {",
                "    if (resource == nullptr) {"),
               ("src/user/user_api.cc", "    cleanup              += [resource]() {\n      if (resource) mju_free(resource->name);\n    };\n", ""),
               ("src/user/user_api.cc", "    memcpy(resource->name, fullname.c_str(), sizeof(char) * (n + 1));\n",
                "    memcpy(resource->name, fullname.c_str(), sizeof(char) * (n + 1));\n"
                "    cleanup += [resource]() { mju_free(resource->name); mju_free(resource); };\n")]},
    {"id": "ctl-guard-null-test-first", "expect": None,
     "edits": [("src/user/user_api.cc", "    cleanup  += [resource]() {\n      if (resource) mju_free(resource);\n    };\n\n    if (resource == nullptr) {\n      if (error) {\n        strncpy(error, \"could not allocate memory\", error_sz);\n        error[error_sz - 1] = '\\0';\n      }\n      return nullptr;\n    }\n",
                "    if (resource == nullptr) {\n      if (error) {\n        strncpy(error, \"could not allocate memory\", error_sz);\n        error[error_sz - 1] = '\\0';\n      }\n      return nullptr;\n    }\n    cleanup  += [resource]() { mju_free(resource); };\n")]},
    {"id": "malloc-in-engine-io", "expect": ("R-WHO-CALLS", ":malloc"),
     "edits": [(IO, "  d->arena = mju_malloc(d->narena);", "  d->arena = malloc(d->narena);")]},
    {"id": "strdup-in-cxx", "expect": ("R-WHO-CALLS", "strdup"),
     "edits": [(UO, "namespace mujoco::user {", "namespace mujoco::user {\nchar* DupForC21(const char* s) { return strdup(s); }\n")]},
    {"id": "std-malloc-in-xml", "expect": ("R-WHO-CALLS", "malloc"),
     "edits": [(XU, "namespace {", "namespace {\nvoid* RawForC21(std::size_t n) { return std::malloc(n); }\n")]},
    {"id": "malloc-address-taken", "expect": ("R-WHO-CALLS", "malloc"),
     "edits": [(IO, "// number of bytes to be skipped to achieve 64-byte alignment", "static void* (*c21_alloc)(size_t) = malloc;\n// number of bytes to be skipped to achieve 64-byte alignment")]},
    {"id": "silent-null", "expect": ("R-MUSTPASS", "mju_malloc"),
     "edits": [(ERRMEM, "  if (!ptr && size > 0) {\n    mju_error(\"Could not allocate memory\");\n  }\n  return ptr;", "  return ptr;")]},
    {"id": "warning-instead-of-error", "expect": ("R-MUSTPASS", "mju_malloc"),
     "edits": [(ERRMEM, "  if (!ptr && size > 0) {\n    mju_error(\"Could not allocate memory\");\n  }\n  return ptr;",
                "  if (!ptr && size > 0) {\n    mju_warning(\"Could not allocate memory\");\n  }\n  return ptr;")]},
    {"id": "early-null-for-huge", "expect": ("R-MUSTPASS", "mju_malloc"),
     "edits": [(ERRMEM, "void* mju_malloc(size_t size) {\n  void* ptr = 0;\n", "void* mju_malloc(size_t size) {\n  void* ptr = 0;\n  if (size > ((size_t)1 << 40)) return ptr;\n")]},
    {"id": "hook-path-unchecked", "expect": ("R-MUSTPASS", "mju_malloc:user-hook"),
     "edits": [(ERRMEM, "  if (mju_user_malloc) {\n    ptr = mju_user_malloc(size);\n  } else {", "  if (mju_user_malloc) {\n    return mju_user_malloc(size);\n  } else {")]},
    {"id": "export-raw-helper", "expect": ("R-WHO-CALLS", "mju_alignedMalloc"),
     "edits": [(ERRMEM, "static inline void* mju_alignedMalloc(size_t size, size_t align) {", "void* mju_alignedMalloc(size_t size, size_t align) {")]},
    # controls
    {"id": "ctl-nested-test", "expect": None,
     "edits": [(ERRMEM, "  if (!ptr && size > 0) {\n    mju_error(\"Could not allocate memory\");\n  }\n  return ptr;",
                "  if (size > 0) {\n    if (ptr == NULL) {\n      mju_error(\"Could not allocate memory\");\n    }\n  }\n  return ptr;")]},
    {"id": "ctl-rename-local", "expect": None,
     "edits": [(ERRMEM, "  void* ptr = 0;\n\n  if (mju_user_malloc) {\n    ptr = mju_user_malloc(size);", "  void* block = 0;\n  void* ptr = 0;\n\n  if (mju_user_malloc) {\n    block = mju_user_malloc(size);\n    ptr = block;")]},
    {"id": "ctl-free-is-fine", "expect": None,
     "edits": [(UO, "namespace mujoco::user {", "namespace mujoco::user {\nvoid ReleaseForC21(void* p) { free(p); }\n")]},
]


def selftest(res):
    r_misc.run_mutants("C21", res, MUTANTS)
