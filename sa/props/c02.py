"""C02 Multithreaded stepping is bit-identical to single-threaded.

Decided (R-TASK, necessary structural conditions on the code that runs on pool threads):
  T1  the task functions are discovered as the function arguments of every mju_dispatch call in the engine; for the closure
      of each (call graph incl. the collision function table and local function pointers):
  T2  no arena allocation is reachable (the arena pointer is a plain shared counter; contacts/constraints are placed by
      the dispatching thread after the join)
  T3  no nested dispatch and no pool management call
  T4  every object of static storage written in the closure is thread-local
  T5  scalar members of mjData written in the closure are only those of the stack allocator, whose threadlock branch is
      decided under C19 (atomic reservation); any other scalar mjData write from a task is a shared unsynchronised write
  T6  mju_dispatch itself: on every path the pool dispatch happens with a frame open and d->threadlock set, and both are
      undone (unlock before free, since free is a no-op under threadlock) before returning; d->threadlock has no other writer
  T7  the serial fallback calls func(m, d, arg, 0, i) once for every i in [0, ntask); the pooled path passes the same
      func/arg/ntask
Not decided: disjointness of the index-addressed slices tasks write; absence of data races in general (needs a race
detector); bit-identity.
"""
from __future__ import annotations

from .. import callgraph, cir, ctypeinfo, engine, paths, xmacro
from ..cfront import AnalysisError

STACK_ALLOCATOR = {"pstack", "pbase", "maxuse_stack", "maxuse_arena"}
ALLOCATOR_TU = "src/engine/engine_memory.c"
LOG_TU = "src/engine/engine_util_errmem.c"


def run(res, tier):
    g = callgraph.build()
    tasks = {}
    sites = []
    for k, f in g.funcs.items():
        for callee, i, fname in f.get("passed", ()):
            if callee == "mju_dispatch":
                r = g.resolve(k[0], fname)
                if r is None:
                    raise AnalysisError(f"task function {fname} passed to mju_dispatch in {k[1]} has no definition")
                tasks[r] = k
                sites.append((k, fname))
    if len(tasks) < 3:
        raise AnalysisError(f"only {len(tasks)} dispatch task functions found (expected >= 3)")
    res.rule("R-TASK", "code reachable from pool tasks: no arena allocation, no nested dispatch, thread-local statics, no shared "
             "scalar mjData writes", floor=100)
    scalars = {f["name"] for f in ctypeinfo.fields("mjData_") if "*" not in f["type"] and "[" not in f["type"]}
    statics = {}
    for (tu, name), v in g.statics.items():
        statics.setdefault(name, []).append(v)
    for task, site in sorted(tasks.items()):
        clo = g.closure([task])
        res.count("task_closure_functions", len(clo))
        res.extra.setdefault("tasks", {})[task[1]] = {"dispatched_from": site[1], "closure": len(clo)}
        for k in sorted(clo):
            f = g.funcs[k]
            problems = []
            if "mj_arenaAllocByte" in f["calls"]:
                problems.append(("arena", f["line"], "calls mj_arenaAllocByte: the arena pointer is a plain counter shared by all threads"))
            for c in f["calls"]:
                if c in ("mju_dispatch", "mju_threadpool", "mju_bindThreadPool"):
                    problems.append(("nested", f["line"], f"calls {c} from inside a pool task"))
            for var, line in f.get("gwrites", ()):
                infos = statics.get(var) or []
                if f["file"] == LOG_TU:
                    # the log channel (same named exception as C01 R-GLOBAL): its one-time configuration is claimed with an
                    # atomic exchange and its state flows only to log output, never back into the simulation
                    continue
                if not any(i.get("tls") for i in infos):
                    problems.append(("static", line, f"writes static-storage object `{var}` that is not thread-local"))
            for e in f["events"]:
                if e["struct"] == "mjData" and e["kind"] == "assign" and e["field"] in scalars:
                    if e["field"] in STACK_ALLOCATOR and f["file"] == ALLOCATOR_TU:
                        # owned by the allocator module; that all of its plain stores to these scalars happen with
                        # d->threadlock clear is decided by R-THREADLOCK below (module-wide clause)
                        continue
                    problems.append(("scalar", e["line"], f"writes scalar d->{e['field']} (shared, unsynchronised)"))
            if problems:
                for kind, line, msg in problems:
                    res.bad("R-TASK", f"{task[1]}:{k[1]}:{kind}", f["file"], line, f"{k[1]} (reachable from pool task {task[1]}) {msg}")
            else:
                res.ok("R-TASK", f"{task[1]}:{k[1]}", None)

    # ---------------------------------------------------------------- shared task argument
    # every task receives the same `arg`; tasks may write memory reached through it only at addresses derived from their
    # task index (array elements), never a scalar member of the shared argument structure (an unsynchronised RMW)
    res.rule("R-TASK-ARG", "task functions do not write scalar members of the shared task argument", floor=3)
    units = {}
    for task, site in sorted(tasks.items()):
        tu = task[0]
        if tu not in units:
            units[tu] = engine.unit(tu)
        fn = units[tu].funcs.get(task[1])
        if fn is None:
            raise AnalysisError(f"task function {task[1]} not found in {tu}")
        ps = cir.params(fn)
        argp = [p_.get("n") for p_ in ps if (p_.get("t") or "").replace(" ", "") == "void*"]
        if len(argp) != 1:
            raise AnalysisError(f"{task[1]}: cannot identify the void* task argument")
        shared = {argp[0]}
        # locals that are the argument itself (cast / copy), not offsets computed from it
        for x in cir.walk(fn):
            if x.get("k") == "VarDecl" and x.get("init"):
                init = cir.strip([c for c in cir.kids(x) if c][-1])
                if init is not None and init.get("k") == "DeclRefExpr" and (init.get("ref") or {}).get("n") in shared:
                    shared.add(x.get("n"))
        bad = []
        for n in cir.walk(fn):
            k_ = n.get("k")
            if (k_ == "BinaryOperator" and n.get("op") == "=") or k_ == "CompoundAssignOperator" or \
                    (k_ == "UnaryOperator" and n.get("op") in ("++", "--")):
                l = cir.strip(cir.kids(n)[0])
                if l is not None and l.get("k") == "MemberExpr" and l.get("arrow"):
                    b = cir.strip(cir.kids(l)[0])
                    if b is not None and b.get("k") == "DeclRefExpr" and (b.get("ref") or {}).get("n") in shared:
                        bad.append((n.get("line"), cir.text(n)))
                if l is not None and l.get("k") == "UnaryOperator" and l.get("op") == "*":
                    b = cir.strip(cir.kids(l)[0])
                    if b is not None and b.get("k") == "DeclRefExpr" and (b.get("ref") or {}).get("n") in shared:
                        bad.append((n.get("line"), cir.text(n)))
        if bad:
            for line, txt in bad:
                res.bad("R-TASK-ARG", f"{task[1]}:shared-arg-write", fn.get("file") or tu, line,
                        f"`{txt[:120]}` writes a scalar member of the argument shared by all tasks of the dispatch: concurrent tasks race on it "
                        f"(lost updates), results depend on the schedule")
        else:
            res.ok("R-TASK-ARG", task[1], {"shared_names": sorted(shared)})

    # the stack allocator's threadlock branch (shared with C19): atomic reservation, block derived from its result
    from . import c19 as _c19
    _c19.threadlock_shape(res)

    # ---------------------------------------------------------------- the dispatcher itself
    res.rule("R-DISPATCH", "mju_dispatch: serial fallback runs every task id once; pooled path brackets the pool dispatch with frame + "
             "threadlock on all paths; threadlock is written nowhere else", floor=4)
    from .. import cfront
    TH = "src/engine/engine_thread.cc"
    ir = cfront.load_tu(TH, lang="cxx", filt="mju_dispatch")
    fn = None
    for d_ in ir["decls"]:
        for n in cir.walk(d_):
            if n.get("k") == "FunctionDecl" and n.get("n") == "mju_dispatch" and cir.body(n) is not None:
                fn = n
    if fn is None:
        raise AnalysisError("mju_dispatch not found in engine_thread.cc")
    fn.setdefault("file", TH)
    params = [p.get("n") for p in cir.params(fn)]
    if len(params) != 5:
        raise AnalysisError("mju_dispatch: unexpected parameter list")
    pm, pd, pf, pa, pn = params

    class Bracket(paths.Rule):
        # state: (frames, lock, dispatched)
        def initial(self, fn_):
            return (0, 0, 0)

        def call(self, st, node, name, ctx):
            if name == "mj_markStack":
                return (st[0] + 1, st[1], st[2])
            if name == "mj_freeStack":
                if st[1]:
                    ctx.report(node, "mj_freeStack while d->threadlock is set is a no-op: the dispatch frame would leak")
                if st[0] < 1:
                    ctx.report(node, "mj_freeStack without the frame opened by this dispatch")
                return (max(st[0] - 1, 0), st[1], st[2])
            if name == "Dispatch":
                if st[0] < 1 or not st[1]:
                    ctx.report(node, "pool Dispatch reached without an open stack frame and d->threadlock set: task allocations would not "
                                     "use the atomic reservation / would outlive no frame")
                return (st[0], st[1], 1)
            return st

        def assign(self, st, node, ctx):
            if node.get("k") == "BinaryOperator" and node.get("op") == "=" and cir.text(cir.kids(node)[0]) == f"{pd}->threadlock":
                v = cir.text(cir.kids(node)[1])
                return (st[0], 0 if v in ("0", "false") else 1, st[2])
            return st

        def branch(self, st, cond, taken, ctx):
            nc = paths.norm_cond(cond)
            if nc is not None and nc[0] == f"{pd}->threadlock":
                val = taken if nc[1] else (not taken)
                if bool(st[1]) != val:
                    return None
            return st

        def _exit(self, st, node, ctx):
            if st[1]:
                ctx.report(node, "exit with d->threadlock still set")
            if st[0]:
                ctx.report(node, "exit with the dispatch frame still open")

        def ret(self, st, node, ctx):
            self._exit(st, node, ctx)

        def fallthrough(self, st, ctx):
            self._exit(st, ctx.fn, ctx)
    ctx = paths.explore(Bracket(), None, fn)
    if ctx.reports:
        for r in ctx.reports:
            res.bad("R-DISPATCH", "mju_dispatch:bracket", TH, r["line"], r["msg"])
    else:
        res.ok("R-DISPATCH", "mju_dispatch:bracket", None)
    # serial fallback
    # a loop (for or while) that counts a local from 0 to ntask by one and calls func(m, d, arg, 0, <that local>) once per
    # iteration, unconditionally inside the loop
    from .c26 import counted_loop
    from .. import norm
    okser = False
    fbody = cir.body(fn)
    for lp in cir.walk(fn):
        if lp.get("k") not in ("ForStmt", "WhileStmt"):
            continue
        body = cir.kids(lp)[-1]
        calls = [c for c in cir.walk(body) if cir.is_call(c) and cir.text(cir.kids(c)[0]) == pf]
        if len(calls) != 1:
            continue
        a_ = cir.args(calls[0])
        iv = cir.strip(a_[4]) if len(a_) == 5 else None
        if iv is None or iv.get("k") != "DeclRefExpr" or [cir.text(x) for x in a_[:4]] != [pm, pd, pa, "0"]:
            continue
        cl = counted_loop(fbody, lp, (iv.get("ref") or {}).get("id"))
        if cl["problems"] or cl["start"] != "0" or cl["bound"] != pn:
            continue
        if norm.guards(body, calls[0]):
            continue        # conditional inside the loop: some task ids would be skipped
        okser = True
    if okser:
        res.ok("R-DISPATCH", "mju_dispatch:serial-fallback", None)
    else:
        res.bad("R-DISPATCH", "mju_dispatch:serial-fallback", TH, fn.get("line"),
                "the no-pool path does not call func(m, d, arg, 0, i) exactly once for every i in [0, ntask)")
    # pooled path passes func, arg, ntask unchanged
    disp = [c for c in cir.walk(fn) if cir.is_call(c) and cir.callee(c) == "Dispatch"]
    if len(disp) == 1 and [cir.text(a) for a in cir.args(disp[0])] == [pm, pd, pf, pa, pn]:
        res.ok("R-DISPATCH", "mju_dispatch:pool-arguments", None)
    else:
        res.bad("R-DISPATCH", "mju_dispatch:pool-arguments", TH, fn.get("line"), "the pool is not given (m, d, func, arg, ntask) unchanged")
    # who writes threadlock in the C engine
    writers = sorted({k[1] for k, f in g.funcs.items() for e in f["events"]
                      if e["struct"] == "mjData" and e["field"] == "threadlock" and e["kind"] in ("assign", "elem", "addr", "pass")})
    allowed = {"mj_makeRawData": "construction", "mj_copyDataVisual": "whole-struct copy target is reset", "_resetData": "reset"}
    extra = [w for w in writers if w not in allowed]
    if extra:
        res.bad("R-DISPATCH", "threadlock:writers", "src/engine", 0, f"d->threadlock is written by {extra} outside the dispatcher")
    else:
        res.ok("R-DISPATCH", "threadlock:writers", {"c_writers": writers})
    # every dispatch site passes a task function and an explicit count
    for site, fname in sorted(set(sites)):
        res.ok("R-DISPATCH", f"site:{site[1]}:{fname}", None)
    res.explanation = (
        "Ownership/effect rules over the call-graph closure of every function handed to mju_dispatch (discovered, not "
        "listed): no arena allocation, no nested dispatch, only thread-local statics, no scalar mjData writes outside the "
        "stack allocator; typestate rule on each dispatch site (frame open and threadlock set around the dispatch on all "
        "paths) and agreement with its serial fallback.")
    res.not_decided = ("disjointness of the index-addressed slices written by tasks; data races in general; bit-identity of "
                       "results (reduction order is fixed by the dispatcher placing results after the join, which is what T2 protects).")
    res.assumptions = ["the log channel (engine_util_errmem.c) synchronises its own one-time configuration and its state flows only to log output",
                       "collision functions reached through mjCOLLISIONFUNC and user callbacks are as summarised by the call graph",
                       "error handlers do not return"]
