"""C03 Thread-pool dispatch runs each task exactly once (structural part: R-ATOMIC-PROTO).

Decided from the clang AST of src/engine/engine_thread.cc (class ThreadPoolContext, mju_threadpool,
mju_dispatch, mju_numThread) and of the engine C files that write mjData.threadpool:

  roles are discovered, not named: the worker entry is the method whose address is given to std::thread in
  the constructor, the dispatch method is the one mju_dispatch calls with the task function, the task
  function field is the function-pointer member that is called, the claim counter is the atomic whose RMW
  result becomes the task id, the publication atomic is the one stored-then-notified in dispatch / waited on
  in the worker, the done counter is the remaining atomic that dispatch polls.

  R-CLAIM-RMW     task ids come only from `fetch_add(1)` / postfix ++ on the claim counter; its only plain
                  store is the reset to 0 in dispatch before the publication
  R-TASK-CALL     every call of the task function passes (at the task_id position of mjTaskFunc) a local that
                  was defined by the claim RMW and tested `< ntask` on that path; serial fallback of
                  mju_dispatch enumerates 0..ntask-1; thread ids: 0 in dispatch, the worker's own parameter,
                  constructor hands out loopvar+c (c>=1)
  R-PUBLISH-ORDER dispatch: every plain member the worker reads, and every plain atomic store, is written
                  before the publishing store, which is release or stronger and followed by notify_all;
                  worker: those members are read / tasks are claimed only after an acquire (or stronger)
                  wait/load of the publication atomic since the last done-increment
  R-DONE          worker: between two waits the done counter is incremented exactly once, by an RMW that is
                  release or stronger, after the last task call
  R-WAIT-DOM      dispatch: every path from the publication to the exit passes the edge of the poll loop on
                  which an acquire-load of the done counter reached the worker count
  R-SHUTDOWN      destructor: stop value stored to the publication atomic, then notify_all, then every element
                  of the thread container joined; threads are started only after all members are initialised;
                  initial / stop / published values of the signal are consistent (never equal to the old value,
                  never the stop value, worker's first expected value equals the initial value)
  R-POOL-REPLACE  mju_threadpool deletes a live context before overwriting the pointer and never returns with
                  a dangling pointer; mju_dispatch reaches Dispatch only behind the non-null test;
                  mj_deleteData destroys the pool before freeing; C writers of mjData.threadpool do not
                  overwrite a possibly live pool and do not leave two mjData sharing one

Not decided: absence of lost wake-ups, deadlock or starvation over interleavings of the dispatching thread and
the workers (the alternating-signal protocol as a whole) — that is model checking, not this family.
"""
from __future__ import annotations

import os
import re

from .. import cfront, cir, cxx, engine, paths
from ..cfront import AnalysisError

LEVEL = "other"
TU = "src/engine/engine_thread.cc"
HDR = "src/engine/engine_thread.h"
CLASS = "ThreadPoolContext"
ANCHOR_FUNCS = ("mju_threadpool", "mju_dispatch", "mju_numThread")
ALLOCATORS = {"mju_malloc", "malloc", "calloc", "mju_mallocAligned", "aligned_alloc"}

CMP_MIRROR = cxx.CMP_MIRROR
Events = cxx.Events
_cmp_sides = cxx.cmp_sides


# ----------------------------------------------------------------------------------------------
# role discovery


class Roles:
    pass


def _is_thread_type(t):
    return bool(re.search(r"\bstd::(__1::)?j?thread\b", t or ""))


def _task_positions(repo, typedef_name):
    """(thread_id index, task_id index) of the task function typedef, from the header's parameter names."""
    path = os.path.join(repo, HDR)
    try:
        src = open(path).read()
    except OSError:
        raise AnalysisError(f"{HDR} not readable")
    m = re.search(r"typedef\s+void\s*\(\s*\*\s*" + re.escape(typedef_name) + r"\s*\)\s*\(([^)]*)\)", src)
    if not m:
        raise AnalysisError(f"typedef of {typedef_name} not found in {HDR}")
    names = []
    for p in m.group(1).split(","):
        w = re.findall(r"[A-Za-z_]\w*", p)
        names.append(w[-1].lower() if w else "")
    ti = [i for i, n in enumerate(names) if re.fullmatch(r"task_?id", n)]
    hi = [i for i, n in enumerate(names) if re.fullmatch(r"thread_?id", n)]
    if len(ti) != 1 or len(hi) != 1:
        raise AnalysisError(f"{typedef_name}: cannot identify the thread_id / task_id parameters ({names})")
    return hi[0], ti[0], len(names)


def discover(ir, unit, repo):
    R = Roles()
    recs = cxx.find_records(ir["decls"], CLASS)
    if len(recs) != 1:
        raise AnalysisError(f"anchor class {CLASS} not found in {TU} ({len(recs)} definitions)")
    kl = R.kl = cxx.Klass(recs[0])
    for f in ANCHOR_FUNCS:
        if f not in unit.funcs:
            raise AnalysisError(f"anchor function {f} not found in {TU}")
    R.atomics = [f for f in kl.fields if cxx.is_atomic_type(f)]
    tcs = [f for f in kl.fields if _is_thread_type(f["t"]) or _is_thread_type(f["dt"])]
    if len(tcs) != 1:
        raise AnalysisError(f"{CLASS}: expected one thread container member, found {[f['name'] for f in tcs]}")
    R.T = tcs[0]
    R.plains = [f for f in kl.fields if f not in R.atomics and f is not R.T]
    if len(R.atomics) < 3:
        raise AnalysisError(f"{CLASS}: expected at least three std::atomic members (claim, done, signal), found "
                            f"{[f['name'] for f in R.atomics]}")
    mids = kl.method_ids()
    # dispatch method: the class method mju_dispatch calls
    cands = []
    for n in cir.walk(unit.funcs["mju_dispatch"]):
        if n.get("k") == "CXXMemberCallExpr":
            f = cir.strip(cir.kids(n)[0])
            if f is not None and f.get("k") == "MemberExpr" and f.get("mid") in mids:
                cands.append((f.get("n"), n))
    names = {c[0] for c in cands}
    if len(names) != 1:
        raise AnalysisError(f"mju_dispatch: expected exactly one {CLASS} method call, found {sorted(names)}")
    R.dispatch_name = names.pop()
    R.dispatch_call = cands[0][1]
    R.dispatch_raw = kl.method(R.dispatch_name)
    if R.dispatch_raw is None:
        raise AnalysisError(f"{CLASS}::{R.dispatch_name} has no body")
    # worker entry: &Class::method handed to std::thread in a constructor
    wn = set()
    R.thread_starts = []     # (ctor, construct node, in_body)
    R.late_starts = []       # (method name, construct node): worker threads started outside a constructor
    ctor_ids = {id(c) for c in kl.ctors}
    starters = list(kl.ctors) + [m_ for ms_ in kl.methods.values() for m_ in ms_ if id(m_) not in ctor_ids and m_ is not kl.dtor]
    for ctor in starters:
        body = cir.body(ctor)
        body_ids = {id(x) for x in cir.walk(body)} if body else set()
        for n in cir.walk(ctor):
            if n.get("k") in ("CXXTemporaryObjectExpr", "CXXConstructExpr") and _is_thread_type(n.get("t")) and \
                    re.fullmatch(r"(const )?std::(__1::)?j?thread", (n.get("t") or "").strip()):
                a = [x for x in cir.kids(n) if x is not None]
                if not a:
                    continue
                first = cir.strip(a[0])
                if first is not None and first.get("k") == "UnaryOperator" and first.get("op") == "&":
                    r = cir.strip(cir.kids(first)[0])
                    if r is not None and (r.get("ref") or {}).get("id") in mids:
                        wn.add((r.get("ref") or {}).get("n"))
                        if id(ctor) in ctor_ids:
                            R.thread_starts.append((ctor, n, id(n) in body_ids))
                        else:
                            R.late_starts.append((ctor.get("n"), n))
                        continue
                if first is not None and "thread" in (first.get("t") or "") and len(a) == 1:
                    continue     # move/copy of a std::thread value
                raise AnalysisError(f"{CLASS}: std::thread started with a callable this checker cannot resolve "
                                    f"(line {n.get('line')})")
            # threads_.emplace_back(&Class::method, this, ...): in-place construction in the thread container
            if n.get("k") == "CXXMemberCallExpr" and cir.callee(n) in ("emplace_back", "emplace"):
                f_ = cir.strip(cir.kids(n)[0])
                tm_ = cxx.this_member(cir.kids(f_)[0]) if f_ is not None and cir.kids(f_) else None
                a = [x for x in cir.args(n) if x is not None]
                first = cir.strip(a[0]) if a else None
                if tm_ and tm_[0] == R.T["name"] and first is not None and first.get("k") == "UnaryOperator" and first.get("op") == "&":
                    r = cir.strip(cir.kids(first)[0])
                    if r is not None and (r.get("ref") or {}).get("id") in mids:
                        wn.add((r.get("ref") or {}).get("n"))
                        if id(ctor) in ctor_ids:
                            R.thread_starts.append((ctor, n, id(n) in body_ids))
                        else:
                            R.late_starts.append((ctor.get("n"), n))
    if len(wn) != 1:
        raise AnalysisError(f"{CLASS}: expected one worker entry method handed to std::thread, found {sorted(wn)}")
    R.worker_name = wn.pop()
    R.worker_raw = kl.method(R.worker_name)
    if R.worker_raw is None:
        raise AnalysisError(f"{CLASS}::{R.worker_name} has no body")
    R.dispatch, R.inl_d = cxx.inline_helpers(R.dispatch_raw, kl)
    R.worker, R.inl_w = cxx.inline_helpers(R.worker_raw, kl)
    if kl.dtor is None or cir.body(kl.dtor) is None:
        raise AnalysisError(f"{CLASS} has no user-provided destructor: worker threads are never joined")
    R.dtor, R.inl_t = cxx.inline_helpers(kl.dtor, kl)
    for fn in (R.dispatch, R.worker, R.dtor):
        fn["file"] = TU
    # task function field: function-pointer member that is called
    fcalls = {}
    for fn in (R.dispatch, R.worker):
        for n in cir.walk(fn):
            if n.get("k") == "CallExpr":
                tm = cxx.this_member(cir.kids(n)[0])
                if tm and tm[1] in kl.field_by_id and "(*)" in (kl.field_by_id[tm[1]]["dt"] or kl.field_by_id[tm[1]]["t"] or ""):
                    fcalls.setdefault(tm[0], []).append(n)
    if len(fcalls) != 1:
        raise AnalysisError(f"{CLASS}: expected one function-pointer member called in dispatch/worker, found "
                            f"{sorted(fcalls)}")
    R.F = kl.field_by_name[next(iter(fcalls))]
    R.thread_pos, R.task_pos, R.nparams = _task_positions(repo, R.F["t"])
    # claim counter: the atomic whose operation defines the local passed at the task position
    cset = set()
    for fn in (R.dispatch, R.worker):
        for n in cir.walk(fn):
            if n.get("k") == "CallExpr" and (cxx.this_member(cir.kids(n)[0]) or (None,))[0] == R.F["name"]:
                a = cir.args(n)
                if len(a) != R.nparams:
                    raise AnalysisError(f"{CLASS}: task function called with {len(a)} arguments")
                vid = cxx.ref_id(a[R.task_pos])
                if vid is None:
                    continue
                for dn, val in cxx.local_defs(fn, vid):
                    for x in cir.walk(val) if val is not None else ():
                        op = cxx.atomic_op(x)
                        if op is not None and op.member:
                            cset.add(op.member)
    if len(cset) != 1:
        raise AnalysisError(f"{CLASS}: cannot identify the claim counter (task id defined from {sorted(cset) or 'no atomic'})")
    R.C = cset.pop()
    # publication atomic: stored/RMW'd and notified in dispatch, or waited on in the worker
    pset = set()
    d_ops = list(cxx.atomic_ops(cir.body(R.dispatch)))
    w_ops = list(cxx.atomic_ops(cir.body(R.worker)))
    stored = {o.member for o in d_ops if o.kind in ("store", "rmw", "cas") and o.member}
    notified = {o.member for o in d_ops if o.kind == "notify" and o.member}
    pset |= (stored & notified)
    pset |= {o.member for o in w_ops if o.kind == "wait" and o.member}
    pset.discard(R.C)
    if len(pset) != 1:
        raise AnalysisError(f"{CLASS}: cannot identify the publication atomic (candidates {sorted(pset)})")
    R.P = pset.pop()
    # done counter: another atomic that dispatch loads in a condition
    dset = set()
    for n in cxx.own_walk(cir.body(R.dispatch)):
        if n.get("k") in ("WhileStmt", "DoStmt", "ForStmt", "IfStmt"):
            ks = list(cir.kids(n))
            conds = []
            if n.get("k") == "WhileStmt":
                conds = [ks[0]]
            elif n.get("k") == "DoStmt":
                conds = [ks[1]]
            elif n.get("k") == "ForStmt":
                conds = [ks[2]] if len(ks) > 2 else []
            else:
                conds = [ks[(1 if n.get("hasInit") else 0) + (1 if n.get("hasVar") else 0)]]
            for c in conds:
                for x in cir.walk(c) if c else ():
                    op = cxx.atomic_op(x)
                    if op is not None and op.kind == "load" and op.member not in (None, R.C, R.P):
                        dset.add(op.member)
    dset |= {o.member for o in w_ops if o.kind in ("rmw", "store") and o.member not in (None, R.C, R.P)}
    if len(dset) != 1:
        raise AnalysisError(f"{CLASS}: cannot identify the done counter (candidates {sorted(dset)})")
    R.D = dset.pop()
    # plain members written in dispatch / accessed in the worker
    R.written = {}
    R.N = set()
    R.N_alias = set()
    pids = {p.get("id"): p for p in cir.params(R.dispatch)}
    plain_ids = {f["id"]: f for f in R.plains}
    for lv, w, how in cxx.writes(cir.body(R.dispatch)):
        tm = cxx.this_member(lv)
        if tm and tm[1] in plain_ids:
            R.written.setdefault(tm[0], []).append(w)
            f = plain_ids[tm[1]]
            if w.get("k") == "BinaryOperator" and re.fullmatch(r"(unsigned |signed |const )*(int|long|short|size_t|unsigned)( int)?",
                                                                (f["dt"] or f["t"] or "").strip()):
                rid = cxx.ref_id(cir.kids(w)[1])
                if rid in pids:
                    R.N.add(tm[0])
                    R.N_alias.add(rid)
    # a parameter is only an alias of the member if it is never written
    for lv, w, how in cxx.writes(cir.body(R.dispatch)):
        if cxx.ref_id(lv) in R.N_alias:
            R.N_alias.discard(cxx.ref_id(lv))
    accessed = set()
    for n in cir.walk(cir.body(R.worker)):
        tm = cxx.this_member(n) if n.get("k") == "MemberExpr" else None
        if tm and tm[1] in plain_ids:
            accessed.add(tm[0])
    R.shared = set(R.written) & accessed
    if not R.N:
        raise AnalysisError(f"{CLASS}::{R.dispatch_name}: no integral member is set from a parameter (task count)")
    R.atomic_names = {f["name"] for f in R.atomics}
    R.plain_names = {f["name"] for f in R.plains}
    return R


# ----------------------------------------------------------------------------------------------
# dispatch side


class DispatchRule(paths.Rule):
    """state: (published, notified, waited)"""

    def __init__(self, R, ev_pub, ev_wait):
        self.R = R
        self.pub = ev_pub
        self.wait = ev_wait
        self.publishes = 0

    def initial(self, fn):
        return (False, False, False)

    def _plain_write(self, st, lv, node):
        tm = cxx.this_member(lv)
        if tm and tm[0] in self.R.shared:
            self.pub.note(f"write-before-publish:{tm[0]}", not st[0], node,
                          f"plain member {tm[0]} (read by the worker) is written after the publishing store to "
                          f"{self.R.P}: a worker that already acquired the publication may read the old or a torn value")
        return st

    def call(self, st, node, name, ctx):
        R = self.R
        pub, noti, waited = st
        op = cxx.atomic_op(node)
        if op is not None and op.member:
            if op.member == R.P and op.kind in ("store", "rmw", "cas"):
                self.publishes += 1
                self.pub.note(f"publish:{R.P}", cxx.is_release(op.order), node,
                              f"publishing {op.describe()} is not release (or stronger): the plain members written "
                              f"before it are not ordered before the worker's reads", {"order": op.order})
                return (True, False, False)
            if op.member == R.P and op.kind == "notify" and pub:
                self.pub.note(f"notify:{R.P}", op.op == "notify_all", node,
                              f"{op.op} after the publication wakes at most one worker; the others sleep in wait() "
                              f"and the done counter never reaches the worker count")
                return (pub, noti or op.op == "notify_all", waited)
            if op.member in (R.C, R.D) or (op.member in R.atomic_names and op.member != R.P):
                if op.kind == "store":
                    self.pub.note(f"reset-before-publish:{op.member}", not pub, node,
                                  f"plain store {op.describe()} after the publishing store to {R.P}: workers may "
                                  f"already be claiming/reporting on {op.member} (lost or duplicated tasks / early return)")
            return st
        if node.get("k") == "CXXOperatorCallExpr":
            ks = cir.kids(node)
            if cir.text(ks[0]) in cxx._ASSIGN_OPS and len(ks) > 1:
                return self._plain_write(st, ks[1], node)
        return st

    def assign(self, st, node, ctx):
        if node.get("k") == "VarDecl":
            return st
        return self._plain_write(st, cir.kids(node)[0], node)

    def done_edge(self, cond):
        """(taken value on which the poll loop is left, load op, bound expr) for `D.load() <cmp> bound`."""
        s = _cmp_sides(cond)
        if not s:
            return None
        op, a, b = s
        la, lb = cxx.atomic_op(cir.strip(a)), cxx.atomic_op(cir.strip(b))
        if la is not None and la.kind == "load" and la.member == self.R.D:
            load, bound = la, b
        elif lb is not None and lb.kind == "load" and lb.member == self.R.D:
            load, bound, op = lb, a, CMP_MIRROR[op]
        else:
            return None
        if op in ("<", "!="):
            return False, load, bound
        if op in (">=", "=="):
            return True, load, bound
        return None

    def branch(self, st, cond, taken, ctx):
        pub, noti, waited = st
        e = self.done_edge(cond)
        if e is not None and pub and taken == e[0]:
            done_when, load, bound = e
            self.wait.note(f"wait-acquire:{self.R.D}", cxx.is_acquire(load.order), cond,
                           f"{load.describe()} in the completion wait is not acquire (or stronger): the tasks' "
                           f"side effects and the workers' last reads of the batch are not ordered before the return / the next batch's writes",
                           {"order": load.order})
            self.wait.note("wait-after-notify", noti, cond,
                           f"the completion wait is reached on a path where {self.R.P} was published but not "
                           f"notify_all'ed: sleeping workers never start and the wait never ends")
            okb = _is_worker_count(self.R, bound, ctx.fn)
            self.wait.note("wait-bound-is-worker-count", okb, cond,
                           f"the completion wait compares {self.R.D} with `{cir.text(bound)}`, which is not the "
                           f"number of workers ({self.R.T['name']}.size()) although each worker reports once per batch")
            return (pub, noti, True)
        return st

    def _exit(self, st, node):
        pub, noti, waited = st
        self.wait.note("exit-dominated-by-wait", (not pub) or waited, node,
                       f"a path from the publication to the exit of {self.R.dispatch_name} does not pass the completion "
                       f"wait on {self.R.D}: Dispatch can return while workers still run tasks of this batch")

    def ret(self, st, node, ctx):
        self._exit(st, node)

    def fallthrough(self, st, ctx):
        self._exit(st, ctx.fn)


class ClaimRule(paths.Rule):
    """state: frozenset of (var id, checked?) for locals defined by the claim RMW."""

    def __init__(self, R, ev, fname, is_dispatch):
        self.R, self.ev, self.fname, self.is_dispatch = R, ev, fname, is_dispatch

    def initial(self, fn):
        return frozenset()

    def _claim_of(self, val):
        v = cir.strip(val)
        op = cxx.atomic_op(v)
        if op is not None and op.member == self.R.C and op.kind == "rmw":
            return op
        return None

    def assign(self, st, node, ctx):
        if node.get("k") == "VarDecl":
            vid = node.get("id")
            init = [c for c in cir.kids(node) if c is not None and not c.get("k", "").endswith("Attr")]
            val = init[-1] if init else None
        else:
            vid = cxx.ref_id(cir.kids(node)[0])
            val = cir.kids(node)[1] if node.get("k") == "BinaryOperator" and node.get("op") == "=" else None
        if vid is None:
            return st
        st = frozenset(x for x in st if x[0] != vid)
        if val is not None and self._claim_of(val) is not None:
            st = st | {(vid, False)}
        return st

    def branch(self, st, cond, taken, ctx):
        s = _cmp_sides(cond)
        if not s or not st:
            return st
        op, a, b = s
        ids = {x[0] for x in st}

        def is_n(x):
            tm = cxx.this_member(x)
            if tm and tm[0] in self.R.N:
                return True
            return self.is_dispatch and cxx.ref_id(x) in self.R.N_alias
        if cxx.ref_id(a) in ids and is_n(b):
            vid = cxx.ref_id(a)
        elif cxx.ref_id(b) in ids and is_n(a):
            vid, op = cxx.ref_id(b), CMP_MIRROR[op]
        else:
            return st
        if (op == "<" and taken) or (op == ">=" and not taken):
            return frozenset((v, True if v == vid else c) for v, c in st)
        return st

    def call(self, st, node, name, ctx):
        if node.get("k") == "CallExpr" and (cxx.this_member(cir.kids(node)[0]) or (None,))[0] == self.R.F["name"]:
            a = cir.args(node)
            vid = cxx.ref_id(a[self.R.task_pos]) if len(a) > self.R.task_pos else None
            d = dict(st)
            if vid is None or vid not in d:
                self.ev.note("task-call", False, node,
                             f"{self.R.F['name']} is invoked with task id `{cir.text(a[self.R.task_pos])}` that is not "
                             f"the result of an atomic RMW on {self.R.C} on this path (two threads can obtain the same id, "
                             f"or an id is skipped)")
            else:
                self.ev.note("task-call", d[vid], node,
                             f"{self.R.F['name']} is invoked with a claimed id that was not tested `< "
                             f"{'/'.join(sorted(self.R.N))}` on this path (ids >= ntask are claimed by every thread "
                             f"at the end of a batch)")
        return st


def claim_sites(R, res, fn, fname, in_dispatch):
    """R-CLAIM-RMW instances: every operation on the claim counter."""
    n = 0
    for op in cxx.atomic_ops(cir.body(fn)):
        if op.member != R.C:
            continue
        if op.kind == "rmw":
            n += 1
            one = (op.op == "fetch_add" and len(op.vals) == 1 and cxx.const_int(op.vals[0]) == 1) or \
                  (op.op == "operator++" and op.post)
            key = f"{CLASS}::{fname}:claim:{R.C}"
            if one:
                res.ok("R-CLAIM-RMW", key, {"file": TU, "line": op.node.get("line"), "op": op.describe()})
            else:
                res.bad("R-CLAIM-RMW", key, TU, op.node.get("line"),
                        f"claim {op.describe()} does not hand out consecutive ids starting at the reset value "
                        f"(expected fetch_add(1) / postfix ++)")
        elif op.kind in ("store", "cas"):
            n += 1
            key = f"{CLASS}::{fname}:store:{R.C}"
            zero = op.kind == "store" and len(op.vals) == 1 and cxx.const_int(op.vals[0]) == 0
            if in_dispatch and zero:
                res.ok("R-CLAIM-RMW", key, {"file": TU, "line": op.node.get("line"), "op": op.describe()})
            elif in_dispatch:
                res.bad("R-CLAIM-RMW", key, TU, op.node.get("line"),
                        f"{op.describe()}: the only plain store to the claim counter must be the reset to 0")
            else:
                res.bad("R-CLAIM-RMW", key, TU, op.node.get("line"),
                        f"{op.describe()} in the worker: the claim counter is modified by a plain store "
                        f"(read-modify-write split into load and store loses or duplicates task ids)")
    return n


# ----------------------------------------------------------------------------------------------
# worker side


class WorkerRule(paths.Rule):
    """state: (acquired, done increments since the last wait (0..2), before first wait?)"""
    use_kinds = frozenset({"MemberExpr"})

    def __init__(self, R, ev_pub, ev_done):
        self.R, self.pub, self.done = R, ev_pub, ev_done
        self.waits = 0

    def initial(self, fn):
        return (False, 0, True)

    def call(self, st, node, name, ctx):
        R = self.R
        acq, nd, first = st
        op = cxx.atomic_op(node)
        if op is not None and op.member:
            if op.member == R.P:
                if op.kind == "wait":
                    self.waits += 1
                    if not first:
                        self.done.note("done-once-per-batch", nd == 1, node,
                                       f"a path of the worker returns to {R.P}.wait() with the done counter {R.D} "
                                       f"incremented {nd if nd < 2 else 'more than once'} time(s) since the previous wait"
                                       + (": Dispatch waits forever for this worker" if nd == 0 else
                                          ": Dispatch can return before all workers finished"))
                    return (cxx.is_acquire(op.order), 0, False)
                if op.kind in ("load", "rmw", "cas") and cxx.is_acquire(op.order):
                    return (True, nd, first)
                if op.kind in ("store", "rmw", "cas"):
                    self.pub.note(f"worker-writes:{R.P}", False, node,
                                  f"the worker modifies the publication atomic: {op.describe()}")
                return st
            if op.member == R.D and op.kind in ("rmw", "store", "cas"):
                good = op.kind == "rmw" and ((op.op == "fetch_add" and len(op.vals) == 1 and
                                              cxx.const_int(op.vals[0]) == 1) or op.op in ("operator++",))
                self.done.note(f"done-increment:{R.D}", good and cxx.is_release(op.order), node,
                               (f"{op.describe()} is not release (or stronger): the task's writes are not ordered "
                                f"before Dispatch's return" if good else
                                f"{op.describe()} is not an atomic increment by one: concurrent workers lose reports"),
                               {"order": op.order})
                return (False, min(nd + 1, 2), first)
            if op.member == R.C and op.kind in ("rmw", "cas", "load", "store"):
                self.pub.note(f"claim-after-acquire:{R.C}", acq, node,
                              f"{op.describe()} is reached without an acquire (or stronger) wait/load of {R.P} since "
                              f"the worker last reported done: the reset of {R.C} for the new batch is not ordered before it")
                return st
            return st
        if node.get("k") == "CallExpr" and (cxx.this_member(cir.kids(node)[0]) or (None,))[0] == R.F["name"]:
            self.done.note("no-task-after-done", nd == 0, node,
                           f"{R.F['name']} is called after the worker incremented {R.D} for this batch")
        return st

    def use(self, st, node, ctx):
        tm = cxx.this_member(node)
        if tm and tm[0] in self.R.shared:
            self.pub.note(f"read-after-acquire:{tm[0]}", st[0], node,
                          f"plain member {tm[0]} is read without an acquire (or stronger) wait/load of {self.R.P} since "
                          f"the worker last reported done: it is not ordered after Dispatch's write of it")
        return st

    def assign(self, st, node, ctx):
        if node.get("k") != "VarDecl":
            tm = cxx.this_member(cir.kids(node)[0])
            if tm and tm[0] in self.R.shared:
                self.pub.note(f"worker-writes:{tm[0]}", False, node,
                              f"the worker writes plain member {tm[0]}, which Dispatch writes for every batch")
        return st


# ----------------------------------------------------------------------------------------------
# destructor, constructor, signal values


class DtorRule(paths.Rule):
    """state: (stop stored, notified after stop)"""

    def __init__(self, R, ev, stop):
        self.R, self.ev, self.stop = R, ev, stop
        self.joins = 0

    def initial(self, fn):
        return (False, False)

    def call(self, st, node, name, ctx):
        R = self.R
        op = cxx.atomic_op(node)
        if op is not None and op.member == R.P:
            if op.kind == "store" and len(op.vals) == 1 and cxx.const_int(op.vals[0]) == self.stop:
                return (True, False)
            if op.kind == "notify" and st[0]:
                self.ev.note("notify-all-after-stop", op.op == "notify_all", node,
                             f"destructor uses {op.op}: only one sleeping worker sees the stop value, join() of the "
                             f"others never returns")
                return (True, st[1] or op.op == "notify_all")
            return st
        if name == "join" and node.get("k") == "CXXMemberCallExpr":
            f = cir.strip(cir.kids(node)[0])
            obj = cir.strip(cir.kids(f)[0]) if f is not None and cir.kids(f) else None
            if obj is not None and _is_thread_type(cxx.type_of(obj)):
                self.joins += 1
                self.ev.note("join-after-stop-and-notify", st[0] and st[1], node,
                             "join() is reached on a path where the stop value was not stored to "
                             f"{R.P} and notify_all'ed first: the worker sleeps in wait() and join() never returns")
        return st


def _has_jump(n):
    return any(x.get("k") in ("ReturnStmt", "BreakStmt", "ContinueStmt", "GotoStmt", "CXXThrowExpr") for x in cir.walk(n))


def _elem_join_ok(stmt, is_elem):
    """Every path through stmt (nested view: early `continue` / `break` / `return` are if-else structure) joins the
    element; only a test of elem.joinable() may keep a path from the join (on its `not joinable` side)."""
    if stmt is None:
        return False
    k = stmt.get("k")
    if k == "CompoundStmt":
        for s in cir.kids(stmt):
            if s is None:
                continue
            if _elem_join_ok(s, is_elem):
                return True
            if _has_jump(s):
                return False        # some path leaves before the join
        return False
    if k == "ExprWithCleanups":
        return any(_elem_join_ok(s, is_elem) for s in cir.kids(stmt))
    if k == "CXXMemberCallExpr" and cir.callee(stmt) == "join":
        f = cir.strip(cir.kids(stmt)[0])
        return is_elem(cir.kids(f)[0]) if f is not None and cir.kids(f) else False
    if k == "IfStmt":
        from .. import norm
        _pre, cond, then, els = norm._if_parts(stmt)
        atoms = norm.split_cond(cond, True)
        if len(atoms) == 1:
            c0, pol = atoms[0]
            c0 = cir.strip(c0)
            if c0 is not None and c0.get("k") == "CXXMemberCallExpr" and cir.callee(c0) == "joinable":
                f = cir.strip(cir.kids(c0)[0])
                if f is not None and cir.kids(f) and is_elem(cir.kids(f)[0]):
                    return _elem_join_ok(then if pol else els, is_elem)
        return els is not None and _elem_join_ok(then, is_elem) and _elem_join_ok(els, is_elem)
    return False


def _is_worker_count(R, e, fn):
    """e is (a single-definition local holding / an accessor returning) <thread container>.size()"""
    b = cxx.resolve_local(e, fn, R.kl)
    if b is not None and b.get("k") == "CXXMemberCallExpr" and cir.callee(b) == "size":
        f = cir.strip(cir.kids(b)[0])
        tm = cxx.this_member(cir.kids(f)[0]) if f is not None and cir.kids(f) else None
        return bool(tm) and tm[0] == R.T["name"]
    return False


def join_all(R, fn):
    """(ok, node, why): a loop over the whole thread container, on every path of fn, joining each element.

    Loop forms: range-for over the container (loop variable by reference); a loop counting an index from 0 to
    container.size() by one (for or while, see c26.counted_loop) whose element is container[i] / container.at(i).
    References bound to the element in the loop body are the element.  The body is read in the nested view, so an
    inverted guard with `continue` is the same as the guarded join."""
    from .. import norm
    from .c26 import counted_loop
    orig = fn
    fn = norm.nest(fn, fatal=False)
    body = cir.body(fn)
    top = []

    def flat(n):
        for s in cir.kids(n):
            if s is not None and s.get("k") == "CompoundStmt":
                flat(s)
            elif s is not None:
                top.append(s)
    flat(body)
    tname = R.T["name"]

    def with_aliases(lbody, is_elem):
        """references declared in the loop body and bound to the element"""
        al = set()
        for s in norm._stmts(lbody):
            if s.get("k") == "DeclStmt":
                for v in cir.kids(s):
                    if v is not None and v.get("k") == "VarDecl" and (v.get("t") or "").strip().endswith("&") and \
                            not (v.get("t") or "").strip().endswith("&&"):
                        init = [c for c in cir.kids(v) if c is not None and not c.get("k", "").endswith("Attr")]
                        if init and is_elem(init[-1]):
                            al.add(v.get("id"))
        written = {cxx.ref_id(lv) for lv, w, h in cxx.writes(lbody)}
        al -= written
        return lambda e: is_elem(e) or cxx.ref_id(e) in al

    unread = []
    for s in top:
        if s.get("k") == "ReturnStmt":
            break
        if s.get("k") == "CXXForRangeStmt":
            ks = list(cir.kids(s))
            rng = None
            loopvar = None
            for d in ks[:-1]:
                if d is not None and d.get("k") == "DeclStmt":
                    for v in cir.kids(d):
                        if v is not None and v.get("k") == "VarDecl":
                            if (v.get("n") or "").startswith("__range"):
                                init = [c for c in cir.kids(v) if c is not None]
                                rng = cxx.this_member(init[-1]) if init else None
                            elif not (v.get("n") or "").startswith("__"):
                                loopvar = v
            if rng and rng[0] == tname and loopvar is not None:
                byref = (loopvar.get("t") or "").strip().endswith("&")
                lid = loopvar.get("id")
                ok = _elem_join_ok(ks[-1], with_aliases(ks[-1], lambda e: cxx.ref_id(e) == lid))
                if ok and not byref:
                    return False, s, "the loop variable is a copy, not a reference to the container's element"
                return ok, s, "the loop body does not join the element on every path"
        if s.get("k") in ("ForStmt", "WhileStmt"):
            ks = list(cir.kids(s))
            cond = (ks + [None] * 5)[2] if s.get("k") == "ForStmt" else ks[0]
            lbody = ks[-1] if s.get("k") == "WhileStmt" else (ks + [None] * 5)[4]
            cs = _cmp_sides(cond) if cond is not None else None
            if cs and cs[0] == ">":
                cs = ("<", cs[2], cs[1])
            ivid = cxx.ref_id(cs[1]) if cs and cs[0] in ("<", "!=") else None
            if ivid is None or lbody is None or not _is_worker_count(R, cs[2], orig):
                unread.append(s)
                continue
            cl = counted_loop(body, s, ivid)
            if cl["problems"] or cl["start"] != "0":
                unread.append(s)
                continue
            stmts = norm._stmts(lbody)
            inc_in_body = [x for x in stmts if ivid in {cxx.ref_id(lv) for lv, w, h in cxx.writes(x)}]
            if inc_in_body:
                # the element is container[i] only before the increment
                if inc_in_body != [stmts[-1]] or stmts[-1].get("k") not in ("UnaryOperator", "CompoundAssignOperator"):
                    unread.append(s)
                    continue

            def is_elem(e, ivid=ivid):
                e = cir.strip(e)
                if e is None:
                    return False
                if e.get("k") == "CXXOperatorCallExpr":
                    k2 = cir.kids(e)
                    return cir.text(k2[0]) == "operator[]" and (cxx.this_member(k2[1]) or (None,))[0] == tname and \
                        cxx.ref_id(k2[2]) == ivid
                if e.get("k") == "CXXMemberCallExpr" and cir.callee(e) == "at" and len(cir.kids(e)) == 2:
                    f = cir.strip(cir.kids(e)[0])
                    return f is not None and bool(cir.kids(f)) and \
                        (cxx.this_member(cir.kids(f)[0]) or (None,))[0] == tname and cxx.ref_id(cir.kids(e)[1]) == ivid
                return False
            return _elem_join_ok(lbody, with_aliases(lbody, is_elem)), s, "the loop body does not join the element on every path"
    # a loop that joins threads but is not one of the forms above cannot be decided either way
    for lp in cir.walk(body):
        if lp.get("k") in ("ForStmt", "WhileStmt", "DoStmt", "CXXForRangeStmt"):
            for x in cir.walk(lp):
                if x.get("k") == "CXXMemberCallExpr" and cir.callee(x) == "join":
                    f = cir.strip(cir.kids(x)[0])
                    obj = cir.strip(cir.kids(f)[0]) if f is not None and cir.kids(f) else None
                    if obj is not None and _is_thread_type(cxx.type_of(obj)) and (any(lp is u for u in unread) or not any(lp is t_ for t_ in top)):
                        raise AnalysisError(f"{CLASS}::~{CLASS}: loop at line {lp.get('line')} joins threads but is not a "
                                            f"recognised iteration over all elements of {tname} (range-for, or an index "
                                            f"counted from 0 to {tname}.size() by one)")
    return False, fn, f"no loop over all elements of {tname} is reached on every path of the destructor"


class StopRule(paths.Rule):
    """Which constant does the worker leave on?  state: the constants the *last observed* value of the publication
    atomic is known to equal on this path (from `obs == k` taken / `obs != k` not taken / `!obs`), forgotten at the next
    observation.  Exits (return, end of the body however it is reached: break out of the main loop, fall off the end)
    record the known constants; reaching the next wait() with a known constant records that the worker goes on with it."""

    def __init__(self, R, sig_vars):
        self.R, self.sig_vars = R, sig_vars
        self.exit_ks, self.goes_on = set(), set()

    def initial(self, fn):
        return frozenset()

    def _observed(self, e):
        e = cir.strip(e)
        if e is None:
            return False
        if cxx.ref_id(e) in self.sig_vars:
            return True
        op = cxx.atomic_op(e)
        return op is not None and op.member == self.R.P and op.kind == "load"

    def call(self, st, node, name, ctx):
        op = cxx.atomic_op(node)
        if op is not None and op.member == self.R.P and op.kind in ("wait", "load", "rmw", "cas"):
            if op.kind == "wait":
                self.goes_on |= st
            return frozenset()      # what is known about the previous observation says nothing about this one
        return st

    def assign(self, st, node, ctx):
        vid = node.get("id") if node.get("k") == "VarDecl" else cxx.ref_id(cir.kids(node)[0])
        if vid in self.sig_vars:
            return frozenset()
        return st

    def branch(self, st, cond, taken, ctx):
        s = _cmp_sides(cond)
        if s and s[0] in ("==", "!="):
            for a, b in ((s[1], s[2]), (s[2], s[1])):
                k = cxx.const_int(b)
                if k is not None and self._observed(a) and taken == (s[0] == "=="):
                    return st | {k}
            return st
        if self._observed(cond) and not taken:      # `if (!obs)` / `while (obs)`
            return st | {0}
        return st

    def ret(self, st, node, ctx):
        self.exit_ks |= st

    def fallthrough(self, st, ctx):
        self.exit_ks |= st


def stop_value(R):
    """The constant on which the worker leaves: on every path where the observed signal equals it the worker function
    ends (return, break out of its main loop and fall off the end, ...) without reaching the next wait()."""
    fn = R.worker
    sig_vars = set()
    for n in cir.walk(cir.body(fn)):
        vid, val = None, None
        if n.get("k") == "VarDecl":
            init = [c for c in cir.kids(n) if c is not None and not c.get("k", "").endswith("Attr")]
            vid, val = n.get("id"), (init[-1] if init else None)
        elif n.get("k") == "BinaryOperator" and n.get("op") == "=":
            vid, val = cxx.ref_id(cir.kids(n)[0]), cir.kids(n)[1]
        op = cxx.atomic_op(cir.strip(val)) if val is not None else None
        if vid and op is not None and op.member == R.P and op.kind in ("load", "rmw"):
            sig_vars.add(vid)
    rule = StopRule(R, sig_vars)
    paths.explore(rule, None, fn)
    stops = rule.exit_ks - rule.goes_on
    if len(stops) != 1:
        raise AnalysisError(f"{CLASS}::{R.worker_name}: exit test on the observed value of {R.P} not recognised "
                            f"(stop values {sorted(stops)})")
    return stops.pop(), sig_vars


def field_init_const(f):
    for x in cir.walk(f["init"]) if f["init"] is not None else ():
        v = cxx.const_int(x) if x.get("k") in ("IntegerLiteral", "UnaryOperator") else None
        if v is not None:
            return v
    return None


def shutdown_and_values(R, res):
    res.rule("R-SHUTDOWN", "destructor stores the stop value, notifies all waiters, then joins every element of the "
             "thread container; threads start only after all members are initialised; signal values consistent",
             floor=6)
    kl = R.kl
    P = kl.field_by_name[R.P]
    stop, sig_vars = stop_value(R)
    pre = f"{CLASS}::~{CLASS}"
    ev = Events()
    rule = DtorRule(R, ev, stop)
    # stop store present?
    stores = [o for o in cxx.atomic_ops(cir.body(R.dtor)) if o.member == R.P and o.kind == "store" and
              len(o.vals) == 1 and cxx.const_int(o.vals[0]) == stop]
    if stores:
        res.ok("R-SHUTDOWN", f"{pre}:stop-store:{R.P}", {"file": TU, "line": stores[0].node.get("line"),
                                                          "op": stores[0].describe(), "stop_value": stop})
    else:
        res.bad("R-SHUTDOWN", f"{pre}:stop-store:{R.P}", TU, kl.dtor.get("line"),
                f"the destructor never stores the stop value {stop} to {R.P}: workers never leave their loop")
    paths.explore(rule, None, R.dtor)
    if "notify-all-after-stop" not in ev.ev:
        ev.note("notify-all-after-stop", False, kl.dtor,
                f"the destructor never calls {R.P}.notify_all() after storing the stop value: workers sleeping in "
                f"wait() are not woken and join() never returns")
    if "join-after-stop-and-notify" not in ev.ev:
        ev.note("join-after-stop-and-notify", False, kl.dtor, "the destructor never joins a worker thread")
    ev.flush(res, "R-SHUTDOWN", pre, TU)
    ok, node, why = join_all(R, R.dtor)
    if ok:
        res.ok("R-SHUTDOWN", f"{pre}:join-every-element:{R.T['name']}", {"file": TU, "line": node.get("line")})
    else:
        res.bad("R-SHUTDOWN", f"{pre}:join-every-element:{R.T['name']}", TU, node.get("line"),
                f"not every worker thread is joined: {why} (a running worker outlives the object / std::terminate "
                f"on a joinable thread)")
    # threads start after member initialisation
    used_after = [f for f in kl.fields if f["index"] > R.T["index"] and f is not R.T]
    for ctor, n, in_body in R.thread_starts:
        key = f"{CLASS}::{CLASS}:threads-start-after-member-init"
        if in_body:
            res.ok("R-SHUTDOWN", key, {"file": TU, "line": n.get("line"),
                                       "note": "started in the constructor body: all members are initialised, "
                                               "declaration order is irrelevant"})
        elif not used_after:
            res.ok("R-SHUTDOWN", key, {"file": TU, "line": n.get("line"),
                                       "note": "started in the member initialiser of the last-declared member"})
        else:
            res.bad("R-SHUTDOWN", key, TU, n.get("line"),
                    f"worker threads are started in the member initialiser of {R.T['name']}, but "
                    f"{[f['name'] for f in used_after]} are declared (and therefore initialised) after it")
    if not R.thread_starts and not R.late_starts:
        raise AnalysisError(f"{CLASS}: no std::thread start found")
    # signal values
    v0 = field_init_const(P)
    key = f"{CLASS}:signal-values:{R.P}"
    problems = []
    if v0 is None:
        raise AnalysisError(f"{CLASS}: in-class initialiser of {R.P} is not a constant")
    if v0 == stop:
        problems.append(f"initial value {v0} equals the stop value: workers exit before the first batch")
    # first expected value of the wait
    for op in cxx.atomic_ops(cir.body(R.worker)):
        if op.member == R.P and op.kind == "wait":
            exp = op.vals[0] if op.vals else None
            vid = cxx.ref_id(exp)
            first = None
            if vid:
                for dn, val in cxx.local_defs(R.worker, vid):
                    if dn.get("k") == "VarDecl":
                        first = cxx.const_int(val)
                if vid not in sig_vars:
                    problems.append(f"the value passed to {R.P}.wait() is not the last observed value of {R.P}")
            else:
                first = cxx.const_int(exp)
            if first != v0:
                problems.append(f"the worker's first wait expects {first} but {R.P} starts at {v0}: the worker runs "
                                f"a batch before any Dispatch (reads unset task fields)")
    # published value is a sign flip of the current value
    for op in cxx.atomic_ops(cir.body(R.dispatch)):
        if op.member == R.P and op.kind in ("store", "rmw"):
            v = cir.strip(op.vals[0]) if op.vals else None
            flip = False
            if v is not None and v.get("k") == "UnaryOperator" and v.get("op") == "-":
                inner = cxx.atomic_op(cir.strip(cir.kids(v)[0]))
                flip = inner is not None and inner.member == R.P and inner.kind == "load"
            if not flip:
                problems.append(f"published value `{cir.text(v)}` is not the negation of the current value of {R.P}: "
                                f"cannot show it differs from the value the workers wait on")
            elif v0 == 0 or stop != 0:
                problems.append(f"sign flip with initial value {v0} / stop value {stop} can publish the old or the stop value")
    # no other writer of P
    for name, ms in kl.methods.items():
        m = kl.method(name)
        if m is None or name in (R.dispatch_name,):
            continue
        for op in cxx.atomic_ops(cir.body(m), own=False):
            if op.member == R.P and op.kind in ("store", "rmw", "cas"):
                problems.append(f"{name} also modifies {R.P}: {op.describe()}")
    if problems:
        res.bad("R-SHUTDOWN", key, TU, P["node"].get("line"), "; ".join(problems))
    else:
        res.ok("R-SHUTDOWN", key, {"file": TU, "line": P["node"].get("line"), "initial": v0, "stop": stop,
                                   "publish": "negation of current value"})


# ----------------------------------------------------------------------------------------------
# thread ids, serial fallback


def thread_ids(R, res, unit):
    kl = R.kl
    # dispatch: constant 0; worker: its own unmodified parameter
    for fn, fname, want in ((R.dispatch, R.dispatch_name, "zero"), (R.worker, R.worker_name, "param")):
        for n in cir.walk(cir.body(fn)):
            if n.get("k") == "CallExpr" and (cxx.this_member(cir.kids(n)[0]) or (None,))[0] == R.F["name"]:
                a = cir.args(n)[R.thread_pos]
                key = f"{CLASS}::{fname}:thread-id"
                if want == "zero":
                    ok = cxx.const_int(a) == 0
                    msg = f"the dispatching thread passes thread id `{cir.text(a)}`, not 0"
                else:
                    pids = {p.get("id") for p in cir.params(R.worker_raw)}
                    written = {cxx.ref_id(lv) for lv, w, h in cxx.writes(cir.body(fn))}
                    ok = cxx.ref_id(a) in pids and cxx.ref_id(a) not in written
                    msg = f"the worker passes thread id `{cir.text(a)}`, which is not its own unmodified parameter"
                if ok:
                    res.ok("R-TASK-CALL", key, {"file": TU, "line": n.get("line"), "arg": cir.text(a)})
                else:
                    res.bad("R-TASK-CALL", key, TU, n.get("line"), msg)
    # constructor: worker i gets loopvar + c, c >= 1, loop 0 <= i < n and the container has n elements
    _methods = {m_.get("n"): m_ for ms_ in kl.methods.values() for m_ in ms_} if hasattr(kl, "methods") else {}
    _starts = list(R.thread_starts) + [(_methods.get(mn_), n_, True) for mn_, n_ in R.late_starts if _methods.get(mn_) is not None]
    for ctor, n, in_body in _starts:
        a = [x for x in cir.kids(n) if x is not None]
        if n.get("k") == "CXXMemberCallExpr":
            a = [x for x in cir.args(n) if x is not None]
        key = f"{CLASS}::{CLASS}:worker-thread-ids"
        idx = cir.strip(a[-1]) if len(a) >= 3 else None
        ok = False
        why = "the thread id argument is not `loop variable + constant >= 1`"
        if idx is not None and idx.get("k") == "BinaryOperator" and idx.get("op") == "+":
            x, y = cir.kids(idx)
            for v, c in ((x, y), (y, x)):
                if cxx.ref_id(v) and (cxx.const_int(c) or 0) >= 1:
                    # the variable must be a for-loop counter from 0 with step 1
                    vid = cxx.ref_id(v)
                    for f in cir.walk(ctor):
                        if f.get("k") == "ForStmt":
                            ks = list(cir.kids(f)) + [None] * 5
                            init, _, cond, inc = ks[:4]
                            iv = [d for d in cir.walk(init) if d.get("k") == "VarDecl" and d.get("id") == vid] if init else []
                            i0 = [c2 for c2 in cir.kids(iv[0]) if c2 is not None] if iv else []
                            incs = cir.strip(inc)
                            cs = _cmp_sides(cond) if cond is not None else None
                            if iv and i0 and cxx.const_int(i0[-1]) == 0 and incs is not None and \
                                    incs.get("k") == "UnaryOperator" and incs.get("op") == "++" and cs and cs[0] == "<":
                                ok = True
        if ok:
            res.ok("R-TASK-CALL", key, {"file": TU, "line": n.get("line"), "arg": cir.text(idx)})
        else:
            res.bad("R-TASK-CALL", key, TU, n.get("line"), why + " (ids must be distinct and differ from the dispatcher's 0)")
    # mju_numThread = workers + 1 (callers size per-thread storage with it; ids are 0..workers)
    fn = unit.funcs["mju_numThread"]
    okn = False
    for n in cir.walk(fn):
        if n.get("k") == "BinaryOperator" and n.get("op") == "+":
            x, y = cir.kids(n)
            for v, c in ((x, y), (y, x)):
                if cxx.const_int(c) == 1:
                    e = cir.strip(v)
                    while e is not None and e.get("k") == "CXXMemberCallExpr":
                        f = cir.strip(cir.kids(e)[0])
                        m = None
                        for name, ms in kl.methods.items():
                            if f is not None and any(mm.get("id") == f.get("mid") for mm in ms):
                                m = kl.method(name)
                        if m is None:
                            break
                        st = [s2 for s2 in cir.kids(cir.body(m)) if s2 is not None]
                        if len(st) == 1 and st[0].get("k") == "ReturnStmt" and cir.kids(st[0]):
                            r = cir.strip(cir.kids(st[0])[0])
                            if r is not None and r.get("k") == "CXXMemberCallExpr" and cir.callee(r) == "size":
                                f2 = cir.strip(cir.kids(r)[0])
                                tm = cxx.this_member(cir.kids(f2)[0]) if f2 is not None and cir.kids(f2) else None
                                okn = bool(tm) and tm[0] == R.T["name"]
                        break
    if okn:
        res.ok("R-TASK-CALL", "mju_numThread:workers-plus-one", {"file": TU, "line": fn.get("line")})
    else:
        res.bad("R-TASK-CALL", "mju_numThread:workers-plus-one", TU, fn.get("line"),
                f"mju_numThread does not return {R.T['name']}.size() + 1: thread ids 0..workers would not all be below it")
    # serial fallback in mju_dispatch
    fn = unit.funcs["mju_dispatch"]
    ps = cir.params(fn)
    fparam = [p for p in ps if p.get("t") == R.F["t"]]
    key = "mju_dispatch:serial-fallback"
    found = False
    from .c26 import counted_loop
    from .. import norm
    fbody = cir.body(fn)
    for f in cir.walk(fn):
        if f.get("k") not in ("ForStmt", "WhileStmt"):
            continue
        body = cir.kids(f)[-1]
        calls = [c for c in cir.walk(body) if c.get("k") == "CallExpr" and fparam and
                 cxx.ref_id(cir.kids(c)[0]) == fparam[0].get("id")]
        if not calls:
            continue
        found = True
        a = cir.args(calls[0])
        ivid = cxx.ref_id(a[R.task_pos]) if len(a) == R.nparams else None
        cl = counted_loop(fbody, f, ivid) if ivid is not None else {"problems": ["task id is not a local"], "start": None, "bound": None}
        ntask_params = [p for p in ps if cl.get("bound") == p.get("n") and "int" in (p.get("t") or "")]
        ok = ivid is not None and not cl["problems"] and cl["start"] == "0" and bool(ntask_params) and len(calls) == 1 and \
            cxx.const_int(a[R.thread_pos]) == 0 and not norm.guards(body, calls[0])
        if ok:
            res.ok("R-TASK-CALL", key, {"file": TU, "line": f.get("line")})
        else:
            res.bad("R-TASK-CALL", key, TU, f.get("line"),
                    "the serial fallback does not call the task function exactly once for i = 0..ntask-1 with thread id 0")
    if not found:
        res.bad("R-TASK-CALL", key, TU, fn.get("line"), "mju_dispatch has no serial fallback loop over the task function")


# ----------------------------------------------------------------------------------------------
# pool life cycle (C API)


def _pool_field(unit):
    """Name of the mjData field that holds the context (operand of the cast to CLASS*)."""
    names = set()
    for f in sorted(unit.funcs):       # the cast may live in an accessor helper of the TU
        for n in cir.walk(unit.funcs[f]):
            if n.get("k") == "CXXReinterpretCastExpr" and CLASS in (n.get("t") or ""):
                x = cir.strip(cir.kids(n)[0])
                if x is not None and x.get("k") == "MemberExpr":
                    names.add(x.get("n"))
    if len(names) != 1:
        raise AnalysisError(f"cannot identify the mjData field holding the {CLASS} (found {sorted(names)})")
    return names.pop()


def _null_test(cond, is_subject):
    """True / False when the leaf condition holds exactly if the subject is non-null / null (`p`, `p != 0`,
    `p != nullptr`, `0 == p`, ...; `!` is removed by the path engine); None for any other condition."""
    c = cir.strip(cond)
    if c is None:
        return None
    if is_subject(c):
        return True
    s = _cmp_sides(c)
    if s and s[0] in ("==", "!="):
        for a, b in ((s[1], s[2]), (s[2], s[1])):
            if is_subject(a) and cxx.const_truth(b) is False:
                return s[0] == "!="
    return None


def _pool_aliases(fn, field):
    """locals initialised from (a cast of) the pool pointer and never written afterwards"""
    alias = set()
    for n in cir.walk(fn):
        if n.get("k") == "VarDecl":
            for x in cir.walk(n):
                if x.get("k") == "MemberExpr" and x.get("n") == field:
                    alias.add(n.get("id"))
    for lv, w, how in cxx.writes(cir.body(fn), own=False):
        alias.discard(cxx.ref_id(lv))
    return alias


class ReplaceRule(paths.Rule):
    """mju_threadpool.  state: unk | null | live | deleted | set"""
    use_kinds = frozenset({"CXXDeleteExpr"})

    def __init__(self, field, ev, fn):
        self.field, self.ev = field, ev
        # locals that alias the pool pointer (initialised from a cast of it)
        self.alias = _pool_aliases(fn, field)

    def is_pool(self, n):
        n = cir.strip(n)
        return n is not None and n.get("k") == "MemberExpr" and n.get("n") == self.field

    def initial(self, fn):
        return "unk"

    def branch(self, st, cond, taken, ctx):
        # an alias holds the value the field had when the alias was initialised: only while the field is unmodified
        pol = _null_test(cond, lambda n: self.is_pool(n) or (st in ("unk", "live", "null") and cxx.ref_id(n) in self.alias))
        if pol is not None:
            if taken == pol:
                return "live" if st in ("unk", "live") else (None if st == "null" else st)
            return "null" if st in ("unk", "null") else (None if st == "live" else st)
        return st

    def use(self, st, node, ctx):
        x = cir.kids(node)[0] if cir.kids(node) else None
        if cxx.ref_id(x) in self.alias or any(self.is_pool(y) for y in cir.walk(x)):
            return "deleted"
        return st

    def assign(self, st, node, ctx):
        if node.get("k") != "VarDecl" and self.is_pool(cir.kids(node)[0]):
            self.ev.note("delete-before-replace", st not in ("live", "unk"), node,
                         f"`{cir.text(node)}` overwrites a possibly live pool pointer without deleting the old "
                         f"{CLASS}: its worker threads are never stopped or joined")
            return "set"
        return st

    def _exit(self, st, node):
        self.ev.note("no-dangling-pointer", st != "deleted", node,
                     f"a path returns after `delete` of the old {CLASS} with the mjData field still holding its address: "
                     f"the next mju_dispatch uses a destroyed pool")

    def ret(self, st, node, ctx):
        self._exit(st, node)

    def fallthrough(self, st, ctx):
        self._exit(st, ctx.fn)


class NonNullRule(paths.Rule):
    """mju_dispatch: the Dispatch call is reached only where the pool pointer was tested non-null."""

    def __init__(self, field, ev, call_node, fn):
        self.field, self.ev, self.call_node = field, ev, call_node
        self.alias = _pool_aliases(fn, field)

    def initial(self, fn):
        return "unk"

    def _subject(self, n):
        n = cir.strip(n)
        if n is None:
            return False
        if n.get("k") == "MemberExpr" and n.get("n") == self.field:
            return True
        # a pointer local initialised from the field (never a reference / dereference of it)
        return cxx.ref_id(n) in self.alias and (n.get("t") or "").strip().endswith("*")

    def branch(self, st, cond, taken, ctx):
        pol = _null_test(cond, self._subject)
        if pol is not None:
            return "live" if taken == pol else "null"
        return st

    def call(self, st, node, name, ctx):
        if node is self.call_node:
            self.ev.note("dispatch-behind-null-test", st == "live", node,
                         "the pool's dispatch method is reached on a path where the pool pointer was not tested non-null")
        return st


class CWriterRule(paths.Rule):
    """C functions writing mjData.<field>.  state: frozenset of (base text, status);
    status: maybe (may own a live pool) | fresh | clear | alias (holds a copy of another mjData's pointer)"""

    def __init__(self, field, ev, owner_type, fn):
        self.field, self.ev, self.owner = field, ev, owner_type
        self.params = {p.get("n") for p in cir.params(fn)}

    def initial(self, fn):
        return frozenset()

    def _get(self, st, base):
        return dict(st).get(base, "maybe")

    def _set(self, st, base, v):
        d = dict(st)
        d[base] = v
        return frozenset(d.items())

    def branch(self, st, cond, taken, ctx):
        c = cir.strip(cond)
        if c is not None and c.get("k") == "MemberExpr" and c.get("n") == self.field:
            base = cir.text(cir.kids(c)[0])
            if not taken:
                return self._set(st, base, "clear")
        return st

    def call(self, st, node, name, ctx):
        if name == "mju_threadpool":
            a = cir.args(node)
            if len(a) == 2 and cxx.const_int(a[1]) == 0:
                return self._set(st, cir.text(a[0]), "clear")
        return st

    def assign(self, st, node, ctx):
        if node.get("k") == "VarDecl":
            t = (node.get("t") or "")
            if self.owner in t and t.strip().endswith("*"):
                init = [c for c in cir.kids(node) if c is not None]
                return self._set(st, node.get("n"), self._classify(init[-1] if init else None))
            return st
        if node.get("k") != "BinaryOperator" or node.get("op") != "=":
            return st
        lhs, rhs = cir.kids(node)
        l = cir.strip(lhs)
        if l is None:
            return st
        lt = (l.get("t") or "")
        if l.get("k") == "DeclRefExpr" and self.owner in lt and lt.strip().endswith("*"):
            return self._set(st, cir.text(l), self._classify(rhs))
        if l.get("k") == "MemberExpr" and l.get("n") == self.field:
            base = cir.text(cir.kids(l)[0])
            cur = self._get(st, base)
            zero = cxx.const_int(rhs) == 0
            self.ev.note(f"{base}->{self.field}", cur != "maybe", node,
                         f"`{cir.text(node)}` overwrites the pool pointer of an mjData that may own a live "
                         f"{CLASS} (no mju_threadpool({base}, 0) / null test before): its worker threads are leaked, never joined")
            return self._set(st, base, "clear" if zero else "set")
        if l.get("k") == "UnaryOperator" and l.get("op") == "*" and re.fullmatch(r"(struct )?" + self.owner + "_?", lt.strip()):
            base = cir.text(cir.kids(l)[0])
            cur = self._get(st, base)
            self.ev.note(f"*{base}", cur != "maybe", node,
                         f"`{cir.text(node)}` copies a whole {self.owner} over one that may own a live {CLASS}: "
                         f"its pool pointer is lost, worker threads are leaked, never joined")
            return self._set(st, base, "alias")
        return st

    def _classify(self, rhs):
        r = cir.strip(rhs)
        if r is None:
            return "maybe"
        if r.get("k") == "CallExpr" and cir.callee(r) in ALLOCATORS:
            return "fresh"
        if cxx.const_int(r) == 0 or r.get("k") in ("GNUNullExpr", "CXXNullPtrLiteralExpr"):
            return "fresh"      # a null pointer owns nothing
        return "maybe"

    def _exit(self, st, node):
        for base, v in st:
            if v == "alias":
                self.ev.note(f"*{base}:detached", False, node,
                             f"a path returns with {base}->{self.field} still holding the source mjData's pool pointer: "
                             f"two mjData share one {CLASS} (double delete)")

    def ret(self, st, node, ctx):
        self._exit(st, node)

    def fallthrough(self, st, ctx):
        self._exit(st, ctx.fn)


def pool_lifecycle(res, unit, R, repo):
    res.rule("R-POOL-REPLACE", "the old context is deleted before the pool pointer is replaced, no dangling or shared "
             "pointer survives, Dispatch only behind the null test, mj_deleteData destroys the pool first", floor=5)
    from .. import norm
    field = _pool_field(unit)
    # helper functions of the TU (accessors such as `static Ctx* Pool(const mjData*)`) are read inside their callers
    fn = norm.canon(unit, "mju_threadpool", inline_helpers=True, propagate=False, nested=False, exclude=ANCHOR_FUNCS)
    ev = Events()
    paths.explore(ReplaceRule(field, ev, fn), unit, fn)
    if "delete-before-replace" not in ev.ev:
        raise AnalysisError("mju_threadpool never assigns the pool pointer")
    # the new context is created from the requested size
    ev.flush(res, "R-POOL-REPLACE", "mju_threadpool", TU)
    ev = Events()
    fn = norm.canon(unit, "mju_dispatch", inline_helpers=True, propagate=False, nested=False, exclude=ANCHOR_FUNCS)
    mids = R.kl.method_ids()
    dcalls = [n for n in cir.walk(fn) if n.get("k") == "CXXMemberCallExpr" and
              (cir.strip(cir.kids(n)[0]) or {}).get("k") == "MemberExpr" and
              (cir.strip(cir.kids(n)[0]) or {}).get("mid") in mids and (cir.strip(cir.kids(n)[0]) or {}).get("n") == R.dispatch_name]
    if len(dcalls) != 1:
        raise AnalysisError(f"mju_dispatch: expected one call of {CLASS}::{R.dispatch_name}, found {len(dcalls)}")
    paths.explore(NonNullRule(field, ev, dcalls[0], fn), unit, fn)
    if not ev.ev:
        raise AnalysisError("mju_dispatch: call of the dispatch method not visited")
    ev.flush(res, "R-POOL-REPLACE", "mju_dispatch", TU)
    # C writers
    edir = os.path.join(repo, "src", "engine")
    tus = []
    for f in sorted(os.listdir(edir)):
        if f.endswith(".c"):
            try:
                txt = open(os.path.join(edir, f), errors="replace").read()
            except OSError:
                continue
            if re.search(r"\b" + re.escape(field) + r"\b", txt):
                tus.append("src/engine/" + f)
    res.count("c_tus_mentioning_pool_field", len(tus))
    seen_delete = False
    for tu in tus:
        u = engine.unit(tu, repo)
        for name, f in sorted(u.funcs.items()):
            if (f.get("file") or tu) != tu:
                continue
            writes_field = False
            for lv, w, how in cxx.writes(cir.body(f), own=False):
                l = cir.strip(lv)
                if l is not None and l.get("k") == "MemberExpr" and l.get("n") == field:
                    writes_field = True
                if l is not None and l.get("k") == "UnaryOperator" and l.get("op") == "*" and \
                        re.fullmatch(r"(struct )?mjData_?", (l.get("t") or "").strip()):
                    writes_field = True
            if writes_field:
                ev = Events()
                paths.explore(CWriterRule(field, ev, "mjData", f), u, f)
                # C03 quantifies over pool operations (create, resize, dispatch, destroy).  Whole-mjData copies and
                # re-initialisation that overwrite the pool pointer are not pool operations: a pool lost there leaks its
                # workers (a resource matter), it neither loses/duplicates a task nor blocks a caller.  Such sites are
                # recorded as observations in the evidence, not as violations of C03.
                for c, e in sorted(ev.ev.items()):
                    if e["ok"]:
                        res.ok("R-POOL-REPLACE", f"{name}:{c}", {"file": tu, "line": e["line"]})
                    else:
                        res.extra.setdefault("observations_outside_property", []).append(
                            {"construct": f"{name}:{c}", "where": f"{tu}:{e['line']}", "note": e["msg"]})
                res.count("c_functions_writing_pool_field")
            # destroy path: mju_threadpool(d, 0) before the frees in mj_deleteData
            if name == "mj_deleteData":
                seen_delete = True
                order = []
                for c in cir.calls(f):
                    order.append((cir.callee(c), c))
                idx_pool = [i for i, (n, c) in enumerate(order) if n == "mju_threadpool" and
                            len(cir.args(c)) == 2 and cxx.const_int(cir.args(c)[1]) == 0]
                idx_free = [i for i, (n, c) in enumerate(order) if n in ("mju_free", "freeDataBuffers", "free")]
                if idx_pool and idx_free and idx_pool[0] < min(idx_free):
                    res.ok("R-POOL-REPLACE", "mj_deleteData:pool-destroyed-before-free",
                           {"file": tu, "line": order[idx_pool[0]][1].get("line")})
                else:
                    res.bad("R-POOL-REPLACE", "mj_deleteData:pool-destroyed-before-free", tu, f.get("line"),
                            "mj_deleteData does not call mju_threadpool(d, 0) before freeing the mjData: worker threads "
                            "outlive the data they reference")
    if not seen_delete:
        raise AnalysisError("anchor function mj_deleteData not found among the C files mentioning the pool field")


# ----------------------------------------------------------------------------------------------


def run(res, tier):
    repo = cfront.REPO
    ir = cfront.load_tu(TU, repo, lang="cxx")
    unit = cir.Unit(ir)
    R = discover(ir, unit, repo)
    kl = R.kl
    res.count("tus", 1)
    res.count("class_members", len(kl.fields))
    res.count("atomic_members", len(R.atomics))
    res.count("plain_members_shared", len(R.shared))
    res.extra["roles"] = {"dispatch": R.dispatch_name, "worker": R.worker_name, "task_function": R.F["name"],
                          "claim_counter": R.C, "publication": R.P, "done_counter": R.D, "task_count": sorted(R.N),
                          "thread_container": R.T["name"], "shared_plain": sorted(R.shared),
                          "inlined_helpers": sorted(set(R.inl_d + R.inl_w + R.inl_t))}

    res.rule("R-CLAIM-RMW", "task ids only from fetch_add(1)/postfix++ on the claim counter; its only plain store is "
             "the reset to 0 in dispatch", floor=3)
    res.rule("R-TASK-CALL", "task function called only with a claimed id tested < ntask on that path; serial fallback "
             "enumerates 0..ntask-1; thread ids 0 / own parameter / loopvar+c; mju_numThread = workers+1", floor=7)
    res.rule("R-PUBLISH-ORDER", "plain members and plain atomic stores precede the release publication + notify_all; "
             "worker reads/claims only after an acquire wait/load of the publication", floor=15)
    res.rule("R-DONE", "worker increments the done counter exactly once per batch, release RMW, after its last task",
             floor=3)
    res.rule("R-WAIT-DOM", "every path from the publication to the exit of dispatch passes the acquire poll of the "
             "done counter against the worker count; only workers check in; workers exist from construction on", floor=6)

    n = claim_sites(R, res, R.dispatch, R.dispatch_name, True)
    n += claim_sites(R, res, R.worker, R.worker_name, False)
    res.count("claim_counter_ops", n)

    # dispatch
    ev_pub, ev_wait = Events(), Events()
    dr = DispatchRule(R, ev_pub, ev_wait)
    paths.explore(dr, None, R.dispatch)
    if dr.publishes == 0:
        raise AnalysisError(f"{CLASS}::{R.dispatch_name}: no store to the publication atomic visited")
    for f in sorted(R.shared):
        if f"write-before-publish:{f}" not in ev_pub.ev:
            raise AnalysisError(f"{CLASS}::{R.dispatch_name}: write of {f} not visited by the path engine")
    if f"notify:{R.P}" not in ev_pub.ev:
        ev_pub.note(f"notify:{R.P}", False, R.dispatch_raw,
                    f"{R.dispatch_name} never notifies the waiters of {R.P} after publishing: workers sleeping in wait() "
                    f"never start the batch")
    for k in ("exit-dominated-by-wait",):
        if k not in ev_wait.ev:
            raise AnalysisError(f"{CLASS}::{R.dispatch_name}: no exit visited")
    if f"wait-acquire:{R.D}" not in ev_wait.ev:
        ev_wait.note(f"wait-acquire:{R.D}", False, R.dispatch_raw,
                     f"{R.dispatch_name} has no poll of {R.D} after the publication")
    # the completion wait counts workers: the dispatching thread itself must not check in on the done counter, and workers
    # exist from construction on (a worker started on a live pool has the wrong idea of the publication's current value: it can
    # sleep through the next batch, and the wait never ends)
    # a start-up helper that only constructors call is part of construction
    def _only_from_ctors(mname):
        callers = []
        ctor_ids_ = {id(c_) for c_ in kl.ctors}
        hosts = [(id(m_) in ctor_ids_, m_) for ms_ in kl.methods.values() for m_ in ms_] + [(True, c_) for c_ in kl.ctors] + \
                [(False, f_) for f_ in unit.funcs.values()]
        for is_ctor, h_ in hosts:
            for c_ in cir.walk(h_):
                if c_.get("k") in ("CXXMemberCallExpr", "CallExpr") and cir.callee(c_) == mname:
                    callers.append(is_ctor)
        return bool(callers) and all(callers)
    R.late_starts = [(mn_, n_) for mn_, n_ in R.late_starts if not _only_from_ctors(mn_)]
    rmw = [a_ for a_ in cxx.atomic_ops(R.dispatch, own=False) if a_.member == R.D and a_.kind not in ("load", "store")]
    ev_wait.note("dispatcher-does-not-check-in", not rmw, rmw[0].node if rmw else R.dispatch_raw,
                 f"{R.dispatch_name} itself modifies the done counter {R.D} ({rmw[0].describe() if rmw else ''}): the completion wait "
                 f"compares it with the number of workers, so it is satisfied while a worker is still inside the task function")
    ev_wait.note("workers-started-at-construction", not R.late_starts, R.late_starts[0][1] if R.late_starts else R.dispatch_raw,
                 f"a worker thread is started outside a constructor ({R.late_starts[0][0] if R.late_starts else ''}): its initial "
                 f"expectation of {R.P} is only valid on a fresh pool; after an odd number of batches it sleeps through the next "
                 f"publication and the completion wait never ends")
    ev_pub.flush(res, "R-PUBLISH-ORDER", f"{CLASS}::{R.dispatch_name}", TU)
    ev_wait.flush(res, "R-WAIT-DOM", f"{CLASS}::{R.dispatch_name}", TU)

    # claims and task calls
    for fn, fname, isd in ((R.dispatch, R.dispatch_name, True), (R.worker, R.worker_name, False)):
        ev = Events()
        paths.explore(ClaimRule(R, ev, fname, isd), None, fn)
        if "task-call" not in ev.ev:
            raise AnalysisError(f"{CLASS}::{fname}: task function call not visited")
        ev.flush(res, "R-TASK-CALL", f"{CLASS}::{fname}", TU)
    thread_ids(R, res, unit)

    # worker
    ev_pub, ev_done = Events(), Events()
    wr = WorkerRule(R, ev_pub, ev_done)
    paths.explore(wr, None, R.worker)
    if wr.waits == 0:
        raise AnalysisError(f"{CLASS}::{R.worker_name}: no wait() on {R.P} — worker idiom not recognised")
    if f"done-increment:{R.D}" not in ev_done.ev:
        ev_done.note(f"done-increment:{R.D}", False, R.worker_raw,
                     f"the worker never increments the done counter {R.D}: Dispatch waits forever")
    if "done-once-per-batch" not in ev_done.ev:
        raise AnalysisError(f"{CLASS}::{R.worker_name}: the loop back to wait() was not visited")
    for f in sorted(R.shared):
        if f"read-after-acquire:{f}" not in ev_pub.ev and f"worker-writes:{f}" not in ev_pub.ev:
            raise AnalysisError(f"{CLASS}::{R.worker_name}: access of {f} not visited by the path engine")
    ev_pub.flush(res, "R-PUBLISH-ORDER", f"{CLASS}::{R.worker_name}", TU)
    ev_done.flush(res, "R-DONE", f"{CLASS}::{R.worker_name}", TU)

    shutdown_and_values(R, res)
    pool_lifecycle(res, unit, R, repo)

    res.explanation = (
        "Structural clauses of the dispatch protocol decided on every path of ThreadPoolContext's dispatch, worker and "
        "destructor (helpers of the class inlined), with roles discovered from the AST: " + str(res.extra["roles"]) +
        ". Claim only by fetch_add(1); task function only with a claimed, bound-tested id; plain members and counter "
        "resets before the release publication and notify_all, read only after an acquire wait/load; done counter "
        "incremented exactly once per batch (release RMW) after the last task; Dispatch's exit dominated by the acquire "
        "poll of the done counter against the worker count; destructor stop-store, notify_all, join of every element; "
        "pool pointer life cycle in mju_threadpool/mju_dispatch/mj_deleteData and the C writers of mjData.threadpool.")
    res.not_decided = (
        "absence of lost wake-ups, deadlock or starvation over interleavings of the dispatching thread and the workers "
        "(including re-entrant or concurrent use of one pool, and histories of create/resize/dispatch/destroy) is a "
        "model-checking question and is not decided here; std::atomic::wait/notify and std::thread are taken at their "
        "specified semantics; what the task function itself does is C01/C19 territory (R-TASK)")
    res.assumptions = [
        "one thread at a time calls mju_dispatch / mju_threadpool on a given mjData (API contract)",
        "std::atomic<T>::wait(old, order) returns only after an `order` load observed a value != old (C++20)",
    ]
    res.trusted.append("sa.paths all-paths engine; sa.cxx atomic-operation recogniser")


# ----------------------------------------------------------------------------------------------
# self-test fixtures (thorough tier): anchored text mutants of engine_thread.cc on scratch copies

_W_CLAIM = "        int taskId = next_.fetch_add(1, std::memory_order_relaxed);\n        if (taskId >= ntask_) {\n          break;\n        }\n        func_(model_, data_, arg_, threadId, taskId);"
_HELPER_OLD_D = "    while (true) {\n      int taskId = next_.fetch_add(1, std::memory_order_relaxed);\n      if (taskId >= ntask_) {\n        break;\n      }\n      func_(model_, data_, arg_, 0, taskId);\n    }\n"
_HELPER_OLD_W = "      while (true) {\n        int taskId = next_.fetch_add(1, std::memory_order_relaxed);\n        if (taskId >= ntask_) {\n          break;\n        }\n        func_(model_, data_, arg_, threadId, taskId);\n      }\n"
_HELPER_DEF = ("  void RunTasks(int tid) {\n    while (true) {\n      int taskId = next_.fetch_add(1, std::memory_order_relaxed);\n"
               "      if (taskId >= ntask_) {\n        break;\n      }\n      func_(model_, data_, arg_, tid, taskId);\n    }\n  }\n\n")

_HELPER_FOR = ("  void RunTasks(int tid) {\n    for (int taskId = next_.fetch_add(1, std::memory_order_relaxed);\n"
               "         taskId < ntask_;\n         taskId = next_.fetch_add(1, std::memory_order_relaxed)) {\n"
               "      func_(model_, data_, arg_, tid, taskId);\n    }\n  }\n\n")
_JOIN_LOOP = "    for (auto& thread : threads_) {\n      if (thread.joinable()) {\n        thread.join();\n      }\n    }"
_POOL_OLD = ("  if (d->threadpool) {\n    ThreadPoolContext* ctx =\n        reinterpret_cast<ThreadPoolContext*>(d->threadpool);\n"
             "    // same size, nothing to do\n    if (nthread == ctx->ThreadCount()) {\n        return;\n    }\n    delete ctx;\n")
_POOL_NEW = ("  if (ThreadPoolContext* pool = GetThreadPool(d); pool != nullptr) {\n"
             "    // same size, nothing to do\n    if (pool->ThreadCount() == nthread) {\n        return;\n    }\n    delete pool;\n")

MUTANTS = [
    # ---- must fire
    {"id": "worker-leaves-on-other-value", "expect": ("R-SHUTDOWN", "stop-store:signal_"),
     "edits": [(TU, "      if (status == 0) {\n        return;\n      }", "      if (status == 2) {\n        return;\n      }")]},
    {"id": "worker-ignores-stop-value", "expect": ("R-SHUTDOWN", "stop-store:signal_"),      # no exit value: refused
     "edits": [(TU, "      if (status == 0) {\n        return;\n      }", "      if (status == 0) {\n        continue;\n      }")]},
    {"id": "dtor-joins-only-unjoinable", "expect": ("R-SHUTDOWN", "join-every-element:threads_"),
     "edits": [(TU, _JOIN_LOOP, "    for (size_t k = 0; k < threads_.size(); k++) {\n      std::thread& worker = threads_[k];\n"
                                "      if (worker.joinable()) {\n        continue;\n      }\n      worker.join();\n    }")]},
    {"id": "dtor-index-join-from-one", "expect": ("R-SHUTDOWN", "join-every-element:threads_"),     # refused or reported
     "edits": [(TU, _JOIN_LOOP, "    for (size_t k = 1; k < threads_.size(); ++k) {\n      threads_[k].join();\n    }")]},
    {"id": "threadpool-accessor-no-delete", "expect": ("R-POOL-REPLACE", "mju_threadpool:delete-before-replace"),
     "edits": [(TU, "// create a thread pool with nthread threads\n",
                "static ThreadPoolContext* GetThreadPool(const mjData* d) {\n  return reinterpret_cast<ThreadPoolContext*>(d->threadpool);\n}\n\n"
                "// create a thread pool with nthread threads\n"),
               (TU, _POOL_OLD, _POOL_NEW.replace("    delete pool;\n", ""))]},
    {"id": "publish-relaxed", "expect": ("R-PUBLISH-ORDER", "Dispatch:publish:signal_"),
     "edits": [(TU, "                 std::memory_order_release);", "                 std::memory_order_relaxed);")]},
    {"id": "worker-acquire-both-relaxed", "expect": ("R-PUBLISH-ORDER", "Worker:read-after-acquire:ntask_"),
     "edits": [(TU, "signal_.wait(status, std::memory_order_acquire);", "signal_.wait(status, std::memory_order_relaxed);"),
               (TU, "status = signal_.load(std::memory_order_acquire);", "status = signal_.load(std::memory_order_relaxed);")]},
    {"id": "plain-write-after-publish", "expect": ("R-PUBLISH-ORDER", "Dispatch:write-before-publish:ntask_"),
     "edits": [(TU, "    ntask_ = ntask;\n", ""),
               (TU, "    signal_.notify_all();\n\n    // process tasks", "    signal_.notify_all();\n    ntask_ = ntask;\n\n    // process tasks")]},
    {"id": "reset-after-publish", "expect": ("R-PUBLISH-ORDER", "Dispatch:reset-before-publish:next_"),
     "edits": [(TU, "    next_.store(0, std::memory_order_relaxed);\n", ""),
               (TU, "    signal_.notify_all();\n\n    // process tasks", "    signal_.notify_all();\n    next_.store(0, std::memory_order_relaxed);\n\n    // process tasks")]},
    {"id": "notify-one", "expect": ("R-PUBLISH-ORDER", "Dispatch:notify:signal_"),
     "edits": [(TU, "                 std::memory_order_release);\n    signal_.notify_all();", "                 std::memory_order_release);\n    signal_.notify_one();")]},
    {"id": "claim-load-store", "expect": ("R-TASK-CALL", "Worker:task-call"),
     "edits": [(TU, _W_CLAIM, _W_CLAIM.replace("int taskId = next_.fetch_add(1, std::memory_order_relaxed);",
                                                "int taskId = next_.load(std::memory_order_relaxed);\n        next_.store(taskId + 1, std::memory_order_relaxed);"))]},
    {"id": "claim-load-store-counter", "expect": ("R-CLAIM-RMW", "Worker:store:next_"),
     "edits": [(TU, _W_CLAIM, _W_CLAIM.replace("int taskId = next_.fetch_add(1, std::memory_order_relaxed);",
                                                "int taskId = next_.load(std::memory_order_relaxed);\n        next_.store(taskId + 1, std::memory_order_relaxed);"))]},
    {"id": "claim-by-two", "expect": ("R-CLAIM-RMW", "Worker:claim:next_"),
     "edits": [(TU, _W_CLAIM, _W_CLAIM.replace("fetch_add(1,", "fetch_add(2,"))]},
    {"id": "bound-test-weakened", "expect": ("R-TASK-CALL", "Worker:task-call"),
     "edits": [(TU, _W_CLAIM, _W_CLAIM.replace("if (taskId >= ntask_) {", "if (taskId > ntask_) {"))]},
    {"id": "done-dropped-on-a-path", "expect": ("R-DONE", "Worker:done-once-per-batch"),
     "edits": [(TU, "      ndone_.fetch_add(1, std::memory_order_release);", "      if (ntask_ > threadId) ndone_.fetch_add(1, std::memory_order_release);")]},
    {"id": "done-relaxed", "expect": ("R-DONE", "Worker:done-increment:ndone_"),
     "edits": [(TU, "      ndone_.fetch_add(1, std::memory_order_release);", "      ndone_.fetch_add(1, std::memory_order_relaxed);")]},
    {"id": "done-before-tasks", "expect": ("R-DONE", "Worker:no-task-after-done"),
     "edits": [(TU, "      ndone_.fetch_add(1, std::memory_order_release);\n", ""),
               (TU, "      // subloop to process tasks for the current batch\n", "      ndone_.fetch_add(1, std::memory_order_release);\n")]},
    {"id": "wait-relaxed", "expect": ("R-WAIT-DOM", "Dispatch:wait-acquire:ndone_"),
     "edits": [(TU, "while (ndone_.load(std::memory_order_acquire) < nthread)", "while (ndone_.load(std::memory_order_relaxed) < nthread)")]},
    {"id": "early-return-before-wait", "expect": ("R-WAIT-DOM", "Dispatch:exit-dominated-by-wait"),
     "edits": [(TU, "    // busy wait for rest of workers to finish\n", "    if (ntask_ < 4) return;\n")]},
    {"id": "wait-bound-short", "expect": ("R-WAIT-DOM", "Dispatch:wait-bound-is-worker-count"),
     "edits": [(TU, "< nthread) {\n    }", "< nthread - 1) {\n    }")]},
    {"id": "dtor-detach", "expect": ("R-SHUTDOWN", "join-every-element:threads_"),
     "edits": [(TU, "        thread.join();", "        thread.detach();")]},
    {"id": "dtor-no-notify", "expect": ("R-SHUTDOWN", "notify-all-after-stop"),
     "edits": [(TU, "    signal_.store(0, std::memory_order_release);\n    signal_.notify_all();\n", "    signal_.store(0, std::memory_order_release);\n")]},
    {"id": "dtor-join-before-stop", "expect": ("R-SHUTDOWN", "join-after-stop-and-notify"),
     "edits": [(TU, "    signal_.store(0, std::memory_order_release);\n    signal_.notify_all();\n    for (auto& thread : threads_) {\n      if (thread.joinable()) {\n        thread.join();\n      }\n    }\n",
                "    for (auto& thread : threads_) {\n      if (thread.joinable()) {\n        thread.join();\n      }\n    }\n    signal_.store(0, std::memory_order_release);\n    signal_.notify_all();\n")]},
    {"id": "worker-first-expected-value", "expect": ("R-SHUTDOWN", "signal-values:signal_"),
     "edits": [(TU, "    int status = 1;\n", "    int status = -1;\n")]},
    {"id": "threadpool-no-delete", "expect": ("R-POOL-REPLACE", "mju_threadpool:delete-before-replace"),
     "edits": [(TU, "    delete ctx;\n", "")]},
    {"id": "threadpool-dangling", "expect": ("R-POOL-REPLACE", "mju_threadpool:no-dangling-pointer"),
     "edits": [(TU, "    d->threadpool = 0;  // null out in case nthread == 0\n", "")]},
    {"id": "dispatch-without-null-test", "expect": ("R-POOL-REPLACE", "mju_dispatch:dispatch-behind-null-test"),
     "edits": [(TU, "if (!d->threadpool || ntask < 2) {", "if (ntask < 2) {")]},
    {"id": "serial-from-one", "expect": ("R-TASK-CALL", "mju_dispatch:serial-fallback"),
     "edits": [(TU, "    for (int i = 0; i < ntask; i++) {\n      func(m, d, arg, 0, i);", "    for (int i = 1; i < ntask; i++) {\n      func(m, d, arg, 0, i);")]},
    {"id": "worker-id-collides-with-dispatcher", "expect": ("R-TASK-CALL", "worker-thread-ids"),
     "edits": [(TU, "std::thread(&ThreadPoolContext::Worker, this, i + 1);", "std::thread(&ThreadPoolContext::Worker, this, i + 0);")]},
    {"id": "numthread-without-dispatcher", "expect": ("R-TASK-CALL", "mju_numThread:workers-plus-one"),
     "edits": [(TU, "return ctx ? ctx->ThreadCount() + 1 : 1;", "return ctx ? ctx->ThreadCount() : 1;")]},
    # ---- controls: must reproduce the unmutated result exactly
    {"id": "ok-strengthen-seq-cst", "expect": None,
     "edits": [(TU, "                 std::memory_order_release);", "                 std::memory_order_seq_cst);"),
               (TU, "      ndone_.fetch_add(1, std::memory_order_release);", "      ndone_.fetch_add(1);"),
               (TU, "status = signal_.load(std::memory_order_acquire);", "status = signal_.load();"),
               (TU, "while (ndone_.load(std::memory_order_acquire) < nthread)", "while (ndone_.load(std::memory_order_seq_cst) < nthread)")]},
    {"id": "ok-rename-member-and-local", "expect": None,
     "edits": [(TU, "ndone_", "finished_", 99), (TU, "taskId", "tid", 99), (TU, "status", "seen", 99)]},
    {"id": "ok-reorder-plain-writes", "expect": None,
     "edits": [(TU, "    func_ = func;\n    model_ = model;\n    data_ = data;\n    arg_ = arg;\n    ntask_ = ntask;\n    next_.store(0, std::memory_order_relaxed);\n    ndone_.store(0, std::memory_order_relaxed);\n",
                "    ndone_.store(0, std::memory_order_relaxed);\n    ntask_ = ntask;\n    arg_ = arg;\n    next_.store(0, std::memory_order_relaxed);\n    func_ = func;\n    data_ = data;\n    model_ = model;\n")]},
    {"id": "ok-extract-helper", "expect": None,
     "edits": [(TU, _HELPER_OLD_D, "    RunTasks(0);\n"), (TU, _HELPER_OLD_W, "      RunTasks(threadId);\n"),
               (TU, "  // worker loop for each worker thread\n", _HELPER_DEF + "  // worker loop for each worker thread\n")]},
    {"id": "ok-wait-relaxed-load-acquire", "expect": None,     # the acquire load that follows observes the publication
     "edits": [(TU, "signal_.wait(status, std::memory_order_acquire);", "signal_.wait(status, std::memory_order_relaxed);")]},
    {"id": "ok-threads-declared-first", "expect": None,        # threads start in the constructor body
     "edits": [(TU, "  std::vector<std::thread> threads_;\n};", "};"),
               (TU, "  // arguments for the current batch set by Dispatch\n", "  std::vector<std::thread> threads_;\n  // arguments for the current batch set by Dispatch\n")]},
    {"id": "ok-poll-as-for-break", "expect": None,
     "edits": [(TU, "    while (ndone_.load(std::memory_order_acquire) < nthread) {\n    }",
                "    for (;;) {\n      if (ndone_.load(std::memory_order_acquire) >= nthread) break;\n    }")]},
    # refactored shapes (refactors/D-p1): helper with the claim in a for header, break out of the main loop, index join loop
    # with a reference local and an inverted guard, while-form join loop, pool accessor helper + if-init + early returns
    {"id": "ok-extract-helper-for-loop", "expect": None,
     "edits": [(TU, _HELPER_OLD_D, "    RunTasks(/*threadId=*/0);\n"), (TU, _HELPER_OLD_W, "      RunTasks(threadId);\n"),
               (TU, "  // worker loop for each worker thread\n", _HELPER_FOR + "  // worker loop for each worker thread\n")]},
    {"id": "ok-worker-break-out-of-main-loop", "expect": None,
     "edits": [(TU, "      if (status == 0) {\n        return;\n      }", "      if (status == 0) {\n        break;\n      }"),
               (TU, "    // main loop waiting for next batch of tasks\n    while (true) {", "    // main loop waiting for next batch of tasks\n    for (;;) {"),
               (TU, "status", "last_signal", 99)]},
    {"id": "ok-worker-negated-stop-test", "expect": None,
     "edits": [(TU, "      if (status == 0) {\n        return;\n      }", "      if (!status) {\n        return;\n      }")]},
    {"id": "ok-index-join-loop-inverted-guard", "expect": None,
     "edits": [(TU, _JOIN_LOOP, "    for (size_t k = 0; k < threads_.size(); k++) {\n      std::thread& worker = threads_[k];\n"
                                "      if (!worker.joinable()) {\n        continue;\n      }\n      worker.join();\n    }")]},
    {"id": "ok-while-join-loop", "expect": None,
     "edits": [(TU, _JOIN_LOOP, "    size_t k = 0;\n    while (k < threads_.size()) {\n      if (threads_[k].joinable()) {\n"
                                "        threads_[k].join();\n      }\n      ++k;\n    }")]},
    {"id": "ok-pool-accessor-early-returns", "expect": None,
     "edits": [(TU, "// create a thread pool with nthread threads\n",
                "static ThreadPoolContext* GetThreadPool(const mjData* d) {\n  return reinterpret_cast<ThreadPoolContext*>(d->threadpool);\n}\n\n"
                "// create a thread pool with nthread threads\n"),
               (TU, _POOL_OLD, _POOL_NEW),
               (TU, "  if (nthread >= 1) {\n    d->threadpool = reinterpret_cast<uintptr_t>(new ThreadPoolContext(nthread));\n  }\n",
                "  if (nthread < 1) {\n    return;\n  }\n  d->threadpool = reinterpret_cast<uintptr_t>(new ThreadPoolContext(nthread));\n"),
               (TU, "  ThreadPoolContext* ctx = reinterpret_cast<ThreadPoolContext*>(d->threadpool);\n  return ctx ? ctx->ThreadCount() + 1 : 1;",
                "  const ThreadPoolContext* pool = GetThreadPool(d);\n  if (!pool) {\n    return 1;\n  }\n  return pool->ThreadCount() + 1;")]},
    {"id": "ok-index-join-loop", "expect": None,
     "edits": [(TU, "    for (auto& thread : threads_) {\n      if (thread.joinable()) {\n        thread.join();\n      }\n    }",
                "    for (size_t k = 0; k < threads_.size(); ++k) {\n      threads_[k].join();\n    }")]},
]


def selftest(res):
    cxx.run_mutants("C03", res, MUTANTS)
