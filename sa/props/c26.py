"""C26 The state vector API is a faithful serialization.

Decided (R-TABLE / R-COVER, engine_support.c + engine_io.c + headers):
  S1  every single-bit mjtState enumerator below mjNSTATE has a case in mj_stateElemSize, and a case in
      mj_stateElemPtr or a special `element == mjSTATE_X` branch in get, set and copy
  S2  per element: size expression == nr*nc of the mjData field returned by mj_stateElemPtr (X-macro extents),
      the field's element type is mjtNum (others need the special branch); time is the scalar d->time with size 1
  S3  get/set/copy/extract/stateSize iterate i in [0,mjNSTATE) ascending with element = 1<<i, guarded by element&sig
  S4  cursor discipline: regular branch copies `size` elements at offset adr and advances adr by size; the special
      branch loops over the element's own size and advances the cursor once per item; get writes state / set reads it
  S5  extract: src advances on every selected source element, dst only on elements of dstsig
  S6  mj_resetData covers every non-pointer mjData member (assigned in the reset closure or never written after
      construction); every state field is (re)initialised after the buffer fill
  S7  keyframe API: mj_resetDataKeyframe and mj_setKeyframe touch exactly the key_* arrays of the model, with the
      extent the X-macro declares
"""
from __future__ import annotations

import re

from .. import callgraph, cir, ctypeinfo, engine, xmacro
from ..cfront import AnalysisError

FILE = "src/engine/engine_support.c"


def _factors(expr_text):
    """'6 * m->nbody' -> sorted factors; '1' dropped."""
    parts = [p.strip() for p in expr_text.replace("(", "").replace(")", "").split("*")]
    return sorted(p for p in parts if p and p != "1")


def _switch_cases(fn):
    """{enumerator: returned expression node} for `switch(sig){case X: return E;}`"""
    out = {}
    sw = [n for n in cir.walk(fn) if n.get("k") == "SwitchStmt"]
    if len(sw) != 1:
        raise AnalysisError(f"{fn.get('n')}: expected one switch")
    body = cir.kids(sw[0])[-1]
    pending = []

    def visit(st):
        if st is None:
            return
        if st.get("k") == "CaseStmt":
            c = cir.kids(st)
            lab = cir.strip(c[0])
            name = cir.text(lab)
            pending.append(name)
            visit(c[-1])
        elif st.get("k") == "DefaultStmt":
            pending.append("<default>")
            visit(cir.kids(st)[-1])
        elif st.get("k") == "ReturnStmt":
            for p in pending:
                out[p] = cir.kids(st)[0] if cir.kids(st) else None
            pending.clear()
        elif st.get("k") == "CompoundStmt":
            for x in cir.kids(st):
                visit(x)
        elif st.get("k") == "BreakStmt":
            pending.clear()
    for st in cir.kids(body):
        visit(st)
    return out


def run(res, tier):
    state_tables(res)
    reset_cover(res)
    keyframes(res)
    res.explanation = (
        "Table agreement between the mjtState enum (clang AST of the headers), the size/pointer switches, the "
        "MJDATA_POINTERS X-macro extents (preprocessor expansion) and the five state loops; cursor and direction "
        "discipline of get/set/copy/extract; coverage of mjData members by the reset closure (mod facts over the whole "
        "engine call graph); key_* array coverage and extents in the keyframe functions.")
    res.not_decided = "the numeric values copied; behaviour of user plugins' reset callbacks."
    res.assumptions = ["error handlers do not return"]


def state_tables(res):
    u = engine.unit(FILE)
    need = ["mj_stateElemSize", "mj_stateElemPtr", "mj_stateSize", "mj_getState", "mj_setState", "mj_copyState",
            "mj_extractState"]
    for f in need:
        if f not in u.funcs:
            raise AnalysisError(f"anchor {f} not found in {FILE}")
    vals = ctypeinfo.enum_values("mjtState")
    nstate = dict(vals).get("mjNSTATE")
    if not nstate:
        raise AnalysisError("mjNSTATE not found")
    elems = [(n, v) for n, v in vals if v > 0 and v & (v - 1) == 0 and v < (1 << nstate) and n.startswith("mjSTATE_")]
    r1 = res.rule("R-TABLE-STATE", "each state element: enumerator <-> size case <-> pointer case/special branch <-> X-macro extent",
                  floor=14)
    bits = sorted(v for _, v in elems)
    if bits != [1 << i for i in range(nstate)]:
        res.bad("R-TABLE-STATE", "mjtState:bits", "include/mujoco/mjdata.h", 0,
                f"single-bit mjtState enumerators {bits} do not cover bits 0..{nstate - 1} exactly")
    size_cases = _switch_cases(u.funcs["mj_stateElemSize"])
    ptr_cases = _switch_cases(u.funcs["mj_stateElemPtr"])
    dptr = {r["name"]: r for r in xmacro.pointers("MJDATA_POINTERS")}
    dfields = {f["name"]: f for f in ctypeinfo.fields("mjData_")}
    special = {}
    for fname in ("mj_getState", "mj_setState", "mj_copyState"):
        sp = set()
        for n in cir.walk(u.funcs[fname]):
            if n.get("k") == "IfStmt":
                t = cir.text(cir.kids(n)[0])
                m = re.fullmatch(r"\w+ == (mjSTATE_\w+)", t)
                if m:
                    sp.add(m.group(1))
        special[fname] = sp
    elem_size = {}
    for name, v in elems:
        line = u.funcs["mj_stateElemSize"].get("line")
        if name not in size_cases:
            res.bad("R-TABLE-STATE", f"{name}:size", FILE, line, f"no case for {name} in mj_stateElemSize")
            continue
        size_txt = cir.text(size_cases[name])
        elem_size[name] = size_txt
        if name in ptr_cases:
            p = cir.strip(ptr_cases[name])
            if p is not None and p.get("k") == "UnaryOperator" and p.get("op") == "&":
                fld = cir.strip(cir.kids(p)[0]).get("n")
                f = dfields.get(fld)
                okk = f is not None and f["dtype"] in ("double", "mjtNum") and _factors(size_txt) == []
                if okk:
                    res.ok("R-TABLE-STATE", name, {"field": fld, "size": size_txt, "kind": "scalar"})
                else:
                    res.bad("R-TABLE-STATE", name, FILE, p.get("line"),
                            f"{name}: scalar field d->{fld} must be an mjtNum with size 1 (size is `{size_txt}`)")
                continue
            fld = p.get("n") if p is not None and p.get("k") == "MemberExpr" else None
            row = dptr.get(fld)
            if row is None:
                res.bad("R-TABLE-STATE", name, FILE, p.get("line") if p else line,
                        f"{name}: mj_stateElemPtr returns `{cir.text(p)}`, not an MJDATA_POINTERS array")
                continue
            want = sorted(x for x in ("m->" + row["nr"] if not row["nr"].isdigit() else row["nr"], row["nc"]) if x != "1")
            if row["type"] != "mjtNum":
                res.bad("R-TABLE-STATE", name, FILE, p.get("line"),
                        f"{name}: d->{fld} has element type {row['type']}, not mjtNum; needs a special branch")
            elif _factors(size_txt) != want:
                res.bad("R-TABLE-STATE", name, FILE, size_cases[name].get("line"),
                        f"{name}: size `{size_txt}` differs from the extent {row['nr']}*{row['nc']} of d->{fld}")
            else:
                res.ok("R-TABLE-STATE", name, {"field": fld, "size": size_txt, "extent": f"{row['nr']}x{row['nc']}"})
        else:
            missing = [f for f, sp in special.items() if name not in sp]
            if missing:
                res.bad("R-TABLE-STATE", name, FILE, u.funcs["mj_stateElemPtr"].get("line"),
                        f"{name} has no case in mj_stateElemPtr and no special branch in {missing}")
            else:
                res.ok("R-TABLE-STATE", name, {"special_branch_in": sorted(special), "size": size_txt})
    for name in list(size_cases) + list(ptr_cases):
        if name != "<default>" and name not in dict(elems):
            res.bad("R-TABLE-STATE", f"{name}:extra", FILE, 0, f"case {name} is not a single-bit state element")

    # S3/S4/S5 loop shape and cursor discipline
    r2 = res.rule("R-STATE-LOOP", "state loops iterate every bit ascending, guarded by element&sig; cursor advances by the "
                  "element size; copy directions of get/set are opposite", floor=5)
    for fname in ("mj_stateSize", "mj_getState", "mj_setState", "mj_copyState", "mj_extractState"):
        fn = u.funcs[fname]
        loops = [n for n in cir.kids(cir.body(fn)) if n is not None and n.get("k") == "ForStmt"]
        problems = []
        if len(loops) != 1:
            problems.append(f"expected exactly one top-level loop, found {len(loops)}")
        else:
            lp = loops[0]
            c = list(cir.kids(lp)) + [None] * 5
            init, cond, inc, body = c[0], c[2], c[3], c[4]
            it = cir.text(cir.kids(init)[0]) if init is not None and cir.kids(init) else ""
            ivar = cir.kids(init)[0].get("n") if init is not None and cir.kids(init) and cir.kids(init)[0].get("k") == "VarDecl" else None
            iinit = cir.text([x for x in cir.kids(cir.kids(init)[0]) if x][-1]) if ivar else None
            if ivar is None or iinit != "0":
                problems.append("loop does not start at bit 0")
            if cir.text(cond) != f"{ivar} < mjNSTATE":
                problems.append(f"loop bound is `{cir.text(cond)}`, not `{ivar} < mjNSTATE`")
            if cir.text(inc) not in (f"{ivar}++", f"++{ivar}", f"{ivar} += 1"):
                problems.append(f"loop step is `{cir.text(inc)}`")
            # element = 1 << i   (names are discovered, not assumed)
            el = [x for x in cir.walk(body) if x.get("k") == "VarDecl" and x.get("init")
                  and cir.text([y for y in cir.kids(x) if y][-1]) == f"1 << {ivar}"]
            if not el:
                problems.append("no variable holding the element bit 1<<i")
            E = el[0].get("n") if el else "element"
            sigs = [p.get("n") for p in cir.params(fn) if (p.get("t") or "") == "int" and fname != "mj_setKeyframe"]
            guards = [cir.text(cir.kids(x)[0]) for x in cir.walk(body) if x.get("k") == "IfStmt"]
            for s in sigs:
                if f"{E} & {s}" not in guards and f"{s} & {E}" not in guards:
                    problems.append(f"no `{E} & {s}` guard")
            szv = [x.get("n") for x in cir.walk(body) if x.get("k") == "VarDecl" and x.get("init")
                   and cir.is_call(cir.strip([y for y in cir.kids(x) if y][-1]))
                   and cir.callee(cir.strip([y for y in cir.kids(x) if y][-1])) == "mj_stateElemSize"]
            SZ = szv[0] if szv else None
            ptrv = {x.get("n"): cir.strip([y for y in cir.kids(x) if y][-1]) for x in cir.walk(body)
                    if x.get("k") == "VarDecl" and x.get("init") and cir.is_call(cir.strip([y for y in cir.kids(x) if y][-1]))
                    and cir.callee(cir.strip([y for y in cir.kids(x) if y][-1])) in ("mj_stateElemPtr", "mj_stateElemConstPtr")}
            numptr = [p.get("n") for p in cir.params(fn) if "mjtNum *" in (p.get("t") or "")]
            # cursor discipline
            if fname in ("mj_getState", "mj_setState"):
                ST = numptr[0] if len(numptr) == 1 else None
                if ST is None or SZ is None or len(ptrv) != 1:
                    problems.append("cannot identify the state vector parameter / element size / element pointer")
                    ST, PV = ST or "?", "?"
                else:
                    PV = next(iter(ptrv))
                adv = [cir.text(x) for x in cir.walk(body) if x.get("k") == "CompoundAssignOperator"]
                cps = [x for x in cir.calls(body, "mju_copy")]
                CUR = None
                if len(cps) != 1:
                    problems.append("expected one mju_copy in the regular branch")
                else:
                    a = [cir.text(y) for y in cir.args(cps[0])]
                    st_arg = 0 if fname == "mj_getState" else 1
                    mm = re.fullmatch(re.escape(ST) + r" \+ (\w+)", a[st_arg])
                    CUR = mm.group(1) if mm else None
                    if CUR is None or a[2] != SZ or a[1 - st_arg] != PV:
                        problems.append(f"mju_copy({', '.join(a)}) does not copy the element size between the element pointer and "
                                        f"state+cursor in the {'get' if fname == 'mj_getState' else 'set'} direction")
                    elif f"{CUR} += {SZ}" not in adv:
                        problems.append(f"regular branch does not advance the cursor {CUR} by the element size")
                # special branches: inner loop bound equals that element's size, one adr++ per item
                for x in cir.walk(body):
                    if x.get("k") == "IfStmt":
                        m = re.fullmatch(re.escape(E) + r" == (mjSTATE_\w+)", cir.text(cir.kids(x)[0]))
                        if not m:
                            continue
                        then = cir.kids(x)[1]
                        inner = [y for y in cir.walk(then) if y.get("k") == "ForStmt"]
                        decl = {y.get("n"): cir.text([z for z in cir.kids(y) if z][-1]) for y in cir.walk(then)
                                if y.get("k") == "VarDecl" and y.get("init")}
                        okk = False
                        if len(inner) == 1:
                            ic = list(cir.kids(inner[0])) + [None] * 5
                            bound = cir.text(ic[2])
                            mm = re.fullmatch(r"(\w+) < (\w+(?:->\w+)?)", bound)
                            if mm:
                                lim = decl.get(mm.group(2), mm.group(2))
                                incs = [cir.text(z) for z in cir.walk(ic[4]) if z.get("k") == "UnaryOperator" and z.get("op") == "++"]
                                assigns = [z for z in cir.walk(ic[4]) if z.get("k") == "BinaryOperator" and z.get("op") == "="]
                                dirok = False
                                if len(assigns) == 1:
                                    l, r = (cir.text(q) for q in cir.kids(assigns[0]))
                                    dpar = [p.get("n") for p in cir.params(fn) if "mjData" in (p.get("t") or "")]
                                    D = dpar[0] if dpar else "d"
                                    if fname == "mj_getState":
                                        dirok = l.startswith(ST + "[") and r.startswith(D + "->")
                                    else:
                                        dirok = l.startswith(D + "->") and r.startswith(ST + "[")
                                okk = lim == elem_size.get(m.group(1)) and incs == [f"{CUR}++"] and dirok
                        if not okk:
                            problems.append(f"special branch for {m.group(1)} does not move exactly its size through the cursor in "
                                            f"the right direction")
            if fname == "mj_copyState":
                cps = [x for x in cir.calls(body, "mju_copy")]
                dpar = [p for p in cir.params(fn) if "mjData" in (p.get("t") or "")]
                srcd = [p.get("n") for p in dpar if "const" in (p.get("t") or "")]
                dstd = [p.get("n") for p in dpar if "const" not in (p.get("t") or "")]
                if len(cps) != 1 or len(srcd) != 1 or len(dstd) != 1:
                    problems.append("regular branch is not a single mju_copy between a const source and a mutable destination")
                else:
                    a = [cir.text(y) for y in cir.args(cps[0])]
                    frm = {v: cir.text(cir.args(c)[1]) for v, c in ptrv.items()}
                    if not (frm.get(a[0]) == dstd[0] and frm.get(a[1]) == srcd[0] and a[2] == SZ):
                        problems.append(f"mju_copy({', '.join(a)}) does not copy the element size from the source data's element to "
                                        f"the destination data's element")
            if fname == "mj_copyState" and len(srcd) == 1 and len(dstd) == 1:
                # special branches: exactly `size` elements of the field's own element type move from src to dst
                for x in cir.walk(body):
                    if x.get("k") != "IfStmt":
                        continue
                    m = re.fullmatch(re.escape(E) + r" == (mjSTATE_\w+)", cir.text(cir.kids(x)[0]))
                    if not m:
                        continue
                    then = cir.kids(x)[1]
                    decl = {y.get("n"): cir.text([z for z in cir.kids(y) if z][-1]) for y in cir.walk(then)
                            if y.get("k") == "VarDecl" and y.get("init")}
                    want_n = elem_size.get(m.group(1))
                    okk = False
                    why = "no element copy found"
                    inner = [y for y in cir.walk(then) if y.get("k") == "ForStmt"]
                    if len(inner) == 1:
                        ic = list(cir.kids(inner[0])) + [None] * 5
                        mm = re.fullmatch(r"(\w+) < (\w+(?:->\w+)?)", cir.text(ic[2]))
                        asg = [z for z in cir.walk(ic[4]) if z.get("k") == "BinaryOperator" and z.get("op") == "="]
                        if mm and len(asg) == 1:
                            lim = decl.get(mm.group(2), mm.group(2))
                            if lim == SZ:
                                lim = want_n
                            l, r_ = (cir.text(q) for q in cir.kids(asg[0]))
                            j = mm.group(1)
                            fl = re.fullmatch(re.escape(dstd[0]) + r"->(\w+)\[" + j + r"\]", l)
                            fr = re.fullmatch(re.escape(srcd[0]) + r"->(\w+)\[" + j + r"\]", r_)
                            okk = bool(fl and fr and fl.group(1) == fr.group(1) and lim == want_n)
                            why = f"loop copies `{l} = {r_}` for {cir.text(ic[2])}"
                    else:
                        for c in cir.calls(then):
                            if cir.callee(c) in ("memcpy", "memmove"):
                                a = [cir.text(y) for y in cir.args(c)]
                                fl = re.fullmatch(re.escape(dstd[0]) + r"->(\w+)", a[0])
                                fr = re.fullmatch(re.escape(srcd[0]) + r"->(\w+)", a[1])
                                if fl and fr and fl.group(1) == fr.group(1):
                                    row = dptr.get(fl.group(1))
                                    fs = sorted(t.strip() for t in a[2].replace("(", " ( ").split("*"))
                                    n_ok = {f"sizeof({row['type']})" if row else "?", SZ} == {t.replace(" ( ", "(").replace(" )", ")").strip() for t in a[2].split("*")} \
                                        or {f"sizeof({row['type']})" if row else "?", want_n} == {t.strip() for t in a[2].split("*")}
                                    okk = bool(row) and n_ok
                                    why = f"memcpy of `{a[2]}` bytes for a field of element type {row['type'] if row else '?'}"
                    if not okk:
                        problems.append(f"special branch for {m.group(1)} does not copy exactly its size in elements of the field's type "
                                        f"from the source to the destination ({why})")
            if fname == "mj_extractState":
                adv = {}
                for x in cir.walk(body):
                    if x.get("k") == "IfStmt":
                        g = cir.text(cir.kids(x)[0])
                        for y in cir.kids(cir.kids(x)[1]) if cir.kids(x)[1].get("k") == "CompoundStmt" else [cir.kids(x)[1]]:
                            if y is not None and y.get("k") == "CompoundAssignOperator":
                                adv.setdefault(g, []).append(cir.text(y))
                pp = cir.params(fn)
                srcp = [p.get("n") for p in pp if (p.get("t") or "") == "const mjtNum *"]
                dstp = [p.get("n") for p in pp if (p.get("t") or "") == "mjtNum *"]
                sg = [p.get("n") for p in pp if (p.get("t") or "") == "int"]
                okk = len(srcp) == 1 and len(dstp) == 1 and len(sg) == 2 and SZ is not None
                if okk:
                    # which int parameter guards the destination advance
                    gs = {g_: v for g_, v in adv.items()}
                    dst_guard = [g_ for g_, v in gs.items() if v == [f"{dstp[0]} += {SZ}"]]
                    src_guard = [g_ for g_, v in gs.items() if v == [f"{srcp[0]} += {SZ}"]]
                    okk = len(dst_guard) == 1 and len(src_guard) == 1 and dst_guard != src_guard
                    if okk:
                        # the destination guard must be nested inside the source guard
                        outer = [x for x in cir.walk(body) if x.get("k") == "IfStmt" and cir.text(cir.kids(x)[0]) == src_guard[0]]
                        okk = bool(outer) and any(cir.text(cir.kids(y)[0]) == dst_guard[0] for y in cir.walk(cir.kids(outer[0])[1])
                                                  if y.get("k") == "IfStmt")
                        cps = [x for x in cir.calls(body, "mju_copy")]
                        okk = okk and len(cps) == 1 and [cir.text(y) for y in cir.args(cps[0])] == [dstp[0], srcp[0], SZ]
                if not okk:
                    problems.append(f"cursor advances are {adv}; expected the source cursor to advance by the element size on every "
                                    f"selected source element and the destination cursor only on destination elements")
            if fname == "mj_stateSize":
                adv = [cir.text(x) for x in cir.walk(body) if x.get("k") == "CompoundAssignOperator"]
                if len(adv) != 1 or not re.fullmatch(r"\w+ \+= mj_stateElemSize\(\w+, " + re.escape(E) + r"\)", adv[0]):
                    problems.append(f"size accumulation is {adv}")
        if problems:
            res.bad("R-STATE-LOOP", fname, FILE, fn.get("line"), "; ".join(problems))
        else:
            res.ok("R-STATE-LOOP", fname, {"file": FILE, "line": fn.get("line")})



def reset_cover(res):
    g = callgraph.build()
    rk = g.find("_resetData")
    if rk is None:
        raise AnalysisError("_resetData not found")
    res.rule("R-COVER-RESET", "every non-pointer mjData member is assigned on the unconditional path of mj_resetData, or is never written in "
             "the step/forward/inverse closure (so a fresh and a reset mjData agree)", floor=40)
    # must-write set: fields assigned on the unconditional top-level path of _resetData, including the
    # unconditional top-level paths of the functions it calls there (depth-limited, resolved through the graph)
    units = {}

    def unit_of(key):
        if key[0] not in units:
            units[key[0]] = engine.unit(key[0])
        return units[key[0]]

    def must_writes(key, depth, seen):
        out = {}
        if key is None or key in seen or depth > 3:
            return out
        seen = seen | {key}
        u = unit_of(key)
        fn = u.funcs.get(key[1])
        if fn is None:
            return out

        def top(stmts):
            for st in stmts:
                if st is None:
                    continue
                k = st.get("k")
                if k == "CompoundStmt":
                    top(cir.kids(st))
                    continue
                if k in ("IfStmt", "ForStmt", "WhileStmt", "DoStmt", "SwitchStmt"):
                    # `if (cond) { d->f = a; } else { d->f = b; }` is not used by the reset code; a for loop over an array
                    # initialises that array (zero-trip means an empty array)
                    if k == "ForStmt":
                        from .. import modref
                        for e in modref.events(st, {"mjData"}):
                            if e["kind"] in ("elem", "alias"):
                                out.setdefault(e["field"], set()).add(key[1] + ":loop")
                    continue
                if k == "ReturnStmt":
                    break
                from .. import modref
                for e in modref.events(st, {"mjData"}):
                    if e["kind"] in ("assign", "elem", "pass", "addr"):
                        out.setdefault(e["field"], set()).add(key[1])
                for c in cir.calls(st):
                    r = g.resolve(key[0], cir.callee(c))
                    if r is not None:
                        for f_, w in must_writes(r, depth + 1, seen).items():
                            out.setdefault(f_, set()).update(w)
        top(cir.kids(cir.body(fn)))
        return out
    written_by_reset = must_writes(rk, 0, frozenset())
    # writes anywhere in _resetData's own body (conditional ones included) count for array state fields
    from .. import modref as _mr
    own_body = {}
    for e in _mr.events(unit_of(rk).funcs[rk[1]], {"mjData"}):
        if e["kind"] != "read":
            own_body.setdefault(e["field"], set()).add(rk[1])
    # named exceptions, one symbol each
    FRAME_MANAGED = {"pstack": "stack pointer: returns to its entry value at every API boundary by frame discipline (R-FRAME, C19); "
                               "reset keeps it only while a thread pool is bound"}
    # memset(d->buffer, ..) / per-pointer memset covers every MJDATA_POINTERS array
    buffer_filled = "buffer" in written_by_reset
    # who else writes each field
    writers = {}
    for k, f in g.funcs.items():
        for e in f["events"]:
            if e["struct"] == "mjData" and e["kind"] in ("assign", "elem", "addr", "pass"):
                writers.setdefault(e["field"], set()).add(k[1])
    sim_roots = [g.find(n) for n in ("mj_step", "mj_step1", "mj_step2", "mj_forward", "mj_inverse", "mj_forwardSkip",
                                     "mj_inverseSkip")]
    if any(r is None for r in sim_roots):
        raise AnalysisError("simulation entry points not found")
    sim = {k[1] for k in g.closure(sim_roots)}
    dptr = {r["name"] for r in xmacro.pointers("MJDATA_POINTERS")} | {r["name"] for r in xmacro.pointers("MJDATA_ARENA_POINTERS")}
    nonptr = 0
    for f in ctypeinfo.fields("mjData_"):
        name = f["name"]
        if name in dptr or name in ("buffer", "arena"):
            continue
        nonptr += 1
        if name in written_by_reset:
            res.ok("R-COVER-RESET", name, {"reset_writers": sorted(written_by_reset[name])[:3]})
            continue
        if name in FRAME_MANAGED and name in own_body:
            res.ok("R-COVER-RESET", name, {"exception": FRAME_MANAGED[name]})
            continue
        others = writers.get(name, set()) & sim
        if not others:
            res.ok("R-COVER-RESET", name, {"never written by the simulation closure": True,
                                           "other_writers": sorted(writers.get(name, set()))[:3]})
        else:
            ex = sorted(others)[0]
            k = g.find(ex) if ex in g.globals or ex in g.headers else None
            res.bad("R-COVER-RESET", name, "src/engine/engine_io.c", g.funcs[rk]["line"],
                    f"mjData.{name} is written by {sorted(others)[:4]} (simulation closure) but never (re)initialised by mj_resetData: a reset "
                    f"mjData can differ from a fresh one")
    res.count("mjData_nonpointer_members", nonptr)
    # state arrays are reinitialised after the buffer fill
    res.rule("R-RESET-STATE", "each state-element field is written by the reset closure", floor=12)
    u = engine.unit(FILE)
    ptr_cases = _switch_cases(u.funcs["mj_stateElemPtr"])
    for name, node in ptr_cases.items():
        if name == "<default>":
            continue
        p = cir.strip(node)
        if p is not None and p.get("k") == "UnaryOperator":
            p = cir.strip(cir.kids(p)[0])
        fld = p.get("n") if p is not None else None
        if fld in written_by_reset or fld in own_body:
            res.ok("R-RESET-STATE", name, {"field": fld})
        else:
            res.bad("R-RESET-STATE", name, "src/engine/engine_io.c", g.funcs[rk]["line"],
                    f"state field d->{fld} ({name}) is not initialised by mj_resetData beyond the raw buffer fill")


def keyframes(res):
    res.rule("R-KEYFRAME", "mj_resetDataKeyframe and mj_setKeyframe use every key_* model array with its X-macro extent", floor=12)
    mrows = {r["name"]: r for r in xmacro.pointers("MJMODEL_POINTERS")}
    keys = sorted(n for n in mrows if n.startswith("key_"))
    if len(keys) < 6:
        raise AnalysisError("key_* arrays not found in MJMODEL_POINTERS")
    uio = engine.unit("src/engine/engine_io.c")
    usup = engine.unit(FILE)
    fns = {"mj_resetDataKeyframe": uio.funcs.get("mj_resetDataKeyframe"), "mj_setKeyframe": usup.funcs.get("mj_setKeyframe")}
    from .. import modref as _mr
    for fname, fn0 in fns.items():
        if fn0 is None:
            raise AnalysisError(f"anchor {fname} not found")
        # the key arrays may be handled by the function itself or by a same-TU callee it hands the key index to
        fn = fn0
        unit_ = uio if fname == "mj_resetDataKeyframe" else usup
        if not any(n.get("k") == "MemberExpr" and (n.get("n") or "").startswith("key_") for n in cir.walk(fn0)):
            for c in cir.calls(fn0):
                cal = unit_.funcs.get(cir.callee(c))
                if cal is not None and any(n.get("k") == "MemberExpr" and (n.get("n") or "").startswith("key_") for n in cir.walk(cal)):
                    fn = cal
                    break
        file = fn.get("file") or "?"
        used = {}
        for n in cir.walk(fn):
            if n.get("k") == "MemberExpr" and (n.get("n") or "").startswith("key_"):
                used.setdefault(n.get("n"), n)
        if fname == "mj_resetDataKeyframe":
            # the loaded keyframe values must be the last word: nothing later in that function may write the same mjData
            # field again (e.g. default initialisation of mocap poses placed after the keyframe load)
            loads = {}
            for c in cir.calls(fn):
                at = cir.args(c)
                if len(at) >= 2 and "m->key_" in cir.text(at[1]):
                    rf = _mr.root_field(at[0])
                    if rf and rf[0] == "mjData":
                        loads[rf[1]] = c.get("line")
            for n in cir.walk(fn):
                if n.get("k") == "BinaryOperator" and n.get("op") == "=" and "m->key_" in cir.text(cir.kids(n)[1]):
                    rf = _mr.root_field(cir.kids(n)[0])
                    if rf and rf[0] == "mjData":
                        loads[rf[1]] = n.get("line")
            for e in _mr.events(fn, {"mjData"}):
                if e["field"] in loads and e["kind"] in ("assign", "elem", "pass", "addr") and e["line"] > loads[e["field"]]:
                    res.bad("R-KEYFRAME", f"{fname}:{e['field']}:overwritten", file, e["line"],
                            f"d->{e['field']} is written again (line {e['line']}) after the keyframe value was loaded into it (line "
                            f"{loads[e['field']]}): mj_resetDataKeyframe would not yield the keyframe's value")
            for f_ in loads:
                res.ok("R-KEYFRAME", f"{fname}:{f_}:last-write", None)
        for kf in keys:
            construct = f"{fname}:{kf}"
            if kf not in used:
                res.bad("R-KEYFRAME", construct, file, fn.get("line"), f"{fname} does not touch m->{kf}")
                continue
            row = mrows[kf]
            nc = row["nc"]
            # find the statement using it: copy length / index stride must mention the extent
            okk = False
            detail = ""
            for c in cir.calls(fn):
                at = [cir.text(a) for a in cir.args(c)]
                if any(f"m->{kf}" in a for a in at):
                    detail = f"{cir.callee(c)}({', '.join(at)})"
                    factors = [f if (f.isdigit() or f.startswith(("m->", "mj"))) else "m->" + f for f in _factors(nc)]
                    stride_ok = all(any(fct in a for a in at) for fct in factors) if factors else True
                    okk = stride_ok
                    break
            if not detail:
                # scalar style: d->time = m->key_time[key]
                for n in cir.walk(fn):
                    if n.get("k") == "BinaryOperator" and n.get("op") == "=" and f"m->{kf}" in cir.text(n):
                        detail = cir.text(n)
                        okk = nc == "1"
                        break
            if okk:
                res.ok("R-KEYFRAME", construct, {"use": detail, "extent": f"{row['nr']}x{nc}"})
            else:
                res.bad("R-KEYFRAME", construct, file, used[kf].get("line"),
                        f"{fname}: use `{detail}` of m->{kf} does not carry the declared extent {row['nr']}x{nc}")
