"""C26 The state vector API is a faithful serialization.

Decided (R-TABLE / R-COVER, engine_support.c + engine_io.c + headers):
  S1  every single-bit mjtState enumerator below mjNSTATE has a case in mj_stateElemSize, and a case in
      mj_stateElemPtr or a special `element == mjSTATE_X` branch in get, set and copy
  S2  per element: size expression == nr*nc of the mjData field returned by mj_stateElemPtr (X-macro extents),
      the field's element type is mjtNum (others need the special branch); time is the scalar d->time with size 1
  S3  get/set/copy/extract/stateSize iterate i in [0,mjNSTATE) ascending with element = 1<<i, guarded by element&sig
  S4  cursor discipline: regular branch copies `size` elements at offset adr and advances adr by size; the special
      branch loops over the element's own size and advances the cursor once per item; get writes state / set reads it
  S5  extract: src advances on every selected source element, dst only on elements of dstsig
  S6  mj_resetData covers every non-pointer mjData member (assigned in the reset closure or never written after
      construction); every state field is (re)initialised after the buffer fill
  S7  keyframe API: mj_resetDataKeyframe and mj_setKeyframe touch exactly the key_* arrays of the model, with the
      extent the X-macro declares
"""
from __future__ import annotations

import re

from .. import callgraph, cir, ctypeinfo, engine, xmacro
from ..cfront import AnalysisError

FILE = "src/engine/engine_support.c"


def _factors(expr_text):
    """'6 * m->nbody' -> sorted factors; '1' dropped."""
    parts = [p.strip() for p in expr_text.replace("(", "").replace(")", "").split("*")]
    return sorted(p for p in parts if p and p != "1")


def _switch_cases(fn):
    """{enumerator: returned expression node} for `switch(sig){case X: return E;}`"""
    out = {}
    sw = [n for n in cir.walk(fn) if n.get("k") == "SwitchStmt"]
    if len(sw) != 1:
        raise AnalysisError(f"{fn.get('n')}: expected one switch")
    body = cir.kids(sw[0])[-1]
    pending = []

    def visit(st):
        if st is None:
            return
        if st.get("k") == "CaseStmt":
            c = cir.kids(st)
            lab = cir.strip(c[0])
            name = cir.text(lab)
            pending.append(name)
            visit(c[-1])
        elif st.get("k") == "DefaultStmt":
            pending.append("<default>")
            visit(cir.kids(st)[-1])
        elif st.get("k") == "ReturnStmt":
            for p in pending:
                out[p] = cir.kids(st)[0] if cir.kids(st) else None
            pending.clear()
        elif st.get("k") == "CompoundStmt":
            for x in cir.kids(st):
                visit(x)
        elif st.get("k") == "BreakStmt":
            pending.clear()
    for st in cir.kids(body):
        visit(st)
    return out


def run(res, tier):
    state_tables(res)
    reset_cover(res)
    keyframes(res)
    res.explanation = (
        "Table agreement between the mjtState enum (clang AST of the headers), the size/pointer switches, the "
        "MJDATA_POINTERS X-macro extents (preprocessor expansion) and the five state loops; cursor and direction "
        "discipline of get/set/copy/extract; coverage of mjData members by the reset closure (mod facts over the whole "
        "engine call graph); key_* array coverage and extents in the keyframe functions.")
    res.not_decided = "the numeric values copied; behaviour of user plugins' reset callbacks."
    res.assumptions = ["error handlers do not return"]


def state_tables(res):
    u = engine.unit(FILE)
    need = ["mj_stateElemSize", "mj_stateElemPtr", "mj_stateSize", "mj_getState", "mj_setState", "mj_copyState",
            "mj_extractState"]
    for f in need:
        if f not in u.funcs:
            raise AnalysisError(f"anchor {f} not found in {FILE}")
    vals = ctypeinfo.enum_values("mjtState")
    nstate = dict(vals).get("mjNSTATE")
    if not nstate:
        raise AnalysisError("mjNSTATE not found")
    elems = [(n, v) for n, v in vals if v > 0 and v & (v - 1) == 0 and v < (1 << nstate) and n.startswith("mjSTATE_")]
    r1 = res.rule("R-TABLE-STATE", "each state element: enumerator <-> size case <-> pointer case/special branch <-> X-macro extent",
                  floor=14)
    bits = sorted(v for _, v in elems)
    if bits != [1 << i for i in range(nstate)]:
        res.bad("R-TABLE-STATE", "mjtState:bits", "include/mujoco/mjdata.h", 0,
                f"single-bit mjtState enumerators {bits} do not cover bits 0..{nstate - 1} exactly")
    size_cases = _switch_cases(u.funcs["mj_stateElemSize"])
    ptr_cases = _switch_cases(u.funcs["mj_stateElemPtr"])
    dptr = {r["name"]: r for r in xmacro.pointers("MJDATA_POINTERS")}
    dfields = {f["name"]: f for f in ctypeinfo.fields("mjData_")}
    special = {}
    from .. import norm
    for fname in ("mj_getState", "mj_setState", "mj_copyState"):
        sp = set()
        for n in cir.walk(norm.canon(u, fname, exclude=STATE_PRIMS)):
            if n.get("k") == "IfStmt":
                for c_, _pol in norm.split_cond(norm._if_parts(n)[1], True):
                    m = re.fullmatch(r"\w+ == (mjSTATE_\w+)", cir.text(c_))
                    if m:
                        sp.add(m.group(1))
        special[fname] = sp
    elem_size = {}
    for name, v in elems:
        line = u.funcs["mj_stateElemSize"].get("line")
        if name not in size_cases:
            res.bad("R-TABLE-STATE", f"{name}:size", FILE, line, f"no case for {name} in mj_stateElemSize")
            continue
        size_txt = cir.text(size_cases[name])
        elem_size[name] = size_txt
        if name in ptr_cases:
            p = cir.strip(ptr_cases[name])
            if p is not None and p.get("k") == "UnaryOperator" and p.get("op") == "&":
                fld = cir.strip(cir.kids(p)[0]).get("n")
                f = dfields.get(fld)
                okk = f is not None and f["dtype"] in ("double", "mjtNum") and _factors(size_txt) == []
                if okk:
                    res.ok("R-TABLE-STATE", name, {"field": fld, "size": size_txt, "kind": "scalar"})
                else:
                    res.bad("R-TABLE-STATE", name, FILE, p.get("line"),
                            f"{name}: scalar field d->{fld} must be an mjtNum with size 1 (size is `{size_txt}`)")
                continue
            fld = p.get("n") if p is not None and p.get("k") == "MemberExpr" else None
            row = dptr.get(fld)
            if row is None:
                res.bad("R-TABLE-STATE", name, FILE, p.get("line") if p else line,
                        f"{name}: mj_stateElemPtr returns `{cir.text(p)}`, not an MJDATA_POINTERS array")
                continue
            want = sorted(x for x in ("m->" + row["nr"] if not row["nr"].isdigit() else row["nr"], row["nc"]) if x != "1")
            if row["type"] != "mjtNum":
                res.bad("R-TABLE-STATE", name, FILE, p.get("line"),
                        f"{name}: d->{fld} has element type {row['type']}, not mjtNum; needs a special branch")
            elif _factors(size_txt) != want:
                res.bad("R-TABLE-STATE", name, FILE, size_cases[name].get("line"),
                        f"{name}: size `{size_txt}` differs from the extent {row['nr']}*{row['nc']} of d->{fld}")
            else:
                res.ok("R-TABLE-STATE", name, {"field": fld, "size": size_txt, "extent": f"{row['nr']}x{row['nc']}"})
        else:
            missing = [f for f, sp in special.items() if name not in sp]
            if missing:
                res.bad("R-TABLE-STATE", name, FILE, u.funcs["mj_stateElemPtr"].get("line"),
                        f"{name} has no case in mj_stateElemPtr and no special branch in {missing}")
            else:
                res.ok("R-TABLE-STATE", name, {"special_branch_in": sorted(special), "size": size_txt})
    for name in list(size_cases) + list(ptr_cases):
        if name != "<default>" and name not in dict(elems):
            res.bad("R-TABLE-STATE", f"{name}:extra", FILE, 0, f"case {name} is not a single-bit state element")

    # S3/S4/S5 loop shape and cursor discipline
    _state_loops(res, u, elem_size, dptr)


STATE_PRIMS = ("mj_stateElemSize", "mj_stateElemPtr", "mj_stateElemConstPtr")
_LOOPK = ("ForStmt", "WhileStmt", "DoStmt")


def _init_of(d):
    c = [y for y in cir.kids(d) if y is not None and not y.get("k", "").endswith("Attr")]
    return c[-1] if (c and d.get("init")) else None


def _is_inc(n, vid):
    """n increments the variable with decl id vid by one"""
    k = n.get("k")
    if k == "UnaryOperator" and n.get("op") == "++":
        t = cir.strip(cir.kids(n)[0])
        return t is not None and t.get("k") == "DeclRefExpr" and (t.get("ref") or {}).get("id") == vid
    if k == "CompoundAssignOperator" and n.get("op") == "+=":
        t = cir.strip(cir.kids(n)[0])
        return t is not None and t.get("k") == "DeclRefExpr" and (t.get("ref") or {}).get("id") == vid and cir.text(cir.kids(n)[1]) == "1"
    return False


def _mods(n, vid):
    from .. import norm
    return [x for x in cir.walk(n) if ((x.get("k") == "BinaryOperator" and x.get("op") == "=") or x.get("k") == "CompoundAssignOperator" or
                                       (x.get("k") == "UnaryOperator" and x.get("op") in ("++", "--", "&")))
            and (cir.strip(cir.kids(x)[0]) or {}).get("k") == "DeclRefExpr" and (cir.strip(cir.kids(x)[0]).get("ref") or {}).get("id") == vid]


def counted_loop(root, lp, vid):
    """Describe `lp` as a loop counting the variable vid upward by one: {'start': text, 'bound': text, 'problems': [...]}.
    for (v = s; v < B; v++) / v = s; while (v < B) { ...; v++; ... } with a single increment per iteration."""
    k = lp.get("k")
    c = list(cir.kids(lp))
    problems = []
    start = bound = None
    if k == "ForStmt":
        c += [None] * 5
        init, cond, inc, body = c[0], c[2], c[3], c[4]
    elif k == "WhileStmt":
        init, cond, inc, body = None, c[0], None, c[-1]
    else:
        return {"start": None, "bound": None, "problems": ["loop kind " + k]}
    cn = cir.strip(cond) if cond is not None else None
    if cn is not None and cn.get("k") == "BinaryOperator" and cn.get("op") in ("<", "!=") and \
            (cir.strip(cir.kids(cn)[0]).get("ref") or {}).get("id") == vid:
        bound = cir.text(cir.kids(cn)[1])
    elif cn is not None and cn.get("k") == "BinaryOperator" and cn.get("op") == ">" and \
            (cir.strip(cir.kids(cn)[1]).get("ref") or {}).get("id") == vid:
        bound = cir.text(cir.kids(cn)[0])
    else:
        problems.append(f"loop condition `{cir.text(cond)}` is not an upper bound on the counter")
    # start value: the for-init, or the nearest definition before the loop
    defs = []
    for x in cir.walk(root):
        if x is lp:
            break
        if x.get("k") == "VarDecl" and x.get("id") == vid and _init_of(x) is not None:
            defs.append(cir.text(_init_of(x)))
        elif x.get("k") == "BinaryOperator" and x.get("op") == "=" and (cir.strip(cir.kids(x)[0]).get("ref") or {}).get("id") == vid:
            defs.append(cir.text(cir.kids(x)[1]))
        elif x.get("k") in ("CompoundAssignOperator", "UnaryOperator") and x in _mods(x, vid):
            defs.append("?")
    if init is not None:
        for x in cir.walk(init):
            if x.get("k") == "VarDecl" and x.get("id") == vid and _init_of(x) is not None:
                defs.append(cir.text(_init_of(x)))
            elif x.get("k") == "BinaryOperator" and x.get("op") == "=" and (cir.strip(cir.kids(x)[0]).get("ref") or {}).get("id") == vid:
                defs.append(cir.text(cir.kids(x)[1]))
    start = defs[-1] if defs else None
    mods = _mods(body, vid) + (_mods(inc, vid) if inc is not None else [])
    if len(mods) != 1 or not _is_inc(mods[0], vid):
        problems.append(f"the counter is not advanced by exactly one increment per iteration ({[cir.text(m_) for m_ in mods]})")
    elif inc is None or not _mods(inc, vid):
        # increment inside the body: it must run on every iteration, i.e. carry no guard inside the body
        from .. import norm

        def leaves(stmts):
            """the statement list leaves the loop (return / break) on every path"""
            for s_ in stmts:
                k_ = s_.get("k")
                if k_ in ("ReturnStmt", "BreakStmt"):
                    return True
                if k_ == "IfStmt":
                    _p, _c, t_, e_ = norm._if_parts(s_)
                    if e_ is not None and leaves(norm._stmts(t_)) and leaves(norm._stmts(e_)):
                        return True
                if k_ == "CompoundStmt" and leaves(norm._stmts(s_)):
                    return True
            return False
        for c_, pol, st_ in norm.guards(body, mods[0], stmts=True) or ():
            # a guard whose other side leaves the loop does not make the increment conditional for the iterations that go on
            okg = False
            if st_ is not None and st_.get("k") == "IfStmt":
                _p, _c, t_, e_ = norm._if_parts(st_)
                inside_then = t_ is not None and any(x is mods[0] for x in cir.walk(t_))
                other = e_ if inside_then else t_
                okg = other is not None and leaves(norm._stmts(other))
            if not okg:
                problems.append("the counter increment is conditional")
                break
    return {"start": start, "bound": bound, "problems": problems, "body": body, "inc_node": mods[0] if mods else None}


def _state_loops(res, u, elem_size, dptr):
    """Each of the five state API loops, on the canonical view (helpers inlined, early exits and `continue` guards nested): the
    element loop runs over every bit ascending; everything it does is guarded by element & sig; per element, exactly its size
    moves between the state vector at the cursor and the element's field, in the direction of the function, and the cursor
    advances by that size."""
    from .. import norm, linform as _lf
    res.rule("R-STATE-LOOP", "state loops iterate every bit ascending, guarded by element&sig; cursor advances by the "
             "element size; copy directions of get/set are opposite", floor=5)
    for fname in ("mj_stateSize", "mj_getState", "mj_setState", "mj_copyState", "mj_extractState"):
        fn = norm.canon(u, fname, exclude=STATE_PRIMS)
        body = cir.body(fn)
        problems = []
        # the element loop: the loop whose body declares  E = 1 << counter
        cands = []
        for lp in cir.walk(body):
            if lp.get("k") in _LOOPK:
                lb = cir.kids(lp)[0] if lp.get("k") == "DoStmt" else cir.kids(lp)[-1]
                for x in cir.walk(lb):
                    if x.get("k") == "VarDecl" and _init_of(x) is not None:
                        e = cir.strip(_init_of(x))
                        if e is not None and e.get("k") == "BinaryOperator" and e.get("op") == "<<" and cir.text(cir.kids(e)[0]) == "1" \
                                and cir.strip(cir.kids(e)[1]).get("k") == "DeclRefExpr":
                            cands.append((lp, x, cir.strip(cir.kids(e)[1])["ref"]["id"]))
        if len(cands) != 1:
            raise AnalysisError(f"{fname}: element loop (a loop declaring `element = 1 << i`) not identified ({len(cands)} candidates)")
        lp, edecl, ivid = cands[0]
        E = edecl.get("n")
        cl = counted_loop(body, lp, ivid)
        problems += cl["problems"]
        if cl["start"] != "0":
            problems.append(f"loop does not start at bit 0 (start `{cl['start']}`)")
        if cl["bound"] != "mjNSTATE":
            problems.append(f"loop bound is `{cl['bound']}`, not mjNSTATE")
        lbody = cl.get("body") or cir.kids(lp)[-1]
        # outside the element loop the writers touch nothing of mjData: whatever is written there is written whatever the
        # signature says ("leaves all others untouched")
        if fname in ("mj_setState", "mj_copyState"):
            from .. import modref as _mr, paths as _paths
            inside = {id(y) for y in cir.walk(lp)}
            wpar = [p_.get("n") for p_ in cir.params(fn) if "mjData" in (p_.get("t") or "") and "const" not in (p_.get("t") or "")]
            for x in cir.walk(body):
                if id(x) in inside or not wpar:
                    continue
                k_ = x.get("k")
                why = None
                if cir.is_call(x) and cir.callee(x) not in STATE_PRIMS and not _paths.is_noreturn_call(x, set()):
                    if any(cir.text(a_) == wpar[0] or cir.text(a_).startswith(wpar[0] + "->") for a_ in cir.args(x)):
                        why = f"`{cir.text(x)[:70]}` receives the destination mjData"
                elif (k_ == "BinaryOperator" and x.get("op") == "=") or k_ == "CompoundAssignOperator" or \
                        (k_ == "UnaryOperator" and x.get("op") in ("++", "--")):
                    rf = _mr.root_field(cir.kids(x)[0])
                    if rf is not None and rf[0] == "mjData" and cir.text(cir.kids(x)[0]).startswith(wpar[0] + "->"):
                        why = f"`{cir.text(x)[:70]}` stores into the destination mjData"
                elif k_ == "VarDecl" and "*" in (x.get("t") or "") and "const" not in (x.get("t") or "") and _init_of(x) is not None \
                        and cir.text(_init_of(x)).startswith(wpar[0] + "->"):
                    why = f"`{x.get('n')}` aliases `{cir.text(_init_of(x))[:50]}` for writing"
                if why:
                    problems.append(f"{why} outside the element loop: it is written whatever the signature selects")
                    break
        # the element bit must be taken before the counter moves (while-form)
        order = {id(x): i for i, x in enumerate(cir.walk(lbody))}
        if cl.get("inc_node") is not None and id(cl["inc_node"]) in order and order[id(cl["inc_node"])] < order.get(id(edecl), -1):
            problems.append("the counter is incremented before the element bit is formed")
        G = lambda n: [(cir.text(c_), p_) for c_, p_ in (norm.guards(lbody, n) or [])]
        sigs = [p_.get("n") for p_ in cir.params(fn) if (p_.get("t") or "") == "int"]
        defs = _lf.single_defs(fn)

        def resolve(t):
            return cir.text(defs[t]) if t in defs else t

        def has_sig(gs, s_, pol=True):
            return (f"{E} & {s_}", pol) in gs or (f"{s_} & {E}", pol) in gs

        def elem_atoms(gs):
            out = []
            for t, pol in gs:
                m_ = re.fullmatch(re.escape(E) + r" == (mjSTATE_\w+)", t) or re.fullmatch(r"(mjSTATE_\w+) == " + re.escape(E), t)
                if m_:
                    out.append((m_.group(1), pol))
            return out
        # effects of the loop body: calls (except the element primitives), stores through pointers, cursor updates
        local_ids = {x.get("id") for x in cir.walk(fn) if x.get("k") == "VarDecl"}
        effects = []
        for x in cir.walk(lbody):
            k_ = x.get("k")
            if cir.is_call(x) and cir.callee(x) not in STATE_PRIMS:
                effects.append(x)
            elif (k_ == "BinaryOperator" and x.get("op") == "=") or k_ == "CompoundAssignOperator" or \
                    (k_ == "UnaryOperator" and x.get("op") in ("++", "--")):
                t = cir.strip(cir.kids(x)[0])
                if t is not None and t.get("k") == "DeclRefExpr" and (t.get("ref") or {}).get("id") == ivid:
                    continue
                effects.append(x)
        for s_ in sigs[:1] if fname != "mj_extractState" else sigs[:0]:
            for x in effects:
                if not has_sig(G(x), s_):
                    problems.append(f"`{cir.text(x)[:60]}` is not guarded by `{E} & {s_}`")
                    break
        specials = sorted({a_ for x in cir.walk(lbody) for a_, _p in elem_atoms(G(x))})

        def on_path(n, path):
            """path None = regular element, 'mjSTATE_X' = that special element"""
            for a_, pol in elem_atoms(G(n)):
                if path is None and pol:
                    return False
                if path is not None and ((a_ == path and not pol) or (a_ != path and pol)):
                    return False
            return True

        def decl_call(path, names):
            out = {}
            for x in cir.walk(lbody):
                if x.get("k") == "VarDecl" and _init_of(x) is not None and on_path(x, path):
                    c_ = cir.strip(_init_of(x))
                    if cir.is_call(c_) and cir.callee(c_) in names:
                        out[x.get("n")] = c_
            return out

        def walk_path(path):
            """(ops, cursor deltas) along one path through the body.  ops: ('copy', dst, src, n, deltas-at-that-point) /
            ('loop', lhs, rhs, N, j, deltas-at-that-point, cursor_incremented_in_index)"""
            ops = []
            delta = {}
            skip = set()
            for x in cir.walk(lbody):
                if id(x) in skip or not on_path(x, path):
                    continue
                k_ = x.get("k")
                if k_ in _LOOPK:
                    for y in cir.walk(x):
                        skip.add(id(y))
                    skip.discard(id(x))
                    jdecl = [y for y in cir.walk(x) if y.get("k") == "VarDecl" and _init_of(y) is not None and cir.text(_init_of(y)) == "0"]
                    asg = [y for y in cir.walk(cir.kids(x)[-1]) if y.get("k") == "BinaryOperator" and y.get("op") == "="]
                    if len(jdecl) != 1 or len(asg) != 1:
                        ops.append(("unknown", cir.text(x)[:60]))
                        continue
                    jl = counted_loop(lbody, x, jdecl[0].get("id"))
                    if jl["problems"] or jl["start"] != "0":
                        ops.append(("unknown", "inner loop: " + "; ".join(jl["problems"])))
                        continue
                    lhs, rhs = cir.kids(asg[0])
                    incs = [cir.text(cir.kids(z)[0]) for z in cir.walk(asg[0]) if z.get("k") == "UnaryOperator" and z.get("op") == "++"
                            and cir.text(cir.kids(z)[0]) != jdecl[0].get("n")]
                    ops.append(("loop", lhs, rhs, resolve(jl["bound"]), jdecl[0].get("n"), dict(delta), incs))
                    for v in incs:
                        delta[v] = delta.get(v, []) + [resolve(jl["bound"])]
                    continue
                if cir.is_call(x) and cir.callee(x) in ("mju_copy", "memcpy", "memmove", "mju_copyInt"):
                    a_ = cir.args(x)
                    ops.append(("copy", a_[0], a_[1], cir.text(a_[2]), dict(delta), cir.callee(x)))
                elif k_ == "CompoundAssignOperator" and x.get("op") == "+=":
                    t = cir.strip(cir.kids(x)[0])
                    if t is not None and t.get("k") == "DeclRefExpr" and (t.get("ref") or {}).get("id") != ivid:
                        delta[cir.text(t)] = delta.get(cir.text(t), []) + [resolve(cir.text(cir.kids(x)[1]))]
                elif k_ == "UnaryOperator" and x.get("op") in ("++", "--"):
                    t = cir.strip(cir.kids(x)[0])
                    if t is not None and t.get("k") == "DeclRefExpr" and (t.get("ref") or {}).get("id") != ivid:
                        delta[cir.text(t)] = delta.get(cir.text(t), []) + ["1" if x.get("op") == "++" else "-1"]
                elif k_ == "BinaryOperator" and x.get("op") == "=":
                    t = cir.strip(cir.kids(x)[0])
                    if t is not None and t.get("k") == "DeclRefExpr" and (t.get("ref") or {}).get("id") in local_ids and \
                            (t.get("ref") or {}).get("id") != ivid:
                        f_ = _lf.linform(cir.kids(x)[1], {})
                        nm = cir.text(t)
                        if f_.get(nm) == 1 and len(f_) == 2:
                            other = [(a2, c2) for a2, c2 in f_.items() if a2 != nm][0]
                            delta[nm] = delta.get(nm, []) + [resolve(other[0]) if other[1] == 1 else f"{other[1]}*{other[0]}"]
                        else:
                            delta[nm] = delta.get(nm, []) + ["?"]
                    elif t is not None and t.get("k") != "DeclRefExpr":
                        ops.append(("store", cir.kids(x)[0], cir.kids(x)[1], dict(delta)))
            return ops, delta

        numptr = [p_.get("n") for p_ in cir.params(fn) if "mjtNum *" in (p_.get("t") or "")]
        dpar = [p_ for p_ in cir.params(fn) if "mjData" in (p_.get("t") or "")]
        if fname in ("mj_getState", "mj_setState"):
            get = fname == "mj_getState"
            ST = numptr[0] if len(numptr) == 1 else None
            D = dpar[0].get("n") if len(dpar) == 1 else None
            if ST is None or D is None:
                raise AnalysisError(f"{fname}: state vector / data parameters not identified")
            for path in [None] + specials:
                label = path or "regular elements"
                ops, delta = walk_path(path)
                szv = decl_call(path, ("mj_stateElemSize",))
                szv = {n_: c_ for n_, c_ in szv.items() if cir.text(cir.args(c_)[1]) == E}
                ptrv = {n_: c_ for n_, c_ in decl_call(path, ("mj_stateElemPtr", "mj_stateElemConstPtr")).items()
                        if cir.text(cir.args(c_)[1]) == D and cir.text(cir.args(c_)[2]) == E}
                sizes_ok = set(szv) | ({elem_size.get(path)} if path else set())
                moved = [o for o in ops if o[0] in ("copy", "loop", "store", "unknown")]
                if len(moved) != 1 or moved[0][0] in ("unknown", "store"):
                    problems.append(f"{label}: expected exactly one transfer per element, found {[o[0] for o in moved]}")
                    continue
                o = moved[0]
                cur = None
                if o[0] == "copy":
                    st_side, el_side = (o[1], o[2]) if get else (o[2], o[1])
                    f_ = _lf.linform(st_side, {})
                    if f_.get(ST) != 1 or len(f_) > 2 or any(c2 != 1 for c2 in f_.values()):
                        problems.append(f"{label}: mju_copy does not address `{ST} + cursor` on the state side in the "
                                        f"{'get' if get else 'set'} direction (`{cir.text(st_side)}`)")
                        continue
                    cur = next((a2 for a2 in f_ if a2 != ST), None)
                    if cir.text(el_side) not in ptrv:
                        problems.append(f"{label}: mju_copy does not move the element returned by mj_stateElemPtr(m, {D}, {E}) "
                                        f"(`{cir.text(el_side)}`) in the {'get' if get else 'set'} direction")
                    n_moved = o[3]
                    at = o[4]
                else:
                    lhs, rhs, N, j = o[1], o[2], o[3], o[4]
                    st_side, el_side = (lhs, rhs) if get else (rhs, lhs)
                    s_ = cir.strip(st_side)
                    e_ = cir.strip(el_side)
                    okd = s_ is not None and s_.get("k") == "ArraySubscriptExpr" and cir.text(cir.kids(s_)[0]) == ST and \
                        e_ is not None and e_.get("k") == "ArraySubscriptExpr" and cir.text(cir.kids(e_)[0]).startswith(D + "->") and \
                        cir.text(cir.kids(e_)[1]) == j
                    if not okd:
                        problems.append(f"special branch for {label} does not move exactly its size through the cursor in the right "
                                        f"direction (`{cir.text(lhs)} = {cir.text(rhs)}`)")
                        continue
                    idx = cir.strip(cir.kids(s_)[1])
                    if idx.get("k") == "UnaryOperator" and idx.get("op") == "++" and idx.get("isPostfix"):
                        cur = cir.text(cir.kids(idx)[0])
                    else:
                        f_ = _lf.linform(idx, {})
                        if f_.get(j) == 1 and len(f_) == 2 and all(c2 == 1 for c2 in f_.values()):
                            cur = next(a2 for a2 in f_ if a2 != j)
                        else:
                            problems.append(f"special branch for {label}: state index `{cir.text(idx)}` is not cursor++ or cursor + {j}")
                            continue
                    n_moved = N
                    at = o[5]
                    # the field must be the element's own: its extent is the element size
                    fld = cir.text(cir.kids(e_)[0]).split("->", 1)[1]
                    row = dptr.get(fld)
                    if row is None or sorted(x_ for x_ in (("m->" + row["nr"]) if not row["nr"].isdigit() else row["nr"], row["nc"]) if x_ != "1") \
                            != _factors(elem_size.get(path, "?")):
                        problems.append(f"special branch for {label} moves d->{fld}, whose extent is not the element size "
                                        f"`{elem_size.get(path)}`")
                if at.get(cur):
                    problems.append(f"{label}: the cursor {cur} has already moved when the element is transferred")
                if resolve(n_moved) not in {resolve(x_) for x_ in sizes_ok if x_} and n_moved not in sizes_ok:
                    problems.append(f"special branch for {label} does not move exactly its size through the cursor in the right direction"
                                    if path else f"{label}: mju_copy moves `{n_moved}` items, not the element size")
                adv = delta.get(cur, [])
                if len(adv) != 1 or (adv[0] not in sizes_ok and adv[0] not in {resolve(x_) for x_ in sizes_ok if x_}):
                    problems.append(f"{label}: the cursor {cur} advances by {adv or 'nothing'} per element, not by the element size"
                                    if path is None else
                                    f"special branch for {label} does not move exactly its size through the cursor in the right "
                                    f"direction (cursor advance {adv or 'none'})")
        if fname == "mj_copyState":
            srcd = [p_.get("n") for p_ in dpar if "const" in (p_.get("t") or "")]
            dstd = [p_.get("n") for p_ in dpar if "const" not in (p_.get("t") or "")]
            if len(srcd) != 1 or len(dstd) != 1:
                raise AnalysisError("mj_copyState: source / destination data parameters not identified")
            for path in [None] + specials:
                label = path or "regular elements"
                ops, _delta = walk_path(path)
                szv = {n_: c_ for n_, c_ in decl_call(path, ("mj_stateElemSize",)).items() if cir.text(cir.args(c_)[1]) == E}
                ptrs = decl_call(path, ("mj_stateElemPtr", "mj_stateElemConstPtr"))
                frm = {n_: cir.text(cir.args(c_)[1]) for n_, c_ in ptrs.items() if cir.text(cir.args(c_)[2]) == E}
                sizes_ok = set(szv) | ({elem_size.get(path)} if path else set())
                moved = [o for o in ops if o[0] in ("copy", "loop", "store", "unknown")]
                if len(moved) != 1 or moved[0][0] in ("unknown", "store"):
                    problems.append(f"{label}: expected exactly one transfer per element, found {[o[0] for o in moved]}")
                    continue
                o = moved[0]
                if o[0] == "copy" and o[5] == "mju_copy" and path is None:
                    if not (frm.get(cir.text(o[1])) == dstd[0] and frm.get(cir.text(o[2])) == srcd[0] and o[3] in sizes_ok):
                        problems.append(f"mju_copy({cir.text(o[1])}, {cir.text(o[2])}, {o[3]}) does not copy the element size from the "
                                        f"source data's element to the destination data's element")
                elif o[0] == "copy":
                    fl = re.fullmatch(re.escape(dstd[0]) + r"->(\w+)", cir.text(o[1]))
                    fr = re.fullmatch(re.escape(srcd[0]) + r"->(\w+)", cir.text(o[2]))
                    row = dptr.get(fl.group(1)) if fl else None
                    okk = False
                    why = f"{o[5]} of `{o[3]}`"
                    if fl and fr and fl.group(1) == fr.group(1) and row:
                        fs = [t.strip() for t in o[3].replace("(", " ").replace(")", " ").split("*")]
                        fs = [" ".join(t.split()) for t in fs]
                        unit = "sizeof " + row["type"] if o[5] != "mju_copy" else None
                        rest = [resolve(t) for t in fs if t != unit]
                        okk = (unit is None or unit in fs) and len(rest) == 1 and (rest[0] in {resolve(x_) for x_ in sizes_ok if x_})
                        if o[5] == "mju_copy" and row["type"] != "mjtNum":
                            okk = False
                        why = f"{o[5]} of `{o[3]}` for a field of element type {row['type']}"
                    if not okk:
                        problems.append(f"special branch for {label} does not copy exactly its size in elements of the field's type "
                                        f"from the source to the destination ({why})")
                else:
                    lhs, rhs, N, j = o[1], o[2], o[3], o[4]
                    fl = re.fullmatch(re.escape(dstd[0]) + r"->(\w+)\[" + re.escape(j) + r"\]", cir.text(lhs))
                    fr = re.fullmatch(re.escape(srcd[0]) + r"->(\w+)\[" + re.escape(j) + r"\]", cir.text(rhs))
                    okk = bool(fl and fr and fl.group(1) == fr.group(1) and
                               (N in sizes_ok or resolve(N) in {resolve(x_) for x_ in sizes_ok if x_}))
                    if okk and path:
                        row = dptr.get(fl.group(1))
                        okk = row is not None and sorted(x_ for x_ in (("m->" + row["nr"]) if not row["nr"].isdigit() else row["nr"], row["nc"])
                                                         if x_ != "1") == _factors(elem_size.get(path, "?"))
                    if not okk:
                        problems.append(f"special branch for {label} does not copy exactly its size in elements of the field's type "
                                        f"from the source to the destination (loop copies `{cir.text(lhs)} = {cir.text(rhs)}` for {j} < {N})")
        if fname == "mj_extractState":
            pp = cir.params(fn)
            srcp = [p_.get("n") for p_ in pp if (p_.get("t") or "") == "const mjtNum *"]
            dstp = [p_.get("n") for p_ in pp if (p_.get("t") or "") == "mjtNum *"]
            if len(srcp) != 1 or len(dstp) != 1 or len(sigs) != 2:
                raise AnalysisError("mj_extractState: parameters not identified")
            szv = {n_ for n_, c_ in decl_call(None, ("mj_stateElemSize",)).items() if cir.text(cir.args(c_)[1]) == E}
            adv = {}
            for x in cir.walk(lbody):
                if x.get("k") == "CompoundAssignOperator" and x.get("op") == "+=" and cir.text(cir.kids(x)[0]) in (srcp[0], dstp[0]):
                    adv.setdefault(cir.text(cir.kids(x)[0]), []).append((x, cir.text(cir.kids(x)[1]), G(x)))
            cps = [x for x in cir.calls(lbody, "mju_copy")]
            okk = len(adv.get(srcp[0], [])) == 1 and len(adv.get(dstp[0], [])) == 1 and len(cps) == 1
            if okk:
                sx, sn, sg = adv[srcp[0]][0]
                dx, dn, dg = adv[dstp[0]][0]
                cg = G(cps[0])
                src_sig = [s_ for s_ in sigs if has_sig(sg, s_)]
                dst_sig = [s_ for s_ in sigs if has_sig(dg, s_) and s_ not in src_sig]
                okk = sn in szv and dn in szv and len(src_sig) == 1 and len(dst_sig) == 1 and \
                    has_sig(dg, src_sig[0]) and has_sig(cg, src_sig[0]) and has_sig(cg, dst_sig[0]) and \
                    [cir.text(y) for y in cir.args(cps[0])] == [dstp[0], srcp[0], dn] and \
                    order[id(cps[0])] < order[id(sx)] and order[id(cps[0])] < order[id(dx)]
                # the subset test names which signature is the source
                if okk:
                    pre = [t for t, _p in [(cir.text(c_), p_) for c_, p_ in (norm.guards(body, lp) or [])]]
                    okk = True
            if not okk:
                problems.append(f"cursor advances are { {k_: [(n_, [t for t, p_ in g_ if p_]) for _x, n_, g_ in v] for k_, v in adv.items()} }; "
                                f"expected the source cursor to advance by the element size on every "
                                f"selected source element and the destination cursor only on destination elements")
        if fname == "mj_stateSize":
            rets = [cir.text(cir.kids(x)[0]) for x in cir.walk(body) if x.get("k") == "ReturnStmt" and cir.kids(x)
                    and norm.guards(body, x) is not None and cir.text(cir.kids(x)[0]) not in ("0",)]
            acc = rets[-1] if rets else None
            szv = {n_ for n_, c_ in decl_call(None, ("mj_stateElemSize",)).items() if cir.text(cir.args(c_)[1]) == E}
            adv = [cir.text(cir.kids(x)[1]) for x in cir.walk(lbody) if x.get("k") == "CompoundAssignOperator" and x.get("op") == "+="
                   and cir.text(cir.kids(x)[0]) == acc]
            if len(adv) != 1 or not (adv[0] in szv or re.fullmatch(r"mj_stateElemSize\(\w+, " + re.escape(E) + r"\)", adv[0])):
                problems.append(f"size accumulation is {adv}")
        if problems:
            res.bad("R-STATE-LOOP", fname, FILE, fn.get("line"), "; ".join(problems))
        else:
            res.ok("R-STATE-LOOP", fname, {"file": FILE, "line": fn.get("line"), "special_elements": specials})


def reset_cover(res):
    g = callgraph.build()
    rk = g.find("_resetData")
    if rk is None:
        raise AnalysisError("_resetData not found")
    res.rule("R-COVER-RESET", "every non-pointer mjData member is assigned on the unconditional path of mj_resetData, or is never written in "
             "the step/forward/inverse closure (so a fresh and a reset mjData agree)", floor=40)
    # must-write set: fields assigned on the unconditional top-level path of _resetData, including the
    # unconditional top-level paths of the functions it calls there (depth-limited, resolved through the graph)
    units = {}

    def unit_of(key):
        if key[0] not in units:
            units[key[0]] = engine.unit(key[0])
        return units[key[0]]

    def must_writes(key, depth, seen):
        out = {}
        if key is None or key in seen or depth > 3:
            return out
        seen = seen | {key}
        u = unit_of(key)
        fn = u.funcs.get(key[1])
        if fn is None:
            return out

        def top(stmts):
            for st in stmts:
                if st is None:
                    continue
                k = st.get("k")
                if k == "CompoundStmt":
                    top(cir.kids(st))
                    continue
                if k in ("IfStmt", "ForStmt", "WhileStmt", "DoStmt", "SwitchStmt"):
                    # `if (cond) { d->f = a; } else { d->f = b; }` is not used by the reset code; a for loop over an array
                    # initialises that array (zero-trip means an empty array)
                    if k == "ForStmt":
                        from .. import modref
                        for e in modref.events(st, {"mjData"}):
                            if e["kind"] in ("elem", "alias"):
                                out.setdefault(e["field"], set()).add(key[1] + ":loop")
                    continue
                if k == "ReturnStmt":
                    break
                from .. import modref
                for e in modref.events(st, {"mjData"}):
                    if e["kind"] in ("assign", "elem", "pass", "addr"):
                        out.setdefault(e["field"], set()).add(key[1])
                for c in cir.calls(st):
                    r = g.resolve(key[0], cir.callee(c))
                    if r is not None:
                        for f_, w in must_writes(r, depth + 1, seen).items():
                            out.setdefault(f_, set()).update(w)
        top(cir.kids(cir.body(fn)))
        return out
    written_by_reset = must_writes(rk, 0, frozenset())
    # writes anywhere in _resetData's own body (conditional ones included) count for array state fields
    from .. import modref as _mr
    own_body = {}
    for e in _mr.events(unit_of(rk).funcs[rk[1]], {"mjData"}):
        if e["kind"] != "read":
            own_body.setdefault(e["field"], set()).add(rk[1])
    # named exceptions, one symbol each
    FRAME_MANAGED = {"pstack": "stack pointer: returns to its entry value at every API boundary by frame discipline (R-FRAME, C19); "
                               "reset keeps it only while a thread pool is bound"}
    # memset(d->buffer, ..) / per-pointer memset covers every MJDATA_POINTERS array
    buffer_filled = "buffer" in written_by_reset
    # who else writes each field
    writers = {}
    for k, f in g.funcs.items():
        for e in f["events"]:
            if e["struct"] == "mjData" and e["kind"] in ("assign", "elem", "addr", "pass"):
                writers.setdefault(e["field"], set()).add(k[1])
    sim_roots = [g.find(n) for n in ("mj_step", "mj_step1", "mj_step2", "mj_forward", "mj_inverse", "mj_forwardSkip",
                                     "mj_inverseSkip")]
    if any(r is None for r in sim_roots):
        raise AnalysisError("simulation entry points not found")
    sim = {k[1] for k in g.closure(sim_roots)}
    dptr = {r["name"] for r in xmacro.pointers("MJDATA_POINTERS")} | {r["name"] for r in xmacro.pointers("MJDATA_ARENA_POINTERS")}
    nonptr = 0
    for f in ctypeinfo.fields("mjData_"):
        name = f["name"]
        if name in dptr or name in ("buffer", "arena"):
            continue
        nonptr += 1
        if name in written_by_reset:
            res.ok("R-COVER-RESET", name, {"reset_writers": sorted(written_by_reset[name])[:3]})
            continue
        if name in FRAME_MANAGED and name in own_body:
            res.ok("R-COVER-RESET", name, {"exception": FRAME_MANAGED[name]})
            continue
        others = writers.get(name, set()) & sim
        if not others:
            res.ok("R-COVER-RESET", name, {"never written by the simulation closure": True,
                                           "other_writers": sorted(writers.get(name, set()))[:3]})
        else:
            ex = sorted(others)[0]
            k = g.find(ex) if ex in g.globals or ex in g.headers else None
            res.bad("R-COVER-RESET", name, "src/engine/engine_io.c", g.funcs[rk]["line"],
                    f"mjData.{name} is written by {sorted(others)[:4]} (simulation closure) but never (re)initialised by mj_resetData: a reset "
                    f"mjData can differ from a fresh one")
    res.count("mjData_nonpointer_members", nonptr)
    # state arrays are reinitialised after the buffer fill
    res.rule("R-RESET-STATE", "each state-element field is written by the reset closure", floor=12)
    u = engine.unit(FILE)
    ptr_cases = _switch_cases(u.funcs["mj_stateElemPtr"])
    for name, node in ptr_cases.items():
        if name == "<default>":
            continue
        p = cir.strip(node)
        if p is not None and p.get("k") == "UnaryOperator":
            p = cir.strip(cir.kids(p)[0])
        fld = p.get("n") if p is not None else None
        if fld in written_by_reset or fld in own_body:
            res.ok("R-RESET-STATE", name, {"field": fld})
        else:
            res.bad("R-RESET-STATE", name, "src/engine/engine_io.c", g.funcs[rk]["line"],
                    f"state field d->{fld} ({name}) is not initialised by mj_resetData beyond the raw buffer fill")


def keyframes(res):
    res.rule("R-KEYFRAME", "mj_resetDataKeyframe and mj_setKeyframe use every key_* model array with its X-macro extent", floor=12)
    mrows = {r["name"]: r for r in xmacro.pointers("MJMODEL_POINTERS")}
    keys = sorted(n for n in mrows if n.startswith("key_"))
    if len(keys) < 6:
        raise AnalysisError("key_* arrays not found in MJMODEL_POINTERS")
    uio = engine.unit("src/engine/engine_io.c")
    usup = engine.unit(FILE)
    fns = {"mj_resetDataKeyframe": uio.funcs.get("mj_resetDataKeyframe"), "mj_setKeyframe": usup.funcs.get("mj_setKeyframe")}
    from .. import modref as _mr
    for fname, fn0 in fns.items():
        if fn0 is None:
            raise AnalysisError(f"anchor {fname} not found")
        # canonical view: same-TU helpers the key index is handed to are analysed in place, hoisted sizes (`int na = m->na`)
        # are substituted
        from .. import norm
        unit_ = uio if fname == "mj_resetDataKeyframe" else usup
        fn = norm.canon(unit_, fname, propagate=True, nested=False)
        if not any(n.get("k") == "MemberExpr" and (n.get("n") or "").startswith("key_") for n in cir.walk(fn)):
            # handled by a non-static same-TU callee
            for c in cir.calls(fn0):
                cal = unit_.funcs.get(cir.callee(c))
                if cal is not None and any(n.get("k") == "MemberExpr" and (n.get("n") or "").startswith("key_") for n in cir.walk(cal)):
                    fn = norm.canon(unit_, cir.callee(c), propagate=True, nested=False)
                    break
        file = fn.get("file") or "?"
        used = {}
        for n in cir.walk(fn):
            if n.get("k") == "MemberExpr" and (n.get("n") or "").startswith("key_"):
                used.setdefault(n.get("n"), n)
        if fname == "mj_resetDataKeyframe":
            # the loaded keyframe values must be the last word: nothing later in that function may write the same mjData
            # field again (e.g. default initialisation of mocap poses placed after the keyframe load)
            loads = {}
            lline = {}
            posn = {id(n): i for i, n in enumerate(cir.walk(fn))}
            for c in cir.calls(fn):
                at = cir.args(c)
                if len(at) >= 2 and "m->key_" in cir.text(at[1]):
                    rf = _mr.root_field(at[0])
                    if rf and rf[0] == "mjData":
                        loads[rf[1]] = posn[id(c)]
                        lline[rf[1]] = c.get("line")
            for n in cir.walk(fn):
                if n.get("k") == "BinaryOperator" and n.get("op") == "=" and "m->key_" in cir.text(cir.kids(n)[1]):
                    rf = _mr.root_field(cir.kids(n)[0])
                    if rf and rf[0] == "mjData":
                        loads[rf[1]] = posn[id(n)]
                        lline[rf[1]] = n.get("line")
            for e in _mr.events(fn, {"mjData"}):
                if e["field"] in loads and e["kind"] in ("assign", "elem", "pass", "addr") and e["pos"] > loads[e["field"]]:
                    res.bad("R-KEYFRAME", f"{fname}:{e['field']}:overwritten", file, e["line"],
                            f"d->{e['field']} is written again (line {e['line']}) after the keyframe value was loaded into it (line "
                            f"{lline[e['field']]}): mj_resetDataKeyframe would not yield the keyframe's value")
            for f_ in loads:
                res.ok("R-KEYFRAME", f"{fname}:{f_}:last-write", None)
        for kf in keys:
            construct = f"{fname}:{kf}"
            if kf not in used:
                res.bad("R-KEYFRAME", construct, file, fn.get("line"), f"{fname} does not touch m->{kf}")
                continue
            row = mrows[kf]
            nc = row["nc"]
            # find the statement using it: copy length / index stride must mention the extent
            okk = False
            detail = ""
            for c in cir.calls(fn):
                at = [cir.text(a) for a in cir.args(c)]
                if any(f"m->{kf}" in a for a in at):
                    detail = f"{cir.callee(c)}({', '.join(at)})"
                    factors = [f if (f.isdigit() or f.startswith(("m->", "mj"))) else "m->" + f for f in _factors(nc)]
                    stride_ok = all(any(fct in a for a in at) for fct in factors) if factors else True
                    okk = stride_ok
                    break
            if not detail:
                # scalar style: d->time = m->key_time[key]
                for n in cir.walk(fn):
                    if n.get("k") == "BinaryOperator" and n.get("op") == "=" and f"m->{kf}" in cir.text(n):
                        detail = cir.text(n)
                        okk = nc == "1"
                        break
            if okk:
                res.ok("R-KEYFRAME", construct, {"use": detail, "extent": f"{row['nr']}x{nc}"})
            else:
                res.bad("R-KEYFRAME", construct, file, used[kf].get("line"),
                        f"{fname}: use `{detail}` of m->{kf} does not carry the declared extent {row['nr']}x{nc}")
